"""Executable contracts for C11 on the real code (bounded stand-ins): expanding,
factoring and reducing intermediates are mutually consistent in value."""
import random
from fractions import Fraction

from sympy import S, Rational

from adcgen.indices import get_symbols
from adcgen.sympy_objects import NonSymmetricTensor
from adcgen.expr_container import Expr
from adcgen.intermediates import Intermediates
from adcgen.factor_intermediates import factor_intermediates
from adcgen.reduce_expr import reduce_expr
from runtime.tensor_model import Model, orbital_space, evaluate, all_assignments

BUDGET_S = {"quick": 200, "thorough": 3000}
ORBS = orbital_space(1, 1)


class HFModel(Model):
    """real canonical HF model: non vanishing orbital energy denominators"""

    def __init__(self, seed):
        super().__init__(ORBS, seed=seed, braket={"V": 1, "f": 1}, diag=("f",))

    def eps(self, o):
        return Fraction((-20 if o[0] == "o" else 20) + 3 * o[1] + (1 if o[2] == "b" else 0))

    def nonsym(self, name, idx):
        if name == "e":
            return self.eps(idx[0])
        return super().nonsym(name, idx)

    def antisym(self, name, upper, lower, symmetric=False):
        if name == "f":
            return self.eps(upper[0]) if tuple(upper) == tuple(lower) else Fraction(0)
        return super().antisym(name, upper, lower, symmetric)


def same_value(a, b, targets, model, limit=None):
    rng = random.Random(3)
    for asg in all_assignments(targets, model.orbs, limit=limit, rng=rng):
        va, vb = evaluate(a, asg, model), evaluate(b, asg, model)
        if va != vb:
            return False, f"{va} != {vb} at {dict((str(k), v) for k, v in asg.items())}"
    return True, ""


def cases(tier, seed):
    quick = ["t2_1", "t1_2", "p0_2_oo", "p0_2_vv", "t2eri_1", "t2eri_3", "t2sq"]
    names = quick if tier == "quick" else quick + ["t2_2", "t2eri_2", "t2eri_4", "t2eri_5", "t2eri_6",
                                                  "t2eri_7", "t2eri_A", "t2eri_B", "t3_2"]
    for n in names:
        yield {"kind": "nested_expand", "itmd": n}
    yield {"kind": "factor_roundtrip", "itmd": "t2_1", "extra": True}
    yield {"kind": "factor_roundtrip", "itmd": "t2_1", "extra": False}
    yield {"kind": "factor_power"}
    yield {"kind": "reduce", "itmd": "t2_1"}
    yield {"kind": "reduce", "itmd": "p0_2_oo"}
    # a long intermediate (second order doubles) inside a product, one term of
    # the expansion with a different prefactor (mixed prefactor factorisation)
    for k in range(4):
        yield {"kind": "factor_long_mixed", "term": k, "scale": [3, 2], "which": ["t2_2"]}
    yield {"kind": "factor_long_mixed", "term": 1, "scale": [5, 2], "which": ["t2_1", "t2_2"]}
    yield {"kind": "factor_long_mixed", "term": None, "scale": [1, 1], "which": ["t2_2"]}
    for p2, p3 in ((2, 2), (3, 2), (2, 3), (5, 2)):
        yield {"kind": "factor_merged", "p2": p2, "p3": p3, "which": ["t2_2"]}
    yield {"kind": "factor_merged", "p2": 3, "p3": 2, "which": ["t2_1", "t2_2"]}
    # orbital energy numerators over the denominators of two amplitudes, the brackets
    # entering with different weights (fraction cancellation inside reduce_expr)
    for w1, w2, rest in ((0, 0, ""), (1, 1, ""), (2, 1, ""), (1, 2, ""), (3, 2, ""), (-1, 2, ""), (2, -3, ""),
                         (1, 0, "k"), (2, 0, "k"), (0, 3, "i-a"), (2, 2, "k"), (4, 2, "i-a")):
        yield {"kind": "reduce_weighted", "w": [w1, w2], "rest": rest}
    if tier == "thorough":
        rng = random.Random(seed + 5)
        for _ in range(30):
            yield {"kind": "reduce_weighted", "w": [rng.randint(-4, 4), rng.randint(-4, 4)],
                   "rest": rng.choice(["", "k", "i-a", "c"])}
        yield {"kind": "factor_roundtrip", "itmd": "t1_2", "extra": False}
        yield {"kind": "reduce", "itmd": "t1_2"}
        yield {"kind": "reduce", "itmd": "t2eri_3"}


def factor_power_check():
    """<ij||ab>^2 / (e_i + e_j - e_a - e_b): the doubles amplitude can be
    factored once, the second integral stays"""
    from adcgen.sympy_objects import AntiSymmetricTensor
    i, j, a, b = get_symbols("ijab")
    V = AntiSymmetricTensor("V", (i, j), (a, b), 1)
    den = sum((1 if s.space == "occ" else -1) * NonSymmetricTensor("e", (s,)) for s in (i, j, a, b))
    model = HFModel(13)
    X = AntiSymmetricTensor("X", (a, b), (i, j))
    # with the free tensor X the odd powers do not vanish by antisymmetry; the last two shapes keep
    # the indices as targets (block of a tensor instead of a number)
    for expo_v, expo_d, rest, targets in ((2, 1, 1, []), (1, 2, 1, []), (2, 2, 1, []), (3, 2, 1, []),
                                          (1, 2, X, []), (2, 3, X, []), (1, 3, X, []), (3, 1, X, []),
                                          (1, 2, 1, [i, j, a, b]), (2, 3, 1, [i, j, a, b])):
        e0 = Expr(V ** expo_v * rest / den ** expo_d, real=True, target_idx=targets)
        fact = factor_intermediates(e0.copy(), types_or_names=["t2_1"])
        back = fact.copy().expand_intermediates().expand()
        ok, d = same_value(e0.sympy, back.sympy, targets, model)
        if not ok:
            return False, f"factoring t2_1 in {e0} gives {fact}, which expands to a different value: {d}"
    return True, ""


MERGED_V_T22 = (
    # sum_ij V^{ij}_{ab} t2_2^{cd}_{ij} with equal terms merged (printed form of
    # the library's own expansion); {P} is the prefactor of the second term
    r"- \frac{{V^{cd}_{ef}} {V^{ij}_{ab}} {V^{ij}_{ef}}}{2 \left({e_{c}} + {e_{d}} - {e_{i}} - {e_{j}}\right) \left({e_{e}} + {e_{f}} - {e_{i}} - {e_{j}}\right)} "
    r"+ \frac{P2 {V^{ie}_{kc}} {V^{ij}_{ab}} {V^{jk}_{de}}}{\left({e_{c}} + {e_{d}} - {e_{i}} - {e_{j}}\right) \left({e_{d}} + {e_{e}} - {e_{j}} - {e_{k}}\right)} "
    r"+ \frac{P3 {V^{ij}_{ab}} {V^{ik}_{ce}} {V^{je}_{kd}}}{\left({e_{c}} + {e_{d}} - {e_{i}} - {e_{j}}\right) \left({e_{c}} + {e_{e}} - {e_{i}} - {e_{k}}\right)} "
    r"- \frac{{V^{ij}_{ab}} {V^{ij}_{kl}} {V^{kl}_{cd}}}{2 \left({e_{c}} + {e_{d}} - {e_{i}} - {e_{j}}\right) \left({e_{c}} + {e_{d}} - {e_{k}} - {e_{l}}\right)}"
)


def factor_merged_check(case):
    """the merged form: the particle-hole terms stand for two terms of the
    definition each (permutational symmetry of the remainder)"""
    from adcgen.func import import_from_sympy_latex
    text = MERGED_V_T22.replace("P2", str(case["p2"])).replace("P3", str(case["p3"]))
    full = import_from_sympy_latex(text, convert_default_names=True)
    full.make_real()
    full.set_target_idx("abcd")
    a, b, c, d = get_symbols("abcd")
    model = HFModel(13)
    ref = Intermediates().available["t2_2"].tensor(indices="ijcd")
    if case["p2"] == 2 and case["p3"] == 2:
        # the text is the expansion of the product
        from adcgen.sympy_objects import AntiSymmetricTensor
        i, j = get_symbols("ij")
        prod = Expr(AntiSymmetricTensor("V", (i, j), (a, b), 1) * ref.sympy, real=True, target_idx=[a, b, c, d])
        ok, dd = same_value(full.sympy, prod.copy().expand_intermediates().expand().sympy, [a, b, c, d], model)
        if not ok:
            return False, f"reference text is not the expansion of V t2_2: {dd}"
    fact = factor_intermediates(full.copy(), types_or_names=case["which"])
    back = fact.copy().expand_intermediates().expand()
    ok, dd = same_value(full.sympy, back.sympy, [a, b, c, d], model)
    if not ok:
        return False, (f"factoring {case['which']} in the merged expansion of V^ij_ab t2_2^cd_ij with prefactors "
                       f"({case['p2']}, {case['p3']}) and expanding again changes the value: {dd}; factored: {str(fact)[:400]}")
    return True, ""


def factor_long_mixed_check(case):
    from adcgen.sympy_objects import AntiSymmetricTensor
    from sympy import Add
    i, j, a, b, c, d = get_symbols("ijabcd")
    t22 = Intermediates().available["t2_2"].tensor(indices="ijcd")
    V = AntiSymmetricTensor("V", (i, j), (a, b), 1)
    e0 = Expr(V * t22.sympy, real=True, target_idx=[a, b, c, d])
    full = e0.copy().expand_intermediates().expand()
    terms = list(full.terms)
    if case["term"] is not None:
        if case["term"] >= len(terms):
            return True, "fewer terms"
        k = case["term"]
        sym = Add(*[t.sympy * (Rational(*case["scale"]) if n == k else 1) for n, t in enumerate(terms)])
        full = Expr(sym, real=True, target_idx=[a, b, c, d])
    model = HFModel(13)
    fact = factor_intermediates(full.copy(), types_or_names=case["which"])
    back = fact.copy().expand_intermediates().expand()
    ok, dd = same_value(full.sympy, back.sympy, [a, b, c, d], model)
    if not ok:
        return False, (f"factoring {case['which']} in V^ij_ab t2_2^cd_ij (term {case['term']} scaled by "
                       f"{case['scale']}) and expanding again changes the value: {dd}; factored: {str(fact)[:400]}")
    return True, ""


def reduce_weighted_check(case):
    """X_ikac = sum_jb N t_ijab t_jkbc Y_jb with N = w1 D1 + w2 D2 (+ single orbital
    energies): reduce_expr and expand_intermediates agree in value"""
    t2 = Intermediates().available["t2_1"]
    i, j, k, a, b, c = get_symbols("ijkabc")
    e = {s.name: NonSymmetricTensor("e", (s,)) for s in (i, j, k, a, b, c)}
    d1 = e["i"] + e["j"] - e["a"] - e["b"]
    d2 = e["j"] + e["k"] - e["b"] - e["c"]
    num = case["w"][0] * d1 + case["w"][1] * d2
    for n, part in enumerate(case["rest"].replace("-", " -").split()):
        num += -e[part[1:]] if part.startswith("-") else e[part]
    if num == 0:
        num = S.One
    base = (t2.tensor(indices=(i, j, a, b), return_sympy=True) * t2.tensor(indices=(j, k, b, c), return_sympy=True)
            * NonSymmetricTensor("Y", (j, b)))
    tg = [i, k, a, c]
    e0 = Expr(num * base, real=True, target_idx=tg)
    expanded = e0.copy().expand_intermediates().expand()
    try:
        red = reduce_expr(e0.copy())
    except RuntimeError as exc:
        # numerators whose occupied / virtual energies carry both signs are refused
        # explicitly (no result, nothing to compare)
        if "Ambiguous signs" in str(exc):
            return True, "refused: ambiguous signs"
        raise
    model = HFModel(13)
    ok, d = same_value(expanded.sympy, red.sympy, tg, model)
    if not ok:
        return False, f"reduce_expr({e0}) = {str(red)[:400]} differs in value from the expansion: {d}"
    return True, ""


def check(case):
    if case["kind"] == "reduce_weighted":
        return reduce_weighted_check(case)
    if case["kind"] == "factor_power":
        return factor_power_check()
    if case["kind"] == "factor_long_mixed":
        return factor_long_mixed_check(case)
    if case["kind"] == "factor_merged":
        return factor_merged_check(case)
    itmd = Intermediates().available[case["itmd"]]
    idx = itmd.default_idx
    targets = get_symbols(idx)
    model = HFModel(13)
    full = itmd.expand_itmd(indices="".join(idx), fully_expand=True).make_real()
    if case["kind"] == "nested_expand":
        # expanding once and then expanding the remaining intermediates must
        # agree with the full expansion (index substitution / fresh indices)
        once = itmd.expand_itmd(indices="".join(idx), fully_expand=False).make_real()
        again = once.copy().expand_intermediates()
        ok, d = same_value(full.sympy, again.sympy, targets, model, limit=6)
        if not ok:
            return False, f"{case['itmd']}: expanding step by step differs from the full expansion: {d}"
        # the intermediate tensor itself expands to the same definition (other index names)
        other = "".join(n + "7" for n in idx)
        t = itmd.tensor(indices=other)
        exp_t = Expr(t.sympy, real=True).expand_intermediates()
        ref = itmd.expand_itmd(indices=other, fully_expand=True).make_real()
        ok, d = same_value(exp_t.sympy, ref.sympy, get_symbols(other), model, limit=4)
        if not ok:
            return False, f"{case['itmd']}: expand_intermediates of the tensor differs from expand_itmd: {d}"
        if tuple(exp_t.provided_target_idx or ()) != tuple(sorted(get_symbols(other), key=lambda s: s.name)) \
                and set(exp_t.provided_target_idx or ()) != set(get_symbols(other)):
            return False, f"{case['itmd']}: target indices of the expansion are {exp_t.provided_target_idx}"
        return True, ""
    tensor = itmd.tensor(indices="".join(idx))
    e0 = Expr(tensor.sympy, real=True)
    extra_targets = []
    if case.get("extra"):
        k, c = get_symbols("kc")
        e0 = e0 * NonSymmetricTensor("Z", (k, c)) * Rational(1, 2)
        extra_targets = [k, c]
    tg = list(targets) + extra_targets
    e0.set_target_idx(tg)
    expanded = e0.copy().expand_intermediates().expand()
    if case["kind"] == "factor_roundtrip":
        fact = factor_intermediates(expanded.copy(), types_or_names=[case["itmd"]])
        back = fact.copy().expand_intermediates().expand()
        ok, d = same_value(expanded.sympy, back.sympy, tg, model, limit=6)
        if not ok:
            return False, f"expand(factor(expand({e0}))) = {back} differs from expand({e0}): {d}; factored: {fact}"
        names = {o.name for t in fact.terms for o in t.objects if o.name}
        if tensor.terms[0].objects[0].name not in names:
            return False, f"factor_intermediates did not restore {case['itmd']} in {fact}"
        return True, ""
    if case["kind"] == "reduce":
        red = reduce_expr(e0.copy())
        ok, d = same_value(expanded.sympy, red.sympy, tg, model, limit=6)
        if not ok:
            return False, f"reduce_expr({e0}) = {red} differs in value from the expansion: {d}"
        return True, ""
    return False, "unknown case"


CHECKS = {
    "intermediates.consistency": {
        "function": "adcgen.intermediates:RegisteredIntermediate.expand_itmd", "cases": cases,
        "check": check,
        "bound": "registered intermediates t2_1, t1_2, p0_2_oo/vv, t2eri_1/3, t2sq (thorough: + t2_2, t3_2, t2eri_2..7, A, B): step-wise vs full expansion, tensor expansion with other index names; factor(expand(.)) round trip for t2_1 and for the long intermediate t2_2 inside a product with one rescaled term (mixed prefactors), reduce_expr for t2_1 (with a free tensor) / p0_2_oo and for sum_jb N t_ijab t_jkbc Y_jb with 12 (thorough 42) weighted orbital energy numerators N; real canonical HF model, sampled target assignments",
    },
}
