"""C06 - canonical tensor objects.  Contracts on
adcgen.indices:sort_idx_canonical,
adcgen.sympy_objects:AntiSymmetricTensor._need_bra_ket_swap / __new__,
SymmetricTensor.__new__, KroneckerDelta.eval / _eval_power."""
import z3
from pyvc import contract as C
from pyvc.contract import Contract, register
from pyvc.values import (Struct, Sym, PList, PDict, Inst, PyFunc, ClassRef, term, wrap, zand,
                         zor, znot, zeq, is_enum, enum_eq, Unsupported)
from pyvc.vc import RaiseEx
from spec.idx import (IdxSort, idx_space, idx_spin, new_index,
                      range_disjoint, valid_index)
from spec.names import valid_name, same_registry_key
from spec.exprval import ZERO, ONE, NEG_ONE, mk_expr

ASSUMPTIONS = [
    "class invariant of the index registry (C19/C08): two registered Index objects with equal (space, spin, name) are the same object",
    "index names are one base letter of the index' space followed by digits (what Indices.get_indices creates from strings)",
    "sympy _sort_anticommuting_fermions returns the key-sorted sequence and the number of transpositions and raises ViolationOfPauliPrinciple for two equal keys (modelled for ranks <= 2 per index group)",
    "sympy: (i - j).is_zero is True iff i and j are the same Dummy, None otherwise; fuzzy_not(None) is None",
    "CPython hash(): an arbitrary integer function of the object",
    "z3 string order str.< is the code point lexicographic order Python uses for str comparison",
    "Expr.set_sym_tensors / set_antisym_tensors / make_real: representation invariant over the stored sets (subsets of {f, V, d} / {x}), real flag on/off; Expr._apply_tensor_braket_sym is an assumed callee that applies the stored sets to every term (its per-object part is under contract), Term.make_real and sympy.Add are opaque",
    "add_bra_ket_sym / _apply_tensor_braket_sym: tensor classes AntiSymmetricTensor, SymmetricTensor, Amplitude (and NonSymmetricTensor, KroneckerDelta as objects without bra-ket symmetry); the subclass relation is read from the class statements of the real source; symbol, index tuples, exponent and assumptions are opaque; precondition: a tensor name is not listed in sym_tensors and antisym_tensors at once; sympy.Pow(b, e) builds the power of b",
]


def new_named_index(vc, prefix):
    s = new_index(vc, prefix)
    vc.assume(valid_name(s.t))
    return s


# --- sort_idx_canonical ---------------------------------------------------------
KEYFN = [z3.Function(f"canon_key{n}", IdxSort, z3.IntSort()) for n in range(4)]


def key4_equal(k1, k2, ip):
    """equality of the keys without their last (hash) component"""
    if len(k1) != len(k2):
        return False
    return zand(*[ip.values_eq(a, b) for a, b in zip(k1[:-1], k2[:-1])])


def opaque_object(vc, name):
    """an argument that is not an Index: printed text (Int coded) and hash"""
    return Struct("OpaqueKeyArg", _str=Sym(vc.fresh_int(name + "_text")), _hash=Sym(vc.fresh_int(name + "_hash")))


C.STRUCT_ISINSTANCE["OpaqueKeyArg"] = lambda ip, v, cls: False


@register
class SortIdxCanonical(Contract):
    key = "adcgen.indices:sort_idx_canonical"
    props = ["C06", "C19"]

    def setup(self, vc):
        if vc.choose(2, "argument") == 1:
            # not an Index: the placeholder objects sympy substitutes during
            # subs(..., simultaneous=True) - all of them print the same
            return {"idx": opaque_object(vc, "x"), "_other": opaque_object(vc, "y")}
        return {"idx": new_named_index(vc, "i"), "_other": new_named_index(vc, "j")}

    def fresh_result(self, vc, a):
        """abstract key for callers: four components from totally ordered
        domains (embedded into Int) that are injective on registered indices,
        followed by the hash"""
        t = a["idx"].t
        seen = vc.ghost.setdefault("canon_key_requested", [])
        for o in seen:
            if not z3.eq(o, t):
                vc.assume(z3.Implies(z3.And(*[f(o) == f(t) for f in KEYFN]),
                                     same_registry_key(o, t)))
                vc.assume(z3.Implies(same_registry_key(o, t), o == t))
        if not any(z3.eq(o, t) for o in seen):
            seen.append(t)
        h = z3.Function("py_hash_Idx", IdxSort, z3.IntSort())
        return tuple(Sym(f(t)) for f in KEYFN) + (Sym(h(t)),)

    def post(self, vc, a, result):
        ip = vc.ip
        if "_other" not in a:
            return []
        if not isinstance(result, tuple) or len(result) < 2:
            return [("key-is-a-tuple-with-the-hash-last", False)]
        r2 = ip.run_body(self.key, {"idx": a["_other"]})
        if isinstance(a["idx"], Struct) and a["idx"].cls == "OpaqueKeyArg":
            same = zand(*[ip.values_eq(x, y) for x, y in zip(result, r2)]) if len(result) == len(r2) else False
            return [("objects-that-are-not-indices-get-different-keys-unless-text-and-hash-coincide",
                     z3.Implies(term(same), z3.And(a["idx"].f["_str"].t == a["_other"].f["_str"].t,
                                                   a["idx"].f["_hash"].t == a["_other"].f["_hash"].t)))]
        return [
            ("key-without-hash-is-injective-on-registered-indices",
             z3.Implies(term(key4_equal(result, r2, ip)),
                        same_registry_key(a["idx"].t, a["_other"].t))),
        ]


def items(v):
    return list(v) if isinstance(v, tuple) else list(v.items)


# --- _need_bra_ket_swap ---------------------------------------------------------
@register
class NeedBraKetSwap(Contract):
    key = "adcgen.sympy_objects:AntiSymmetricTensor._need_bra_ket_swap"
    props = ["C06"]
    SHAPES = [(1, 1), (2, 2), (3, 3), (1, 2), (2, 1), (0, 1)]

    def setup(self, vc):
        nu, nl = self.SHAPES[vc.choose(len(self.SHAPES), "rank")]
        up = tuple(new_named_index(vc, f"u{k}") for k in range(nu))
        lo = tuple(new_named_index(vc, f"l{k}") for k in range(nl))
        return {"cls": ClassRef("adcgen.sympy_objects:AntiSymmetricTensor"),
                "upper": up, "lower": lo}

    def raises(self, vc, a):
        return [("NotImplementedError", len(items(a["upper"])) != len(items(a["lower"])))]

    NS = {}

    @classmethod
    def swap_fn(cls, up, lo):
        r = len(up)
        if r not in cls.NS:
            cls.NS[r] = z3.Function(f"need_swap_{r}", *([IdxSort] * (2 * r) + [z3.BoolSort()]))
        return cls.NS[r](*[x.t for x in up + lo])

    def fresh_result(self, vc, a):
        """the result is a function of the two index tuples; the two verified
        postconditions relate it to the call with exchanged arguments"""
        up, lo = tuple(items(a["upper"])), tuple(items(a["lower"]))
        if len(up) == 0:
            return False
        r1, r2 = self.swap_fn(up, lo), self.swap_fn(lo, up)
        differ = zor(*[znot(same_registry_key(u.t, l.t)) for u, l in zip(up, lo)])
        vc.assume(z3.Implies(term(differ), z3.Not(z3.And(r1, r2))))
        vc.assume(z3.Implies(term(differ), z3.Or(r1, r2)))
        return Sym(r1)

    def post(self, vc, a, result):
        ip = vc.ip
        if a.get("_callsite"):
            return []
        r2 = ip.run_body(self.key, {"cls": a["cls"], "upper": a["lower"],
                                    "lower": a["upper"]})
        r1t, r2t = ip.truth_term(result), ip.truth_term(r2)
        differ = zor(*[znot(same_registry_key(u.t, l.t))
                       for u, l in zip(a["upper"], a["lower"])])
        return [
            # (for identical tuples an exchange is unobservable)
            ("never-swaps-different-tuples-in-both-directions",
             z3.Implies(term(differ), term(znot(zand(r1t, r2t))))),
            ("total-on-different-index-tuples", z3.Implies(term(differ), term(zor(r1t, r2t)))),
        ]


# --- KroneckerDelta.eval ----------------------------------------------------------
def idx_arith(ip, opn, a, b):
    if opn == "Sub" and isinstance(a, Sym) and isinstance(b, Sym):
        same = ip.vc.decide(a.t == b.t)
        return Struct("IdxDiff", is_zero=True if same else None)
    raise Unsupported("arithmetic on indices")


C.SCHEMAS["Index"].arith = idx_arith


def model_fuzzy_not(ip, args, kwargs):
    v = args[0]
    if v is None:
        return None
    return not v


C.EXTERNALS["sympy.core.logic.fuzzy_not"] = model_fuzzy_not


def final_args(result, i, j):
    if result is None:
        return (i, j)
    if isinstance(result, Struct) and result.cls == "Delta":
        return result.f["args"]
    return None


def key_less(vc, x, y):
    """strict canonical order of two indices (abstract key incl. hash)"""
    con = C.REGISTRY["adcgen.indices:sort_idx_canonical"]
    kx = con.fresh_result(vc, {"idx": x})
    ky = con.fresh_result(vc, {"idx": y})
    return vc.ip.less(kx, ky, True)


@register
class DeltaEval(Contract):
    key = "adcgen.sympy_objects:KroneckerDelta.eval"
    props = ["C06", "C09"]      # C09: a delta between disjoint index ranges is zero in either argument order

    def setup(self, vc):
        i, j = new_named_index(vc, "i"), new_named_index(vc, "j")
        vc.assume(z3.Implies(same_registry_key(i.t, j.t), i.t == j.t))
        return {"cls": PyFunc(self._cls_model, "KroneckerDelta"), "i": i, "j": j}

    def _cls_model(self, ip, args, kwargs):
        """cls(j, i): sympy's Function.__new__ calls eval again and builds the
        object with the given argument order if eval returns None (the real
        body is executed again, not a contract)"""
        i, j = args
        r = ip.run_body(self.key, {"cls": PyFunc(self._cls_model, "KroneckerDelta"), "i": i, "j": j})
        if r is None:
            return Struct("Delta", args=(i, j))
        return r

    def fresh_result(self, vc, a):
        i, j = a["i"], a["j"]
        c = vc.choose(4, "delta-eval")
        if c == 0:
            return ONE
        if c == 1:
            return ZERO
        if c == 2:
            return None
        return Struct("Delta", args=(j, i))

    def post(self, vc, a, result):
        i, j = a["i"], a["j"]
        same = i.t == j.t
        is_one = isinstance(result, Struct) and result.f.get("singleton") == "One"
        is_zero = isinstance(result, Struct) and result.f.get("singleton") == "Zero"
        out = [
            ("one-iff-identical-index", zeq(is_one, same)),
            ("zero-iff-ranges-disjoint", zeq(is_zero, z3.And(z3.Not(same), range_disjoint(i.t, j.t)))),
        ]
        fa = final_args(result, i, j)
        if fa is not None:
            x, y = fa
            out.append(("is-the-index-pair", zor(zand(x.t == i.t, y.t == j.t), zand(x.t == j.t, y.t == i.t))))
            if not a.get("_callsite"):
                # the other argument order yields the same canonical object
                r2 = vc.ip.run_body(self.key, {"cls": a["cls"], "i": j, "j": i})
                fa2 = final_args(r2, j, i)
                if fa2 is None:
                    out.append(("other-order-gives-the-same-object", False))
                else:
                    out.append(("other-order-gives-the-same-object",
                                zand(fa2[0].t == x.t, fa2[1].t == y.t)))
        elif not (is_one or is_zero):
            out.append(("result-shape", False))
        return out


@register
class DeltaEvalPower(Contract):
    key = "adcgen.sympy_objects:KroneckerDelta._eval_power"
    props = ["C06", "C09"]

    def setup(self, vc):
        e = vc.fresh_int("exp")
        return {"self": Struct("Delta", args=None, val=vc.fresh_real("dval")),
                "exp": Struct("Number", n=e)}

    def pre(self, vc, a):
        d = a["self"].f["val"]
        return [("delta-is-0-or-1", z3.Or(d == 0, d == 1))]

    def post(self, vc, a, result):
        # the returned object (None: sympy keeps Pow(self, exp)) has the value
        # delta**exp for integer exponents; delta in {0, 1}
        e = a["exp"].f["n"]
        d = a["self"].f["val"]
        if result is None:
            return [("kept-only-for-exponent-minus-one-or-zero", z3.Or(e == 0, e == -1))]
        if result is a["self"]:
            return [("positive-power-is-delta", e > 0)]
        if isinstance(result, Struct) and result.cls == "InvDelta" and result.f["base"] is a["self"]:
            # 1/self: delta**-1 (delta**e = delta**-1 for e < 0 as delta in {0,1})
            return [("negative-power-is-inverse", e < -1)]
        return [("result-shape", False)]


C.STRUCT_ATTR[("Number", "is_positive")] = lambda ip, o: wrap(o.f["n"] > 0)
C.STRUCT_ATTR[("Number", "is_negative")] = lambda ip, o: wrap(o.f["n"] < 0)


def number_is(ip, a, b):
    for x, y in ((a, b), (b, a)):
        if isinstance(x, Struct) and x.cls == "Number" and isinstance(y, Struct) \
                and y.f.get("singleton") == "NegativeOne":
            return x.f["n"] == -1
    return a is b


C.STRUCT_IS["Number"] = number_is


def delta_arith(ip, opn, a, b):
    # 1/self
    if opn == "Div" and a == 1 and isinstance(b, Struct) and b.cls == "Delta":
        return Struct("InvDelta", base=b)
    raise Unsupported("arithmetic on a delta object")


C.STRUCT_ARITH["Delta"] = delta_arith


# --- AntiSymmetricTensor.__new__ / SymmetricTensor.__new__ -------------------------
def canon_less(ip, x, y):
    return key_less(ip.vc, x, y)


def model_sort_anticommuting(ip, args, kwargs):
    """assumed contract of sympy's _sort_anticommuting_fermions for a
    concrete-length sequence: key-sorted sequence + number of transpositions
    (bubble sort), ViolationOfPauliPrinciple for two equal keys."""
    items = list(ip.iterate_concrete(args[0]))
    key = kwargs.get("key")
    keys = [ip.call_value(key, [x], {}, None) for x in items]
    swaps = 0
    n = len(items)
    for a in range(n):
        for b in range(n - 1 - a):
            if ip.vc.decide(ip.values_eq(keys[b], keys[b + 1])):
                raise RaiseEx("ViolationOfPauliPrinciple")
            if ip.vc.decide(ip.less(keys[b + 1], keys[b], True)):
                items[b], items[b + 1] = items[b + 1], items[b]
                keys[b], keys[b + 1] = keys[b + 1], keys[b]
                swaps += 1
    return (PList(items), swaps)


C.EXTERNALS["sympy.physics.secondquant._sort_anticommuting_fermions"] = model_sort_anticommuting


def model_sympify(ip, args, kwargs):
    v = args[0]
    if isinstance(v, int) and not isinstance(v, bool):
        return {0: ZERO, 1: ONE, -1: NEG_ONE}.get(v, Struct("Number", n=z3.IntVal(v)))
    return v


C.EXTERNALS["sympy.sympify"] = model_sympify
C.EXTERNALS["sympy.Tuple"] = lambda ip, args, kwargs: tuple(args)


def singleton_eq(ip, a, b):
    sa = a.f.get("singleton") if isinstance(a, Struct) else None
    sb = b.f.get("singleton") if isinstance(b, Struct) else None
    if sa is not None and sb is not None:
        return sa == sb
    if sa is not None or sb is not None:
        other = b if sa is not None else a
        if isinstance(other, Struct) and other.cls == "Number":
            want = {"Zero": 0, "One": 1, "NegativeOne": -1}[sa or sb]
            return other.f["n"] == want
        if isinstance(other, int):
            return {"Zero": 0, "One": 1, "NegativeOne": -1}[sa or sb] == other
    return a is b


C.STRUCT_EQ["Expr"] = singleton_eq
C.STRUCT_EQ["Number"] = singleton_eq
_prev_is = C.STRUCT_IS["Expr"]


def singleton_is(ip, a, b):
    sa = a.f.get("singleton") if isinstance(a, Struct) else None
    sb = b.f.get("singleton") if isinstance(b, Struct) else None
    if sa is not None and sb is not None:
        return sa == sb
    for x, y in ((a, b), (b, a)):
        if isinstance(x, Struct) and x.cls == "Tensor" and isinstance(y, Struct) and y.f.get("singleton"):
            return False
    return _prev_is(ip, a, b)


C.STRUCT_IS["Expr"] = singleton_is


def model_super(ip, args, kwargs):
    return Struct("super")


def super_new(ip, obj, args, kwargs):
    cls, name, upper, lower, bk = args
    return Struct("Tensor", name=name, upper=tuple(upper), lower=tuple(lower), bk=bk, sign=1)


C.STRUCT_METHODS[("super", "__new__")] = super_new


def tensor_arith(ip, opn, a, b):
    if opn == "neg":
        return Struct("Tensor", **{**a.f, "sign": -a.f["sign"]})
    raise Unsupported("arithmetic on an abstract tensor object")


C.STRUCT_ARITH["Tensor"] = tensor_arith


def same_tuple(x, y):
    if len(x) != len(y):
        return False
    return zand(*[a.t == b.t for a, b in zip(x, y)])


class _TensorNew(Contract):
    props = ["C06"]
    antisym = True
    # (rank upper, rank lower)
    SHAPES = [(1, 1), (2, 2), (2, 1), (0, 0)]

    def setup(self, vc):
        vc.ip.builtins = dict(vc.ip.builtins, super=PyFunc(model_super, "super"))
        nu, nl = self.SHAPES[vc.choose(len(self.SHAPES), "rank")]
        up = tuple(new_named_index(vc, f"u{k}") for k in range(nu))
        lo = tuple(new_named_index(vc, f"l{k}") for k in range(nl))
        allidx = up + lo
        for x in range(len(allidx)):
            for y in range(x + 1, len(allidx)):
                vc.assume(z3.Implies(same_registry_key(allidx[x].t, allidx[y].t),
                                     allidx[x].t == allidx[y].t))
        bk = [0, 1, -1, 2][vc.choose(4, "bra-ket-sym")]
        # which related ordering is compared with the first construction
        variant = ["swap-upper", "swap-lower", "exchange-bra-ket"][vc.choose(3, "variant")]
        return {"cls": ClassRef(self.key.rsplit(".", 1)[0]), "name": "T",
                "upper": up, "lower": lo, "bra_ket_sym": bk, "_variant": variant}

    def raises(self, vc, a):
        nonzero_rep = self._repeated(a["upper"], a["lower"]) if self.antisym else False
        return [("Inputerror", zand(a["bra_ket_sym"] == 2, znot(nonzero_rep))),
                ("NotImplementedError",
                 zand(a["bra_ket_sym"] in (1, -1), len(a["upper"]) != len(a["lower"]),
                      znot(nonzero_rep)))]

    @staticmethod
    def _repeated(up, lo):
        out = []
        for grp in (up, lo):
            for x in range(len(grp)):
                for y in range(x + 1, len(grp)):
                    out.append(grp[x].t == grp[y].t)
        return zor(*out)

    def post(self, vc, a, result):
        ip = vc.ip
        up, lo, bk = a["upper"], a["lower"], a["bra_ket_sym"]
        rep = self._repeated(up, lo)
        is_zero = isinstance(result, Struct) and result.f.get("singleton") == "Zero"
        out = []
        if self.antisym:
            out.append(("zero-iff-repeated-index-in-an-antisymmetric-group", zeq(is_zero, rep)))
        else:
            out.append(("never-zero", not is_zero))
        if is_zero:
            return out
        if not (isinstance(result, Struct) and result.cls == "Tensor"):
            return out + [("result-shape", False)]
        # the same tensor from a symmetry related ordering
        var = a["_variant"]
        expected_sign = None
        if var == "swap-upper" and len(up) == 2:
            up2, lo2 = (up[1], up[0]), lo
            expected_sign = -1 if self.antisym else 1
        elif var == "swap-lower" and len(lo) == 2:
            up2, lo2 = up, (lo[1], lo[0])
            expected_sign = -1 if self.antisym else 1
        elif var == "exchange-bra-ket" and bk in (1, -1) and len(up) == len(lo):
            up2, lo2 = lo, up
            expected_sign = bk
        if expected_sign is None:
            return out
        r2 = ip.run_body(self.key, {"cls": a["cls"], "name": a["name"], "upper": up2,
                                    "lower": lo2, "bra_ket_sym": bk})
        if not (isinstance(r2, Struct) and r2.cls == "Tensor"):
            return out + [("related-ordering-gives-a-tensor", False)]
        same_obj = zand(same_tuple(result.f["upper"], r2.f["upper"]),
                        same_tuple(result.f["lower"], r2.f["lower"]))
        # bra-ket ANTIsymmetric tensor with identical bra and ket: not demanded
        degenerate = zand(var == "exchange-bra-ket", bk == -1,
                          same_tuple(result.f["upper"], result.f["lower"]))
        out.append((f"{var}:same-canonical-object", same_obj))
        out.append((f"{var}:sign-prescribed-by-the-symmetry",
                    zor(degenerate, r2.f["sign"] == expected_sign * result.f["sign"])))
        return out


@register
class AntiSymNew(_TensorNew):
    key = "adcgen.sympy_objects:AntiSymmetricTensor.__new__"
    antisym = True


@register
class SymNew(_TensorNew):
    key = "adcgen.sympy_objects:SymmetricTensor.__new__"
    antisym = False


# --- add_bra_ket_sym: same tensor (class, name, indices), only the bra-ket symmetry is set ---------
_TENSOR_CLASSES = ["adcgen.sympy_objects:AntiSymmetricTensor", "adcgen.sympy_objects:SymmetricTensor",
                   "adcgen.sympy_objects:Amplitude"]


@register
class AddBraKetSym(Contract):
    key = "adcgen.sympy_objects:AntiSymmetricTensor.add_bra_ket_sym"
    props = ["C06"]

    def setup(self, vc):
        from pyvc.values import ClassRef
        cls = _TENSOR_CLASSES[vc.choose(3, "class")]
        have, want = vc.fresh_int("bra_ket_sym_of_the_tensor"), vc.fresh_int("requested_bra_ket_sym")
        vc.assume(z3.And(have >= -1, have <= 1, want >= -1, want <= 1))
        me = Struct("TensorSelf", klass=cls, symbol=Struct("Opaque", what="symbol"),
                    upper=Struct("Opaque", what="upper"), lower=Struct("Opaque", what="lower"), bk=Sym(have))
        C.STRUCT_ATTR[("TensorSelf", "__class__")] = lambda ip, o: ClassRef(o.f["klass"])
        C.STRUCT_ATTR[("TensorSelf", "bra_ket_sym")] = lambda ip, o: o.f["bk"]
        for f in ("symbol", "upper", "lower"):
            C.STRUCT_ATTR[("TensorSelf", f)] = (lambda f: lambda ip, o: o.f[f])(f)
        for k in _TENSOR_CLASSES:
            C.CLASS_MODELS[k] = (lambda k: lambda ip, a, kw: Struct("BuiltTensor", klass=k, args=tuple(a), kw=dict(kw)))(k)
        return {"self": me, "bra_ket_sym": Sym(want)}

    def raises(self, vc, a):
        have, want = a["self"].f["bk"].t, a["bra_ket_sym"].t
        return [("Inputerror", z3.And(have != want, have != 0))]

    def post(self, vc, a, result):
        me = a["self"]
        have, want = me.f["bk"].t, a["bra_ket_sym"].t
        if result is me:
            return [("the-tensor-itself-is-returned-only-if-it-has-the-requested-symmetry", have == want)]
        ok = isinstance(result, Struct) and result.cls == "BuiltTensor"
        args = result.f["args"] if ok else ()
        return [("a-tensor-of-the-same-class-is-built", ok and result.f["klass"] == me.f["klass"]),
                ("with-the-same-name-and-indices",
                 ok and len(args) == 4 and args[0] is me.f["symbol"] and args[1] is me.f["upper"]
                 and args[2] is me.f["lower"] and not result.f["kw"]),
                ("and-the-requested-bra-ket-symmetry",
                 ok and len(args) == 4 and isinstance(args[3], Sym) and args[3].t.eq(want)),
                ("only-a-tensor-without-bra-ket-symmetry-is-rebuilt", z3.And(have == 0, want != 0))]


# --- Obj._apply_tensor_braket_sym: tensors listed in sym_tensors / antisym_tensors get that -----------
# bra-ket symmetry, whatever subclass of AntiSymmetricTensor they are; everything else is untouched
@register
class ApplyTensorBraketSym(Contract):
    key = "adcgen.expr_container:Obj._apply_tensor_braket_sym"
    props = ["C06"]
    KINDS = ["adcgen.sympy_objects:AntiSymmetricTensor", "adcgen.sympy_objects:SymmetricTensor",
             "adcgen.sympy_objects:Amplitude", "adcgen.sympy_objects:NonSymmetricTensor",
             "adcgen.sympy_objects:KroneckerDelta"]

    @staticmethod
    def _has_braket(ckey):
        """subclass of AntiSymmetricTensor according to the class statements of the real source"""
        from pyvc.source import SourceTable
        src = ApplyTensorBraketSym._src = getattr(ApplyTensorBraketSym, "_src", None) or SourceTable()
        top = "adcgen.sympy_objects:AntiSymmetricTensor"
        seen, todo = set(), [ckey]
        while todo:
            c = todo.pop()
            if c == top:
                return True
            if c in seen or c not in src.classes:
                continue
            seen.add(c)
            todo.extend(b for b in src.class_bases(c) if isinstance(b, str))
        return False

    def setup(self, vc):
        from spec.exprval import ONE, NEG_ONE, ZERO
        C.EXTERNALS["sympy.S.One"], C.EXTERNALS["sympy.S.NegativeOne"], C.EXTERNALS["sympy.S.Zero"] = ONE, NEG_ONE, ZERO
        kind = self.KINDS[vc.choose(len(self.KINDS), "class")]
        # (precondition: a tensor name is not declared symmetric and antisymmetric at once)
        listed = vc.choose(3, "listed_in")
        in_sym, in_anti = listed == 1, listed == 2
        bk = vc.fresh_int("bra_ket_sym_of_the_tensor")
        vc.assume(z3.And(bk >= -1, bk <= 1))
        base = Struct("BaseTensor", klass=kind, name="T", bk=Sym(bk))
        C.STRUCT_ATTR[("BaseTensor", "name")] = lambda ip, o: o.f["name"]
        C.STRUCT_ATTR[("BaseTensor", "bra_ket_sym")] = lambda ip, o: o.f["bk"]
        C.STRUCT_ISINSTANCE["BaseTensor"] = lambda ip, v, cls: any(
            getattr(c, "key", None) == v.f["klass"]
            or (getattr(c, "key", None) == "adcgen.sympy_objects:AntiSymmetricTensor" and self._has_braket(v.f["klass"]))
            for c in (cls if isinstance(cls, tuple) else (cls,)))

        def add_sym(ip, o, a, k):
            want = a[0] if a else k["bra_ket_sym"]
            have = o.f["bk"].t
            if ip.vc.decide(z3.And(have != want, have != 0)):
                raise RaiseEx("Inputerror", "(contract of add_bra_ket_sym)")
            if ip.vc.decide(have == want):
                return o
            return Struct("BaseTensor", klass=o.f["klass"], name=o.f["name"], bk=want, of=o)
        C.STRUCT_METHODS[("BaseTensor", "add_bra_ket_sym")] = add_sym
        me = Struct("ObjSelf2", base=base, exponent=Struct("Opaque", what="exponent"),
                    sympy=Struct("Opaque", what="sympy of the object"),
                    sym_tensors=("T",) if in_sym else ("other",), antisym_tensors=("T",) if in_anti else (),
                    assm=Struct("Opaque", what="assumptions"))
        C.STRUCT_ATTR[("ObjSelf2", "base_and_exponent")] = lambda ip, o: (o.f["base"], o.f["exponent"])
        for f in ("sympy", "sym_tensors", "antisym_tensors"):
            C.STRUCT_ATTR[("ObjSelf2", f)] = (lambda f: lambda ip, o: o.f[f])(f)
        C.STRUCT_ATTR[("ObjSelf2", "assumptions")] = lambda ip, o: PDict({"marker": o.f["assm"]})
        C.EXTERNALS["sympy.Pow"] = lambda ip, a, k: Struct("PowV", base=a[0], exp=a[1])
        C.CLASS_MODELS["adcgen.expr_container:Expr"] = lambda ip, a, k: Struct("ExprV", of=a[0], kw=dict(k))
        return {"self": me, "return_sympy": vc.choose(2, "return_sympy") == 1,
                "_in_sym": in_sym, "_in_anti": in_anti}

    def _want(self, a):
        """requested symmetry (z3 term or None): sym_tensors wins over antisym_tensors"""
        me = a["self"].f
        if not self._has_braket(me["base"].f["klass"]):
            return None, None
        bk = me["base"].f["bk"].t
        # 1 if listed as symmetric and not yet symmetric; else -1 if listed as antisymmetric and not yet so
        c1 = z3.And(z3.BoolVal(a["_in_sym"]), bk != 1)
        c2 = z3.And(z3.Not(c1), z3.BoolVal(a["_in_anti"]), bk != -1)
        return c1, c2

    def raises(self, vc, a):
        c1, c2 = self._want(a)
        if c1 is None:
            return []
        bk = a["self"].f["base"].f["bk"].t
        return [("Inputerror", z3.Or(z3.And(c1, bk == -1), z3.And(c2, bk == 1)))]

    def post(self, vc, a, result):
        me = a["self"].f
        c1, c2 = self._want(a)
        if a["return_sympy"]:
            obj, wrapped = result, True
        else:
            wrapped = isinstance(result, Struct) and result.cls == "ExprV" and \
                set(result.f["kw"]) == {"marker"} and result.f["kw"]["marker"] is me["assm"]
            obj = result.f["of"] if wrapped else None
        out = [("an-expression-with-the-assumptions-of-the-object-is-returned-unless-sympy-is-requested", wrapped)]
        untouched = obj is me["sympy"]
        if c1 is None:
            return out + [("objects-without-bra-ket-symmetry-are-untouched", untouched)]
        if untouched:
            return out + [("a-listed-tensor-is-untouched-only-if-it-has-the-symmetry-already", z3.Not(z3.Or(c1, c2)))]
        ok = isinstance(obj, Struct) and obj.cls == "PowV" and obj.f["exp"] is me["exponent"] \
            and isinstance(obj.f["base"], Struct) and obj.f["base"].cls == "BaseTensor" \
            and obj.f["base"].f.get("of") is me["base"] and obj.f["base"].f["klass"] == me["base"].f["klass"]
        got = obj.f["base"].f["bk"] if ok else 0
        return out + [("the-same-tensor-with-the-same-exponent", ok),
                      ("gets-the-listed-symmetry",
                       z3.And(z3.Or(c1, c2), z3.IntVal(got) == z3.If(c1, 1, -1)) if ok and isinstance(got, int) else False)]


# --- Expr.set_sym_tensors / set_antisym_tensors / make_real: the stored assumptions are applied -------
# Representation invariant J of an expression: the tensors have been canonicalised with exactly the
# stored sets (ghost: the sets at the last call of _apply_tensor_braket_sym), and a real expression
# lists the Fock matrix and the ERI as symmetric.  Every setter re-establishes J.
EK = "adcgen.expr_container:Expr"
_SYM_CHOICES = [[], ["f"], ["V"], ["f", "V"], ["d"], ["d", "f"], ["d", "V"], ["d", "f", "V"]]


class _ApplyBraketGhost(Contract):
    key = EK + "._apply_tensor_braket_sym"
    props = []
    assumed = True
    note = "applies the stored sets to every term (Obj._apply_tensor_braket_sym, contract above): ghost records the sets"

    def apply(self, vc, a):
        me = a["self"]
        vc.ghost["_applied"] = (frozenset(me.attrs["_sym_tensors"].items), frozenset(me.attrs["_antisym_tensors"].items))
        return me


register(_ApplyBraketGhost)


class _ExprSetter(Contract):
    props = ["C06"]

    def _new_expr(self, vc):
        from pyvc.values import PSet
        real = vc.choose(2, "real") == 1
        sym = list(_SYM_CHOICES[vc.choose(len(_SYM_CHOICES), "sym_tensors")])
        anti = [["x"], []][vc.choose(2, "antisym_tensors")]
        C.EXTERNALS["adcgen.tensor_names:tensor_names"] = Struct("TensorNames", fock="f", eri="V")
        C.EXTERNALS["sympy.Add"] = lambda ip, a_, k_: Struct("Opaque", what="sum of the processed terms")
        C.STRUCT_ATTR[("SympyOfExpr", "is_number")] = lambda ip, o: o.f["number"]
        C.STRUCT_METHODS[("TermOfExpr", "make_real")] = lambda ip, o, a_, k_: Struct("Opaque", what="real term")
        me = Inst(EK, {"_sym_tensors": PSet(sym), "_antisym_tensors": PSet(anti), "_real": real,
                       "_expr": Struct("SympyOfExpr", number=vc.choose(2, "is_number") == 1)})
        C.CLASS_ATTR[(EK, "x")] = None
        vc.ghost["_applied"] = (frozenset(sym), frozenset(anti))
        vc.ghost["_before"] = (frozenset(sym), frozenset(anti), real)
        # precondition J
        if real and not {"f", "V"} <= set(sym):
            from pyvc.vc import PathEnd
            raise PathEnd()
        return me

    def _j(self, vc, me):
        sym, anti = frozenset(me.attrs["_sym_tensors"].items), frozenset(me.attrs["_antisym_tensors"].items)
        return [("the-tensors-are-canonicalised-with-the-stored-sets", vc.ghost["_applied"] == (sym, anti)),
                ("a-real-expression-lists-the-fock-matrix-and-the-eri-as-symmetric",
                 (not me.attrs["_real"]) or {"f", "V"} <= sym)]


# Expr.real / Expr.sympy are one line properties (return self._real / self._expr): interpreted inline;
# Expr.terms is opaque (one abstract term)
C.INLINE.add(EK + ".real")
C.INLINE.add(EK + ".sympy")


class _ExprTerms(Contract):
    key = EK + ".terms"
    props = []
    assumed = True
    note = "the terms of the expression (opaque)"

    def apply(self, vc, a):
        return (Struct("TermOfExpr"),)


register(_ExprTerms)


@register
class ExprMakeReal(_ExprSetter):
    key = EK + ".make_real"

    def setup(self, vc):
        me = self._new_expr(vc)
        return {"self": me}

    def post(self, vc, a, result):
        me = a["self"]
        return self._j(vc, me) + [("the-expression-is-real-afterwards", me.attrs["_real"] is True),
                                  ("the-expression-itself-is-returned", result is me)]


@register
class ExprSetSymTensors(_ExprSetter):
    key = EK + ".set_sym_tensors"

    def setup(self, vc):
        me = self._new_expr(vc)
        req = list(_SYM_CHOICES[vc.choose(len(_SYM_CHOICES), "requested")])
        vc.ghost["_requested"] = req
        return {"self": me, "sym_tensors": PList(req)}

    def post(self, vc, a, result):
        me = a["self"]
        want = set(vc.ghost["_requested"]) | ({"f", "V"} if me.attrs["_real"] else set())
        return self._j(vc, me) + [("the-stored-set-is-the-requested-one-(plus-f-and-V-if-real)",
                                   set(me.attrs["_sym_tensors"].items) == want)]


@register
class ExprSetAntisymTensors(_ExprSetter):
    key = EK + ".set_antisym_tensors"

    def setup(self, vc):
        me = self._new_expr(vc)
        req = [["x"], [], ["y"]][vc.choose(3, "requested")]
        vc.ghost["_requested"] = req
        return {"self": me, "antisym_tensors": PList(req)}

    def post(self, vc, a, result):
        me = a["self"]
        return self._j(vc, me) + [("the-stored-set-is-the-requested-one",
                                   set(me.attrs["_antisym_tensors"].items) == set(vc.ghost["_requested"]))]
