"""Probe run in a fresh interpreter: performs an optional random history of
API calls, then a fixed set of requests, prints their canonical text."""
import json
import random
import sys
import warnings
import logging

warnings.filterwarnings("ignore")
logging.disable(logging.CRITICAL)
cfg = json.loads(sys.argv[1])
sys.path.insert(0, cfg["repo"])
from adcgen.indices import Indices, get_symbols          # noqa: E402
from adcgen.groundstate import GroundState               # noqa: E402
from adcgen.operators import Operators                   # noqa: E402
from adcgen.intermediate_states import IntermediateStates  # noqa: E402
from adcgen.secular_matrix import SecularMatrix          # noqa: E402
from adcgen.expr_container import Expr                   # noqa: E402
from adcgen.simplify import simplify                     # noqa: E402
from adcgen.sympy_objects import AntiSymmetricTensor, NonSymmetricTensor  # noqa: E402
from adcgen.tensor_names import tensor_names             # noqa: E402

rng = random.Random(cfg["history_seed"])
gs = GroundState(Operators("mp"))
for _ in range(cfg["history_len"]):
    c = rng.random()
    if c < 0.3:
        Indices().get_generic_indices(occ=rng.randint(1, 4), virt=rng.randint(1, 3))
    elif c < 0.5:
        get_symbols(rng.choice("ijab") + str(rng.randint(3, 9)))
    elif c < 0.7:
        gs.psi(rng.randint(1, 2), rng.choice(["bra", "ket"]))
    elif c < 0.85:
        gs.energy(rng.randint(0, 2))
    else:
        gs.overlap(2)


def canon(expr, real=True):
    e = Expr(expr, real=real)
    e = simplify(e.substitute_contracted())
    terms = sorted(str(t) for t in e.terms)
    return " + ".join(terms)


def canon_plain(expr, targets, real=True):
    """contracted indices renamed to the lowest available names, no merging
    of terms (orbital energy denominators are not handled by simplify); the
    target indices are declared explicitly (they also occur in denominators)"""
    e = Expr(expr, real=real, target_idx=targets).expand().substitute_contracted()
    return " + ".join(sorted(str(t) for t in e.terms))


out = {}
out["E2"] = canon(gs.energy(2))
out["t2_1"] = canon(gs.mp_amplitude(1, "pphh", "ijab"))
out["S2"] = canon(gs.overlap(2))
m = SecularMatrix(IntermediateStates(gs, "pp"))
out["M1"] = canon(m.isr_matrix_block(1, "ph,ph", "ia,jb"))
# ground state densities: definition (one level / down to integrals) and the
# perturbation theoretical order read from the configured name
_i, _j, _a, _b = get_symbols("ijab")
_dens = tensor_names.gs_density + "2"
_poo = AntiSymmetricTensor(_dens, (_i,), (_j,), 1)
_pvv = AntiSymmetricTensor(_dens, (_a,), (_b,), 1)
out["p2_oo_once"] = canon_plain(Expr(_poo, target_idx="ij").expand_intermediates(fully_expand=False).sympy, "ij")
out["p2_vv_once"] = canon_plain(Expr(_pvv, target_idx="ab").expand_intermediates(fully_expand=False).sympy, "ab")
out["p2_oo_full"] = canon_plain(Expr(_poo, target_idx="ij").expand_intermediates().sympy, "ij")
_pv = Expr(_poo * AntiSymmetricTensor(tensor_names.eri, (_i, _j), (_a, _b))).terms[0]
out["p2_V_order"] = str(_pv.order)
out["p2_longname_default"] = " ".join(o.longname(True) for o in _pv.objects)
out["p2_longname"] = " ".join(o.longname() for o in _pv.objects)
out["p2_V_latex"] = _pv.to_latex_str(spin_as_overbar=False)
# requests whose explicitly named target indices belong to the name
# generations the generic index pool is taken from (k3, c3, ...): an earlier
# history must not make them reappear as summation indices
def targets_once(expr, targets):
    """every target index occurs exactly once among the tensors of every term
    (orbital energy denominators aside): none of them is summed over"""
    tg = get_symbols(targets)
    for t in Expr(expr, real=True, target_idx=targets).expand().terms:
        cnt = {s: 0 for s in tg}
        for o in t.objects:
            if o.type_as_str == "polynom" or o.exponent < 0:
                continue
            for s in o.idx:
                if s in cnt:
                    cnt[s] += 1
        if any(c != 1 for c in cnt.values()):
            return False
    return True


# the name generation the generic indices are currently taken from (found
# through the public interface): names of this and the next generation are
# partly handed out already
cur = Indices().get_generic_indices(occ=1)[("occ", "")][0].name
gen = int(cur[1:]) if cur[1:] else 0
out["targets_not_summed"] = True
def handed_out(names):
    """a name that has been handed out before may sit as contracted index inside a cached result:
    requesting it as target index is the known finding independence.named_target_vs_cached_index
    (its own single scenario check) - the history probe only uses names that are still unused"""
    from adcgen.indices import split_idx_string, index_space
    reg = Indices()
    return any(n in reg._symbols[index_space(n)][""] for n in split_idx_string(names))


for k, nm in enumerate(("k1c1", "k3c3", "m2e2", f"n{gen}g{gen}", f"m{gen + 1}f{gen + 1}", f"k{gen + 2}c{gen + 2}")):
    if handed_out(nm):
        out[f"t2s_{k}"] = None
        continue
    res = gs.amplitude(2, "ph", nm)
    out[f"t2s_{k}"] = canon_plain(res, nm).replace(nm[:len(nm) // 2], "K").replace(nm[len(nm) // 2:], "C")
    out["targets_not_summed"] = out["targets_not_summed"] and targets_once(res, nm)
# (names far away from every generation the generic indices are taken from:
#  a name that already sits as contracted index inside a cached result is
#  the known finding independence.named_target_vs_cached_index)
out["M1_named"] = canon(m.isr_matrix_block(1, "ph,ph", "k97c97,l98d98"))
i, i0, a, b = get_symbols("i"), get_symbols("i0"), get_symbols("a"), get_symbols("b")
x = AntiSymmetricTensor("x", (i[0], i0[0]), (a[0], b[0]))
out["tie"] = str(x)
# two wave functions / norm factors never share contracted indices
p1, p2 = gs.psi(1, "ket"), gs.psi(1, "ket")
from adcgen.indices import Index   # noqa: E402
out["psi_disjoint"] = not (p1.atoms(Index) & p2.atoms(Index))
n1, n2 = gs.norm_factor(2), gs.norm_factor(2)
out["norm_disjoint"] = not (n1.atoms(Index) & n2.atoms(Index))
# ... and the factors inside one norm factor do not share them either: in
# a^(4) = -S^(4) + S^(2) S^(2) every index is summed, i.e. occurs exactly twice
out["norm4_indices_twice"] = True
for t in Expr(gs.norm_factor(4)).expand().terms:
    cnt = {}
    for o in t.objects:
        for s_ in o.idx:
            cnt[s_] = cnt.get(s_, 0) + abs(int(o.exponent))
    if any(c != 2 for c in cnt.values()):
        out["norm4_indices_twice"] = False
out["names"] = {"gs_amplitude": tensor_names.gs_amplitude, "eri": tensor_names.eri,
                "fock": tensor_names.fock, "gs_density": tensor_names.gs_density}
print("PROBE-JSON " + json.dumps(out))
