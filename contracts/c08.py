"""C08 - capture-free index renaming.  Contracts on
adcgen.indices:order_substitutions and adcgen.expr_container:Container.permute."""
import itertools
import z3
from pyvc import contract as C
from pyvc.contract import Contract, register, lemma
import contracts.registry as registry        # noqa: F401  index registry (props C08, C19)
from pyvc.values import (Struct, Sym, PList, PDict, KDict, term, wrap, zand, zor, znot, zeq,
                         Unsupported)
from spec.idx import IdxSort, new_index

ASSUMPTIONS = [
    "sympy subs with a list of pairs applies the pairs one after another from left to right",
    "Index('p') creates an index object that is different from every other index (sympy Dummy)",
    "concrete-shape proof: index maps with 1-3 entries (keys pairwise different objects, values arbitrary: chains, cycles, many-to-one, identity entries) and 1-3 transpositions; index identities symbolic",
    "get_lowest_avail_indices, split_idx_string, substitute_contracted / substitute_with_generic, minimize_tensor_indices and the index registry are only covered by bounded stand-ins (runtime/c08.py)",
]
ASSUMPTIONS = ASSUMPTIONS + registry.ASSUMPTIONS
TRUSTED = []


def model_fresh_index(ip, args, kwargs):
    vc = ip.vc
    s = new_index(vc, "tmp")
    for o in vc.ghost.setdefault("_all_idx", []):
        vc.assume(o != s.t)
    vc.ghost["_all_idx"].append(s.t)
    vc.ghost.setdefault("_temporaries", []).append(s.t)
    return s


def apply_seq(pairs, x):
    """image of x under the ordered substitution list (left to right)"""
    cur = x
    for o, n in pairs:
        cur = z3.If(cur == o, n, cur)
    return cur


def apply_map(pairs, x):
    """image of x under the map given by (distinct key, value) pairs"""
    cur = x
    for k, v in reversed(pairs):
        cur = z3.If(x == k, v, cur)
    return cur


def pairs_of(v):
    items = v.items if isinstance(v, PList) else list(v)
    return [(p[0].t, p[1].t) for p in items]


@register
class OrderSubstitutions(Contract):
    key = "adcgen.indices:order_substitutions"
    props = ["C08"]
    split_first_choice = 3

    def setup(self, vc):
        n = 1 + vc.choose(3, "entries")
        keys = [new_index(vc, f"k{i}") for i in range(n)]
        vals = [new_index(vc, f"v{i}") for i in range(n)]
        for a, b in itertools.combinations(keys, 2):
            vc.assume(a.t != b.t)
        outsider = new_index(vc, "other")
        vc.ghost["_all_idx"] = [s.t for s in keys + vals + [outsider]]
        C.CLASS_MODELS["adcgen.sympy_objects:Index"] = model_fresh_index
        C.CLASS_MODELS["adcgen.indices:Index"] = model_fresh_index
        return {"subsdict": KDict(list(zip(keys, vals))), "_keys": keys, "_vals": vals,
                "_outsider": outsider}

    def apply(self, vc, a):
        """callers' view: an ordered list that acts like the map"""
        return Struct("OrderedSubs", of=a["subsdict"])

    def post(self, vc, a, result):
        if not isinstance(result, PList):
            return [("returns-a-list-of-pairs", False)]
        seq = pairs_of(result)
        m = [(k.t, v.t) for k, v in zip(a["_keys"], a["_vals"])]
        temps = vc.ghost.get("_temporaries", [])
        points = [s.t for s in a["_keys"] + a["_vals"]] + [a["_outsider"].t]
        out = []
        out.append(("sequential-application-equals-the-simultaneous-substitution",
                    zand(*[apply_seq(seq, x) == apply_map(m, x) for x in points])))
        # temporaries are introduced and removed again
        out.append(("temporaries-do-not-survive",
                    zand(*[apply_seq(seq, x) != t for x in points for t in temps])))
        # no prefix of the list identifies two indices the map keeps apart
        clauses = []
        for ln in range(1, len(seq)):
            pre = seq[:ln]
            for x, y in itertools.combinations(points, 2):
                clauses.append(z3.Implies(z3.And(x != y, apply_seq(pre, x) == apply_seq(pre, y)),
                                          apply_map(m, x) == apply_map(m, y)))
        out.append(("no-intermediate-step-merges-indices-the-map-keeps-apart", zand(*clauses)))
        return out


@register
class Permute(Contract):
    key = "adcgen.expr_container:Container.permute"
    props = ["C08"]
    split_first_choice = 3

    def setup(self, vc):
        n = 1 + vc.choose(3, "transpositions")
        perms = []
        for i in range(n):
            p, q = new_index(vc, f"p{i}"), new_index(vc, f"q{i}")
            perms.append((p, q))
        outsider = new_index(vc, "other")
        me = Struct("ContainerV")
        C.STRUCT_METHODS[("ContainerV", "subs")] = lambda ip, o, args, k: Struct("Substituted", sub=args[0])
        return {"self": me, "perms": tuple(perms), "_outsider": outsider}

    def post(self, vc, a, result):
        if not (isinstance(result, Struct) and result.cls == "Substituted" and
                isinstance(result.f["sub"], Struct) and result.f["sub"].cls == "OrderedSubs"):
            return [("substitutes-with-the-ordered-form-of-one-map", False)]
        d = result.f["sub"].f["of"]
        if not isinstance(d, KDict):
            return [("map-is-a-dict", False)]
        m = [(k.t, v.t) for k, v in d.pairs]
        points = [s.t for pq in a["perms"] for s in pq] + [a["_outsider"].t]

        def sequential(x):
            cur = x
            for p, q in a["perms"]:
                cur = z3.If(cur == p.t, q.t, z3.If(cur == q.t, p.t, cur))
            return cur
        return [("map-is-the-composition-of-the-transpositions-in-the-given-order",
                 zand(*[apply_map(m, x) == sequential(x) for x in points]))]


@lemma("C08", "target-and-contracted-uncached")
def target_and_contracted_uncached():
    """Term.target / Term.contracted have to follow Expr.set_target_idx: a renaming done
    after the target set was redefined must use the current one, so neither of them may be
    cached on the term (syntactic frame condition on the decorators)"""
    import ast
    from pyvc.source import SourceTable
    src = SourceTable()
    out = []
    for fn in ("target", "contracted"):
        node = src.get(f"adcgen.expr_container:Term.{fn}")
        decos = [ast.unparse(d) for d in node.decorator_list] if node is not None else ["<missing>"]
        out.append((f"Term.{fn}-is-a-plain-property", z3.BoolVal(decos == ["property"])))
    return out
