"""C09 - Kronecker-delta evaluation.  Contracts on
adcgen.sympy_objects:KroneckerDelta.preferred_and_killable,
.indices_contain_equal_information and adcgen.func:evaluate_deltas."""
import z3
from pyvc.contract import Contract, register
from pyvc.values import Struct, Sym, term, zand, zor, znot, zeq
from spec.idx import (new_index, range_subset, range_equal, range_disjoint,
                      IdxSort)


def delta_struct(i, j):
    return Struct("KroneckerDelta", args=(i, j))


@register
class PreferredAndKillable(Contract):
    key = "adcgen.sympy_objects:KroneckerDelta.preferred_and_killable"
    props = ["C09"]

    def setup(self, vc):
        i, j = new_index(vc, "i"), new_index(vc, "j")
        return {"self": delta_struct(i, j), "_i": i, "_j": j}

    def pre(self, vc, a):
        # KroneckerDelta.eval returns 0 for disjoint ranges and 1 for identical
        # indices: such objects do not exist.
        return [("nonvanishing", znot(range_disjoint(a["_i"], a["_j"])))]

    def fresh_result(self, vc, a):
        i, j = a["self"].f["args"]
        c = vc.choose(3, "pk")
        return [None, (i, j), (j, i)][c]

    def post(self, vc, a, result):
        i, j = a["self"].f["args"]
        if result is None:
            # "left in place" only when neither index carries at least as
            # much information as the other
            return [("none-only-if-incomparable",
                     zand(znot(range_subset(i, j)), znot(range_subset(j, i))))]
        if not isinstance(result, tuple) or len(result) != 2:
            return [("shape", False)]
        p, k = result
        return [
            ("is-the-index-pair",
             zor(zand(term(p) == term(i), term(k) == term(j)),
                 zand(term(p) == term(j), term(k) == term(i)))),
            ("preferred-carries-at-least-as-much-information",
             range_subset(p, k)),
        ]


@register
class EqualInformation(Contract):
    key = "adcgen.sympy_objects:KroneckerDelta.indices_contain_equal_information"
    props = ["C09"]

    def setup(self, vc):
        i, j = new_index(vc, "i"), new_index(vc, "j")
        return {"self": delta_struct(i, j)}

    def fresh_result(self, vc, a):
        return Sym(vc.fresh_bool("eqinfo"))

    def post(self, vc, a, result):
        i, j = a["self"].f["args"]
        return [("iff-ranges-equal", zeq(result, range_equal(i, j)))]
