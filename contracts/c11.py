"""C11 - expanding intermediates.  Contract on
adcgen.intermediates:RegisteredIntermediate.expand_itmd (index plumbing of the
definition substitution)."""
import itertools
import z3
from pyvc import contract as C
from pyvc.contract import Contract, register
from pyvc.values import (Struct, Sym, PList, PDict, KDict, Inst, term, wrap, zand, zor, znot,
                         zeq, mk_enum, Unsupported)
from pyvc.vc import RaiseEx
from spec.idx import IdxSort, new_index, idx_space, idx_spin, SPACES

ASSUMPTIONS = [
    "Indices.get_generic_indices returns, per (space, spin) key, the requested number of index objects that were never handed out before (C08/C19 contract; modelled)",
    "order_substitutions acts like the map it is given (C08, proved there); sympy subs applies it",
    "the cached base expression (_build_expanded_itmd) lists its target and contracted indices correctly (definitions themselves: C12, not applicable)",
    "concrete-shape proof: 0-2 target and 0-3 contracted base indices (occupied / virtual, no spin)",
    "factor_intermediates, reduce_expr, Obj/Term/Expr.expand_intermediates are only covered by the bounded stand-in intermediates.consistency",
]
TRUSTED = []
RI = "adcgen.intermediates:RegisteredIntermediate"


def model_generic(ip, obj, args, kwargs):
    vc = ip.vc
    ret = PDict()
    fresh = vc.ghost.setdefault("_fresh_generic", [])
    for key, n in kwargs.items():
        if not isinstance(n, int):
            raise Unsupported("symbolic number of generic indices")
        if n == 0:
            continue
        parts = key.split("_")
        space, spin = parts[0], (parts[1] if len(parts) > 1 else "")
        lst = []
        for k in range(n):
            s = new_index(vc, f"generic_{space}{k}")
            vc.assume(idx_space(s.t) == SPACES.index(space))
            vc.assume(idx_spin(s.t) == ["", "a", "b"].index(spin))
            for o in vc.ghost["_known_idx"] + fresh:
                vc.assume(o != s.t)
            fresh.append(s.t)
            lst.append(s)
        ret.d[(space, spin)] = PList(lst)
    return ret


def counter_model(ip, args, kwargs):
    items = ip.iterate_concrete(args[0])
    d = PDict()
    for x in items:
        x = ip.hashable(x)
        d.d[x] = d.d.get(x, 0) + 1
    return d


@register
class ExpandItmd(Contract):
    key = RI + ".expand_itmd"
    props = ["C11"]
    SHAPES = [(nt, nc) for nt in (0, 1, 2) for nc in (0, 1, 2, 3)]
    split_first_choice = len(SHAPES)

    def setup(self, vc):
        nt, nc = self.SHAPES[vc.choose(len(self.SHAPES), "shape")]
        base_t = [new_index(vc, f"bt{k}") for k in range(nt)]
        base_c = [new_index(vc, f"bc{k}") for k in range(nc)]
        req = [new_index(vc, f"req{k}") for k in range(nt)]
        for s in base_c + base_t + req:
            vc.assume(idx_spin(s.t) == 0)
            vc.assume(z3.Or(idx_space(s.t) == 0, idx_space(s.t) == 1))
        for a, b in itertools.combinations(base_t + base_c, 2):
            vc.assume(a.t != b.t)
        vc.ghost["_known_idx"] = [s.t for s in base_t + base_c + req]
        base = Struct("base_expr", expr=Struct("BaseExprTok"),
                      target=tuple(base_t) if nt else None,
                      contracted=tuple(base_c) if nc else None)
        me = Inst("itmd", {})
        C.STRUCT_METHODS[("BaseExprTok", "subs")] = lambda ip, o, a, k: Struct("Substituted", sub=a[0])
        C.STRUCT_METHODS[("IndicesV", "get_generic_indices")] = model_generic
        C.CLASS_MODELS["adcgen.indices:Indices"] = lambda ip, a, k: Struct("IndicesV")
        C.EXTERNALS["collections.Counter"] = counter_model
        C.CLASS_MODELS["adcgen.expr_container:Expr"] = lambda ip, a, k: Struct("ExprResult", itmd=a[0], kw=dict(k))
        vc.ghost["_itmd"] = {"base": base, "req": req}

        def validate(ip, obj, args, kwargs):
            return tuple(req)

        def build(ip, obj, args, kwargs):
            return base
        me.attrs["validate_indices"] = Struct("Fn", f=validate)
        me.attrs["_build_expanded_itmd"] = Struct("Fn", f=build)
        C.STRUCT_METHODS[("Fn", "__call__")] = lambda ip, o, a, k: o.f["f"](ip, o, a, k)
        return {"self": me, "indices": "xx", "return_sympy": False, "fully_expand": True}

    def post(self, vc, a, result):
        g = vc.ghost["_itmd"]
        base, req = g["base"], g["req"]
        if not (isinstance(result, Struct) and result.cls == "ExprResult"):
            return [("returns-an-expression", False)]
        sub = result.f["itmd"]
        if not (isinstance(sub, Struct) and sub.cls == "Substituted" and
                isinstance(sub.f["sub"], Struct) and sub.f["sub"].cls == "OrderedSubs"):
            return [("definition-is-substituted-with-one-ordered-index-map", False)]
        d = sub.f["sub"].f["of"]
        pairs = d.pairs if isinstance(d, KDict) else [(k, v) for k, v in d.d.items()]

        def image(x):
            cur = x.t
            for k, v in reversed(pairs):
                cur = z3.If(x.t == k.t, v.t, cur)
            return cur
        out = []
        bt = list(base.f["target"] or ())
        bc = list(base.f["contracted"] or ())
        out.append(("target-indices-of-the-definition-become-the-requested-indices",
                    zand(*[image(t) == r.t for t, r in zip(bt, req)])))
        fresh = vc.ghost.get("_fresh_generic", [])
        imgs = [image(c) for c in bc]
        out.append(("every-contracted-index-becomes-a-fresh-generic-index",
                    zand(*[zor(*[im == f for f in fresh]) for im in imgs])))
        out.append(("contracted-indices-stay-pairwise-different",
                    zand(*[x != y for x, y in itertools.combinations(imgs, 2)])))
        out.append(("space-and-spin-of-contracted-indices-are-kept",
                    zand(*[z3.And(idx_space(im) == idx_space(c.t), idx_spin(im) == idx_spin(c.t))
                           for im, c in zip(imgs, bc)])))
        out.append(("result-carries-the-requested-target-indices",
                    result.f["kw"].get("target_idx") == tuple(req)))
        return out

    def raises(self, vc, a):
        return []


@register
class OrderSubsAssumed(Contract):
    key = "adcgen.indices:order_substitutions"
    props = []
    assumed = True
    note = "C08 (proved there): ordered list acting like the given index map"

    def apply(self, vc, a):
        return Struct("OrderedSubs", of=a["subsdict"])
