"""C02 - ground-state perturbation theory (series-level glue).  Contracts on
adcgen.groundstate:GroundState.energy / psi / mp_amplitude /
amplitude_residual / overlap / norm_factor / expand_norm_factor /
expectation_value and adcgen.func:gen_term_orders."""
import ast
import z3
from pyvc import contract as C
from pyvc.contract import Contract, LoopContract, register, lemma
from pyvc.values import (Struct, Sym, SymSeq, PList, PDict, Inst, term, wrap, zand, zor,
                         znot, zeq, mk_enum, Unsupported)
from pyvc.vc import RaiseEx
from spec.exprval import mk_expr, as_expr, real, ASSUMED_SYMPY
from spec.series import (AtomSort, RulesSort, NO_RULES, VEV, atom_nc, mk_nc, nc_vev,
                         new_stamp, stamps_of, model_wicks, model_simplify)
from spec import gsmodel as G
from spec import isrmodel as _M   # noqa: F401  (registers NormFactor & helpers)
from spec.idx import IdxSort

ASSUMPTIONS = ASSUMED_SYMPY + [
    "RSPT recurrences in intermediate normalisation with block diagonal H0 (textbook; lemmas/rspt.md) are the SPECIFICATION of energies and amplitudes - trusted, the equivalence with determinant-space linear algebra is only bounded (runtime/c02.py)",
    "adcgen.func:wicks satisfies its C01 contract (linear, value = vacuum expectation value; delta evaluation value neutral)",
    "adcgen.simplify:simplify preserves the value (C07); substitute_with_generic renames contracted indices to never used names (C08)",
    "operator valued quantities are abstracted as formal sums of words of atoms (wave functions, Hamiltonian parts, excitation strings) with commutative coefficients: the ORDER of the operator factors in a product is part of the word",
    "Indices.get_indices / get_generic_indices satisfy their C08/C19 contracts (identical object per name; generic indices never used before)",
    "factorial is an uninterpreted function with factorial(n) >= 1; float literals -1.0 / -0.5 are exact",
    "gen_term_orders: body verified for term_length 0..4 with itertools.product(seq, repeat=L) by its language semantics (every L-tuple over seq at exactly one position, positions in lexicographic order: assumed, instantiated at the positions of the obligations); callers with a symbolic term_length (expand_norm_factor) use the same statement as an assumed contract (bounded check gen_term_orders.compositions)",
]
TRUSTED = ["RSPT recurrences (specification)", "Cauchy product of power series (lemmas/series.md)"]

GS = "adcgen.groundstate:GroundState"
BK = ["bra", "ket"]
PSI = z3.Function("PSI", z3.IntSort(), z3.IntSort(), AtomSort)      # order, bra(0)/ket(1)
H0, H1 = z3.Const("H0", AtomSort), z3.Const("H1", AtomSort)
R0, R1 = z3.Const("rules_h0", RulesSort), z3.Const("rules_h1", RulesSort)
ENERGY = z3.Function("E", z3.IntSort(), z3.RealSort())
OVERLAP = z3.Function("S", z3.IntSort(), z3.RealSort())
NORM = z3.Function("NormFactor", z3.IntSort(), z3.RealSort())
OPD = z3.Function("OPERATOR", z3.IntSort(), z3.IntSort(), AtomSort)

C.CLASS_MODELS["adcgen.func:wicks"] = None
del C.CLASS_MODELS["adcgen.func:wicks"]


class _Assumed(Contract):
    assumed = True
    props = []


@register
class Wicks(_Assumed):
    key = "adcgen.func:wicks"
    note = "C01 contract: linear, value = vacuum expectation value (with rules), delta evaluation value neutral"

    def bind(self, vc, args, kwargs, interp):
        return {"args": args, "kwargs": kwargs}

    def apply(self, vc, a):
        return model_wicks(vc.ip, a["args"], a["kwargs"])


@register
class Simplify(_Assumed):
    key = "adcgen.simplify:simplify"
    note = "C07 contract: value, targets and assumptions preserved"

    def bind(self, vc, args, kwargs, interp):
        return {"args": args}

    def apply(self, vc, a):
        return model_simplify(vc.ip, a["args"], {})


def new_gs(vc):
    h = Inst("adcgen.operators:Operators", {
        "h0": (atom_nc(H0), Struct("Rules", t=R0)),
        "h1": (atom_nc(H1), Struct("Rules", t=R1)),
        "_variant": mk_enum(vc.fresh_int("variant"), ["mp", "re"]),
    })
    singles = Sym(vc.fresh_bool("first_order_singles"))
    return Inst(GS, {"h": h, "singles": singles, "indices": Struct("Indices")})


def psi_value(order, bk):
    """callers' view of psi(order, braket): 1 at zeroth order, else the atom"""
    return PSI(term(order), BK.index(bk))


# ---------------------------------------------------------------------------------
@register
class Psi(Contract):
    """contract used at call sites; the body of psi is verified by PsiBody"""
    key = GS + ".psi"
    props = ["C02"]

    def setup(self, vc):
        n = vc.fresh_int("order")
        bk = BK[vc.choose(2, "braket")]
        return {"self": new_gs(vc), "order": Sym(n), "braket": bk}

    def raises(self, vc, a):
        o = a["order"]
        bad = (o < 0) if isinstance(o, int) else o.t < 0
        return [("Inputerror", zor(bad, a["braket"] not in BK))]

    def apply(self, vc, a):
        for exc, when in self.raises(vc, a):
            if vc.decide(when):
                raise RaiseEx(exc)
        o = a["order"]
        if vc.decide(zeq(o, 0)):
            return mk_expr(1, False, singleton="One")
        bk = vc.concretize(a["braket"])
        # every call uses generic indices never handed out before (S6)
        return atom_nc(PSI(term(o), BK.index(bk)), new_stamp(vc, "psi"))

    # ---- verification of the body against the closed formula of the property
    loops = {}

    def post(self, vc, a, result):
        n = term(a["order"])
        bk = a["braket"]
        if isinstance(result, Struct) and result.cls == "Expr":
            return [("zeroth-order-is-one", zand(n == 0, result.f["val"] == 1))]
        if not (isinstance(result, Struct) and result.cls == "NC"):
            return [("result-shape", False)]
        # sum_k s_k/(k!)^2 t_k NO(C_k): compare the accumulated formal sum
        return [("is-the-closed-formula", psi_matches_spec(vc, a, result)),
                ("all-indices-fresh", bool(stamps_of(result)))]


PSI_PREFIX = z3.Function("psi_prefix", z3.IntSort(), z3.IntSort(), z3.BoolSort(),
                         z3.ArraySort(z3.IntSort(), IdxSort),
                         z3.ArraySort(z3.IntSort(), IdxSort), z3.IntSort(), z3.RealSort())
from spec.series import WORDVAL, nc_linear_value, ncv_value, ncv_arith


def psi_term_spec(n, bkcode, singles, virt, occ, k):
    """k-fold excitation of the n-th order wave function:
    s_k / (k!)^2 * t^{(n)}_k[v_1..v_k; o_1..o_k] * NO(a+_{v1}..a+_{vk} a_{ok}..a_{o1}),
    s_2 = -1, else +1; bra: Dagger of the operator string and amplitude name
    suffix cc; no singles at first order unless requested."""
    up = G.slice_id(virt, z3.IntVal(0), k)
    lo = G.slice_id(occ, z3.IntVal(0), k)
    xop = G.XOP(up, lo, z3.BoolVal(True))
    xop = z3.If(bkcode == 0, G.DAGGER(xop), xop)
    amp = G.AMPV(n, bkcode == 0, up, lo)
    sign = z3.If(k == 2, z3.RealVal(-1), z3.RealVal(1))
    skip = z3.And(n == 1, z3.Not(singles), k == 1)
    pref = z3.RealVal(1) / z3.ToReal(G.FACT(k) * G.FACT(k))
    return z3.If(skip, z3.RealVal(0), sign * pref * amp * WORDVAL(G.NORMAL(xop)))


def iter_is_int_range(vc, seq, lo, hi):
    """the loop runs over the integers lo, lo+1, ..., hi-1"""
    k = vc.fresh_int("it")
    item = seq.item(vc.ip, Sym(k))
    n = term(hi) - term(lo)
    return [("runs-over-the-documented-range",
             zand(term(seq.length()) == z3.If(n > 0, n, z3.IntVal(0)),
                  z3.Implies(z3.And(k >= 0, k < term(seq.length())), term(item) == term(lo) + k)))]


class PsiLoop(LoopContract):
    def iter_spec(self, vc, frame, seq):
        n = term(frame["order"])
        return iter_is_int_range(vc, seq, 1, 2 * n + 1)

    def havoc(self, vc, frame, k, seq):
        acc = vc.fresh_real("psi_acc")
        st = vc.ghost.get("_last_generic_stamp", frozenset())
        # the accumulated formal sum, abstracted by its value under WORDVAL
        frame["psi"] = Struct("NCV", val=acc, stamps=st)
        for nm in ("virt", "occ", "t", "operators", "prefactor", "excitation"):
            frame.locals.pop(nm, None)

    def invariant(self, vc, frame, k, seq):
        n = term(frame["order"])
        bk = BK.index(vc.concretize(frame["braket"]))
        singles = term(frame["self"].attrs["singles"])
        virt, occ = frame["virtual"], frame["occupied"]
        va, oa = virt.arrs[0], occ.arrs[0]
        kk = term(k)
        vc.assume(PSI_PREFIX(n, bk, singles, va, oa, 0) == 0)
        vc.assume(z3.Implies(kk >= 0, PSI_PREFIX(n, bk, singles, va, oa, kk + 1) ==
                             PSI_PREFIX(n, bk, singles, va, oa, kk) +
                             psi_term_spec(n, z3.IntVal(bk), singles, va, oa, kk + 1)))
        return [("accumulated-sum-is-prefix-of-closed-formula",
                 ncv_value(frame["psi"]) == PSI_PREFIX(n, bk, singles, va, oa, kk))]


Psi.loops = {0: PsiLoop()}


def psi_matches_spec(vc, a, result):
    raise Unsupported("psi result must be the accumulated sum")


def _psi_post(self, vc, a, result):
    n = term(a["order"])
    if isinstance(result, Struct) and result.cls == "Expr":
        return [("zeroth-order-is-one", zand(n == 0, result.f["val"] == 1))]
    if not (isinstance(result, Struct) and result.cls in ("NCV", "NC")):
        return [("result-shape", False)]
    fr = vc.ghost.get("_psi_frame")
    bk = BK.index(a["braket"])
    singles = term(a["self"].attrs["singles"])
    va, oa = fr["virtual"].arrs[0], fr["occupied"].arrs[0]
    return [
        ("is-the-closed-formula-sum-over-1..2n",
         ncv_value(result) == PSI_PREFIX(n, bk, singles, va, oa, 2 * n)),
        ("generic-index-lists-have-2n-entries",
         zand(zeq(fr["virtual"].len, 2 * n), zeq(fr["occupied"].len, 2 * n))),
        ("indices-are-fresh-generic-indices", bool(stamps_of(result))),
    ]


Psi.post = _psi_post
_psi_loop_inv = PsiLoop.invariant


def _psi_loop_inv_capture(self, vc, frame, k, seq):
    vc.ghost["_psi_frame"] = frame
    return _psi_loop_inv(self, vc, frame, k, seq)


PsiLoop.invariant = _psi_loop_inv_capture


@lemma("C02", "uncached")
def uncached():
    from pyvc.source import SourceTable
    src = SourceTable()
    out = []
    for fn in ("psi", "overlap", "norm_factor"):
        node = src.get(f"{GS}.{fn}")
        decos = [ast.unparse(d) for d in node.decorator_list] if node is not None else ["<missing>"]
        out.append((f"{fn}-has-no-caching-decorator", z3.BoolVal(decos == [])))
    return out


# ---------------------------------------------------------------------------------
def energy_spec(n):
    """E(0) = <0|H0|0>,  E(n) = <0|H1|Psi^(n-1)>  (RSPT, intermediate normalisation)"""
    ket = PSI(n - 1, 1)
    return z3.If(n == 0, VEV(R0, (H0,)),
                 z3.If(n == 1, VEV(R1, (H1,)), VEV(R1, (H1, ket))))


@register
class Energy(Contract):
    key = GS + ".energy"
    props = ["C02"]

    def setup(self, vc):
        return {"self": new_gs(vc), "order": Sym(vc.fresh_int("order"))}

    def raises(self, vc, a):
        o = a["order"]
        return [("Inputerror", (o < 0) if isinstance(o, int) else o.t < 0)]

    def fresh_result(self, vc, a):
        e = mk_expr(ENERGY(term(a["order"])), False)
        e.f["stamps"] = new_stamp(vc, "energy")
        return e

    def post(self, vc, a, result):
        n = term(a["order"])
        vc.assume(ENERGY(n) == energy_spec(n))     # definition of the symbol E
        r = as_expr(result)
        return [("is-the-rspt-energy", r.f["val"] == ENERGY(n))]


# --- mp_amplitude -------------------------------------------------------------------
CLASSES = [("ph", "ia"), ("pphh", "ijab"), ("ppphhh", "ijkabc"), ("pppphhhh", "ijklabcd"),
           ("pph", "ija"), ("ph", "ijab"), ("pphh", "ia")]
AMP_SUM = z3.Function("amp_energy_sum", z3.IntSort(), z3.IntSort(), z3.BoolSort(),
                      G.SeqIdSort, G.SeqIdSort, z3.IntSort(), z3.IntSort(), z3.RealSort())


def n_p_h(space):
    return space.count("p"), space.count("h")


def amp_summand(n, nocc, singles, up, lo, e_order, t_order):
    """E^(e_order) * t_k^(t_order) unless that amplitude does not exist"""
    skip = z3.Or(nocc > 2 * t_order, z3.And(nocc == 1, t_order == 1, z3.Not(singles)))
    return z3.If(skip, z3.RealVal(0), ENERGY(e_order) * G.AMPV(t_order, z3.BoolVal(False), up, lo))


def iter_is_compositions2(vc, seq, order, m):
    """the loop runs over (m, n-m), (m+1, n-m-1), ..., (n-m, m)"""
    k = vc.fresh_int("it")
    item = seq.item(vc.ip, Sym(k))
    n = term(order)
    ln = n - 2 * m + 1
    ok = isinstance(item, tuple) and len(item) == 2
    if not ok:
        return [("runs-over-the-compositions-of-the-order", False)]
    return [("runs-over-the-compositions-of-the-order",
             zand(term(seq.length()) == z3.If(ln > 0, ln, z3.IntVal(0)),
                  z3.Implies(z3.And(k >= 0, k < term(seq.length())),
                             z3.And(term(item[0]) == m + k, term(item[1]) == n - m - k))))]


class AmpEnergyLoop(LoopContract):
    """for (o1, o2) in gen_term_orders(order, 2, m): ret -/+= E(o1) t(o2)"""
    first = 1           # min_order of the composition
    var = "ret"

    def iter_spec(self, vc, frame, seq):
        return iter_is_compositions2(vc, seq, frame["order"], self.first)

    def havoc(self, vc, frame, k, seq):
        old = frame[self.var]
        new = mk_expr(vc.fresh_real("acc"), False)
        new.f["stamps"] = stamps_of(old)
        frame[self.var] = new
        for nm in ("name", "contrib", "o1", "o2", "e_order", "t_order"):
            frame.locals.pop(nm, None)

    def invariant(self, vc, frame, k, seq):
        st = vc.ghost["_amp"]
        n, m = st["n"], self.first
        kk = term(k)
        args = (n, z3.IntVal(st["nocc"]), st["singles"], st["up"], st["lo"], z3.IntVal(m))
        vc.assume(AMP_SUM(*args, 0) == 0)
        vc.assume(z3.Implies(kk >= 0, AMP_SUM(*args, kk + 1) == AMP_SUM(*args, kk) +
                             amp_summand(n, st["nocc"], st["singles"], st["up"], st["lo"],
                                         m + kk, n - m - kk)))
        return [("accumulator-is-base-plus-prefix-of-the-energy-sum",
                 as_expr(frame[self.var]).f["val"] == st["base"] + st["sign"] * AMP_SUM(*args, kk))]


class _AmpBase(Contract):
    props = ["C02"]

    def setup(self, vc):
        space, indices = CLASSES[vc.choose(len(CLASSES), "class")]
        return {"self": new_gs(vc), "order": Sym(vc.fresh_int("order")),
                "space": space, "indices": indices}

    def raises(self, vc, a):
        npart, nh = n_p_h(a["space"])
        n = term(a["order"])
        idx_p = sum(1 for c in G.split_names(a["indices"]) if c[0] in "abcdefgh")
        idx_h = sum(1 for c in G.split_names(a["indices"]) if c[0] in "ijklmno")
        present = znot(nh > 2 * n)
        return [("Inputerror", zor(n < 0, npart != nh,
                                   zand(present, zor(idx_p != npart, idx_h != nh))))]

    def fresh_result(self, vc, a):
        return mk_expr(vc.fresh_real("amp"), False)

    def target_tuples(self, vc, a):
        names = G.split_names(a["indices"])
        occ = tuple(G.registry_index(vc, n) for n in names if n[0] in "ijklmno")
        virt = tuple(G.registry_index(vc, n) for n in names if n[0] in "abcdefgh")
        return occ, virt


class MpLoop(AmpEnergyLoop):
    first = 1

    def invariant(self, vc, frame, k, seq):
        if "_amp" not in vc.ghost:
            con = C.REGISTRY[GS + ".mp_amplitude"]
            con.prepare(vc, frame)
        return super().invariant(vc, frame, k, seq)


@register
class MpAmplitude(_AmpBase):
    key = GS + ".mp_amplitude"
    loops = {2: MpLoop()}

    def prepare(self, vc, frame):
        """ghost: the quantities the loop invariant talks about"""
        occ, virt = tuple(frame["lower"].items), tuple(frame["upper"].items)
        nocc = len(occ)
        vc.ghost["_amp"] = {
            "n": term(frame["order"]), "nocc": nocc,
            "singles": term(frame["self"].attrs["singles"]),
            "up": G.tuple_id(virt), "lo": G.tuple_id(occ),
            "base": as_expr(frame["ret"]).f["val"],
            "sign": 1 if nocc == 2 else -1,
        }

    def post(self, vc, a, result):
        n = term(a["order"])
        nocc = n_p_h(a["space"])[1]
        if isinstance(result, int):
            return [("zero-iff-class-absent-at-this-order", zand(result == 0, nocc > 2 * n))]
        occ, virt = self.target_tuples(vc, a)
        up, lo = G.tuple_id(virt), G.tuple_id(occ)
        singles = term(a["self"].attrs["singles"])
        bra = G.XOP(G.tuple_id(occ), G.tuple_id(virt), z3.BoolVal(True))
        v = z3.If(n - 1 == 0, VEV(R1, (bra, H1)), VEV(R1, (bra, H1, PSI(n - 1, 1))))
        # denominator: eps_occ - eps_virt, negated for doubles
        d = z3.RealVal(0)
        for s in occ:
            d = d + G.EPS(s.t)
        for s in virt:
            d = d - G.EPS(s.t)
        sign = 1 if nocc == 2 else -1
        if nocc == 2:
            d = -d
        args = (n, z3.IntVal(nocc), singles, up, lo, z3.IntVal(1))
        total = AMP_SUM(*args, z3.If(n - 1 > 0, n - 1, z3.IntVal(0)))
        r = as_expr(result)
        return [
            ("class-present", znot(nocc > 2 * n)),
            ("is-the-rspt-amplitude",
             r.f["val"] == (v + sign * total) / d),
        ]


class ResidualLoop(AmpEnergyLoop):
    first = 0
    var = "res"

    def invariant(self, vc, frame, k, seq):
        if "_amp" not in vc.ghost:
            occ, virt = tuple(frame["occupied"].items), tuple(frame["virtual"].items)
            nocc = len(occ)
            vc.ghost["_amp"] = {
                "n": term(frame["order"]), "nocc": nocc,
                "singles": term(frame["self"].attrs["singles"]),
                "up": G.tuple_id(virt), "lo": G.tuple_id(occ),
                "base": as_expr(frame["res"]).f["val"],
                "sign": 1 if nocc == 2 else -1,
            }
        return super().invariant(vc, frame, k, seq)


@register
class AmplitudeResidual(_AmpBase):
    key = GS + ".amplitude_residual"
    loops = {0: ResidualLoop()}

    def post(self, vc, a, result):
        n = term(a["order"])
        nocc = n_p_h(a["space"])[1]
        if isinstance(result, int):
            return [("zero-iff-class-absent-at-this-order", zand(result == 0, nocc > 2 * n))]
        occ, virt = self.target_tuples(vc, a)
        up, lo = G.tuple_id(virt), G.tuple_id(occ)
        singles = term(a["self"].attrs["singles"])
        bra = G.XOP(G.tuple_id(occ), G.tuple_id(virt), z3.BoolVal(True))
        v0 = z3.If(n == 0, VEV(R0, (bra, H0)), VEV(R0, (bra, H0, PSI(n, 1))))
        v1 = z3.If(n - 1 == 0, VEV(R1, (bra, H1)), VEV(R1, (bra, H1, PSI(n - 1, 1))))
        sign = 1 if nocc == 2 else -1
        args = (n, z3.IntVal(nocc), singles, up, lo, z3.IntVal(0))
        total = AMP_SUM(*args, n + 1)
        r = as_expr(result)
        return [("class-present", znot(nocc > 2 * n)),
                ("is-the-rspt-residual", r.f["val"] == v0 + v1 + sign * total)]


# --- overlap / norm factor ----------------------------------------------------------
OVL_SUM = z3.Function("overlap_prefix", z3.IntSort(), z3.IntSort(), z3.RealSort())


def braket_vev(rules, a, op, b):
    """<Psi^(a)| op |Psi^(b)> with Psi^(0) = 1 (op may be None)"""
    mid = () if op is None else (op,)
    bra, ket = PSI(a, 0), PSI(b, 1)
    return z3.If(a == 0,
                 z3.If(b == 0, VEV(rules, mid), VEV(rules, mid + (ket,))),
                 z3.If(b == 0, VEV(rules, (bra,) + mid), VEV(rules, (bra,) + mid + (ket,))))


class OverlapLoop(LoopContract):
    def iter_spec(self, vc, frame, seq):
        return iter_is_compositions2(vc, seq, frame["order"], 0)

    def havoc(self, vc, frame, k, seq):
        e = mk_expr(vc.fresh_real("ovl"), False)
        e.f["stamps"] = frozenset()
        frame["res"] = e
        for nm in ("term", "i1"):
            frame.locals.pop(nm, None)

    def invariant(self, vc, frame, k, seq):
        n = term(frame["order"])
        kk = term(k)
        vc.assume(OVL_SUM(n, 0) == 0)
        vc.assume(z3.Implies(kk >= 0, OVL_SUM(n, kk + 1) == OVL_SUM(n, kk) +
                             braket_vev(NO_RULES, kk, None, n - kk)))
        return [("accumulator-is-prefix-of-the-order-splitting",
                 as_expr(frame["res"]).f["val"] == OVL_SUM(n, kk))]


@register
class Overlap(Contract):
    key = GS + ".overlap"
    props = ["C02"]
    loops = {0: OverlapLoop()}

    def setup(self, vc):
        return {"self": new_gs(vc), "order": Sym(vc.fresh_int("order"))}

    def raises(self, vc, a):
        o = a["order"]
        return [("Inputerror", (o < 0) if isinstance(o, int) else o.t < 0)]

    def fresh_result(self, vc, a):
        e = mk_expr(OVERLAP(term(a["order"])), False)
        z = vc.fresh_bool("ovl_zero")
        vc.assume(z3.Implies(z, e.f["val"] == 0))
        e.f["zero"] = Sym(z)
        e.f["stamps"] = new_stamp(vc, "overlap")     # fresh psi's in every call
        return e

    def post(self, vc, a, result):
        n = term(a["order"])
        # definition of S^(n): sum over all splittings (a, n-a), a = 0..n
        vc.assume(z3.Implies(n == 0, OVERLAP(n) == 1))
        vc.assume(z3.Implies(n > 0, OVERLAP(n) == OVL_SUM(n, n + 1)))
        r = as_expr(result)
        return [("is-the-sum-over-all-order-splittings", r.f["val"] == OVERLAP(n))]


# --- gen_term_orders: assumed contract for callers (term_length 2) ---------------------
@register
class GenTermOrders(Contract):
    key = "adcgen.func:gen_term_orders"
    props = ["C02", "C03", "C04", "C05"]
    note = "for term_length 2: [(m, n-m), (m+1, n-m-1), ..., (n-m, m)] (itertools.product order); otherwise an enumeration of the compositions of n into L parts >= m (bounded check gen_term_orders.compositions)"

    def apply(self, vc, a):
        n, L, m = a["order"], a["term_length"], a["min_order"]
        bad = zor(*[(x < 0) if isinstance(x, int) else x.t < 0 for x in (n, L, m)])
        if vc.decide(bad):
            raise RaiseEx("Inputerror")
        if isinstance(L, int) and L == 2:
            return G.term_orders2(vc, n, m)
        return Struct("Compositions", n=term(n), L=term(L), m=term(m))

    # ---- verification of the body (term_length 0..4, order and min_order symbolic) ---------
    LENGTHS = [0, 1, 2, 3, 4]
    split_first_choice = len(LENGTHS)

    def setup(self, vc):
        L = self.LENGTHS[vc.choose(len(self.LENGTHS), "term_length")]
        C.EXTERNALS["itertools.product"] = model_product
        C.SYMBOLIC_ITERABLES.add("ProductV")
        C.STRUCT_SYMITER["ProductV"] = _product_symiter
        return {"order": Sym(vc.fresh_int("order")), "term_length": L,
                "min_order": Sym(vc.fresh_int("min_order"))}

    def raises(self, vc, a):
        if a.get("_callsite"):
            return []
        return [("Inputerror", zor(a["order"].t < 0, a["min_order"].t < 0))]

    def post(self, vc, a, result):
        from pyvc.builtins import CompVal, make_symiter
        from pyvc.interp import Frame
        n, L, m = a["order"].t, a["term_length"], a["min_order"].t
        if not isinstance(result, CompVal) or not (isinstance(result.iterable, Struct)
                                                   and result.iterable.cls == "ProductV"):
            raise Unsupported("gen_term_orders: the result is not a filtered itertools.product")
        ip, prod = vc.ip, result.iterable
        si = make_symiter(ip, prod)
        gen = result.node.generators[0]

        def at(k):
            fr = Frame(result.frame.fkey, result.frame.module, parent=result.frame)
            ip.assign_target(gen.target, si.item(ip, k), fr)
            kept = zand(*[ip.truth_term(ip.eval(c, fr)) for c in gen.ifs]) if gen.ifs else True
            elt = ip.eval(result.node.elt, fr)
            elt = tuple(elt.items) if isinstance(elt, PList) else elt
            if not (isinstance(elt, tuple) and all(isinstance(x, (Sym, int)) for x in elt)):
                raise Unsupported("gen_term_orders: element of the result is not a tuple of integers")
            return term(kept) if not isinstance(kept, bool) else z3.BoolVal(kept), [term(x) for x in elt]

        length = term(si.length())
        out = []
        # (1) soundness: every returned tuple is a composition of `order` into term_length parts >= min_order
        k = vc.fresh_int("pos")
        kept, parts = at(Sym(k))
        in_rng = z3.And(k >= 0, k < length)
        is_comp = z3.And(len(parts) == L, *[p >= m for p in parts], sum(parts, z3.IntVal(0)) == n)
        out.append(("every-returned-tuple-has-term_length-parts-not-below-min_order-that-sum-to-order",
                    z3.Implies(z3.And(in_rng, kept), is_comp)))
        # (2) completeness: every such composition is returned (witness: its position in the product)
        xs = [vc.fresh_int(f"part{j}") for j in range(L)]
        hyp = z3.And(*[x >= m for x in xs], sum(xs, z3.IntVal(0)) == n)
        digits = [x - m for x in xs]
        pos = _product_position(vc, prod, digits)
        kept2, parts2 = at(Sym(pos))
        out.append(("every-composition-of-order-into-term_length-parts-not-below-min_order-is-returned",
                    z3.Implies(hyp, z3.And(pos >= 0, pos < length, kept2, len(parts2) == L,
                                           *[p == x for p, x in zip(parts2, xs)]))))
        # (3) no tuple twice, tuples in lexicographic order (the order the callers' view for
        #     term_length 2 states): positions k < k2 of the product hold tuples t(k) <lex t(k2)
        k2 = vc.fresh_int("pos2")
        _kept3, parts3 = at(Sym(k2))
        lex = z3.BoolVal(False)
        for p, q in reversed(list(zip(parts, parts3))):
            lex = z3.Or(p < q, z3.And(p == q, lex))
        _product_order_axiom(vc, prod, k, k2)
        out.append(("tuples-are-returned-in-strictly-increasing-lexicographic-order",
                    z3.Implies(z3.And(in_rng, k2 >= 0, k2 < length, k < k2), lex)))
        return out

    def _orders_generator(ip, frame, node):
        """(o for o in <iterable>) stored in a variable: Python evaluates it lazily, when
        `product` consumes it.  Eager evaluation is the same if (checked here on the AST of the
        real function) it is the identity comprehension without filter, no name it reads is
        re-bound anywhere in the function, and the variable it is stored in is read exactly once."""
        g = node.generators
        if len(g) != 1 or g[0].ifs or g[0].is_async or not isinstance(node.elt, ast.Name) or \
                not isinstance(g[0].target, ast.Name) or node.elt.id != g[0].target.id:
            raise Unsupported("generator expression is not the identity over its iterable")
        fn = ip.src.get(GenTermOrders.key)
        reads = {x.id for x in ast.walk(g[0].iter) if isinstance(x, ast.Name)}
        stores = [x.id for x in ast.walk(fn) if isinstance(x, ast.Name) and isinstance(x.ctx, (ast.Store, ast.Del))]
        holder = [st.targets[0].id for st in ast.walk(fn) if isinstance(st, ast.Assign) and st.value is node
                  and len(st.targets) == 1 and isinstance(st.targets[0], ast.Name)]
        if not holder or any(r in stores for r in reads) or stores.count(holder[0]) != 1:
            raise Unsupported("lazily evaluated generator expression reads a name that is re-bound")
        loads = [x for x in ast.walk(fn) if isinstance(x, ast.Name) and x.id == holder[0] and isinstance(x.ctx, ast.Load)]
        if len(loads) != 1:
            raise Unsupported("generator object is consumed more than once")
        return ip.eval(g[0].iter, frame)
    _orders_generator.handles_lazy = True
    comprehensions = {" for o in ": _orders_generator}


# itertools.product(seq, repeat=L) for a symbolic sequence `seq` and a concrete L (language
# semantics, assumed): position k holds (seq[D_0(k)], ..., seq[D_{L-1}(k)]) with digits
# 0 <= D_j(k) < len(seq); every digit vector occurs at exactly one position POS(d_0..d_{L-1});
# positions are ordered lexicographically by their digits.  The axioms are instantiated at the
# positions the obligations talk about (no quantifiers reach the solver).
def model_product(ip, args, kwargs):
    if len(args) == 1 and isinstance(args[0], SymSeq) and set(kwargs) == {"repeat"} and \
            isinstance(kwargs["repeat"], int) and not isinstance(kwargs["repeat"], bool):
        L = kwargs["repeat"]
        vc = ip.vc
        tag = len(vc.ghost.setdefault("_products", []))
        digit = [z3.Function(f"product{tag}_digit{j}", z3.IntSort(), z3.IntSort()) for j in range(L)]
        posf = z3.Function(f"product{tag}_position", *([z3.IntSort()] * L), z3.IntSort()) if L else None
        length = vc.fresh_int(f"product{tag}_length")
        n = term(args[0].len)
        vc.assume(length >= 0)
        if L == 0:
            vc.assume(length == 1)            # product(repeat=0) yields the empty tuple once
        else:
            vc.assume(z3.Implies(n <= 0, length == 0))
        p = Struct("ProductV", seq=args[0], repeat=L, digit=digit, pos=posf, length=length)
        vc.ghost["_products"].append(p)
        return p
    if not kwargs and all(not isinstance(x, (SymSeq, Struct)) for x in args):
        # concrete iterables: the cartesian product in lexicographic order
        import itertools
        lists = [ip.iterate_concrete(x) for x in args]
        return PList([tuple(c) for c in itertools.product(*lists)])
    raise Unsupported("itertools.product: only product(<symbolic sequence>, repeat=<constant>) and "
                      "products of concrete iterables are modelled")


def _product_symiter(ip, p):
    from pyvc.builtins import SymIter, seq_get

    def item(ip_, k):
        kt, f = term(k), p.f
        ds = [d(kt) for d in f["digit"]]
        n = term(f["seq"].len)
        inst = [z3.And(d >= 0, d < n) for d in ds]
        if f["pos"] is not None:
            inst.append(f["pos"](*ds) == kt)
        ip_.vc.assume(z3.Implies(z3.And(kt >= 0, kt < f["length"]), z3.And(*inst)) if inst else z3.BoolVal(True))
        return tuple(seq_get(ip_, f["seq"], Sym(d)) for d in ds)
    return SymIter("product", p, Sym(p.f["length"]), item)


def _product_position(vc, p, digits):
    """position of the tuple with the given digits (instance of the assumed contract of product)"""
    f = p.f
    if f["pos"] is None:
        return z3.IntVal(0)
    n = term(f["seq"].len)
    pos = f["pos"](*digits)
    vc.assume(z3.Implies(z3.And(*[z3.And(d >= 0, d < n) for d in digits]),
                         z3.And(pos >= 0, pos < f["length"], *[dj(pos) == d for dj, d in zip(f["digit"], digits)])))
    return pos


def _product_order_axiom(vc, p, k, k2):
    f = p.f
    lex = z3.BoolVal(False)
    for dj in reversed(f["digit"]):
        lex = z3.Or(dj(k) < dj(k2), z3.And(dj(k) == dj(k2), lex))
    vc.assume(z3.Implies(z3.And(k >= 0, k2 >= 0, k < f["length"], k2 < f["length"]), (k < k2) == lex))


C.EXTERNALS["itertools.product"] = model_product


# --- expectation_value: sum_{k+a+b=n} N^(k) <Psi^(a)| d |Psi^(b)> ---------------------------
class _WfnTableLoop(LoopContract):
    """fills the table of bra / ket wave functions of the orders 0..n (each
    requested once: bra and ket are different objects)"""

    def iter_spec(self, vc, frame, seq):
        return iter_is_int_range(vc, seq, 0, term(frame["order"]) + 1)

    def havoc(self, vc, frame, k, seq):
        frame["wfn"] = Struct("WfnTable", n=term(frame["order"]))
        for nm in ("o", "bk"):
            frame.locals.pop(nm, None)


def _wfn_table_subscript(ip, obj, idx):
    return Struct("WfnRow", n=obj.f["n"], order=term(idx))


def _wfn_row_subscript(ip, obj, bk):
    vc = ip.vc
    o = obj.f["order"]
    if not vc.decide(z3.And(o >= 0, o <= obj.f["n"])):
        raise RaiseEx("KeyError", "order outside the wave function table")
    bk = vc.concretize(bk) if not isinstance(bk, str) else bk
    if vc.decide(o == 0):
        return mk_expr(1, False, singleton="One")
    code = BK.index(bk)
    return atom_nc(PSI(o, code), frozenset([("sym:wfn-table", (code, o), True)]))


C.STRUCT_SUBSCRIPT["WfnTable"] = _wfn_table_subscript
C.STRUCT_STORE["WfnTable"] = lambda ip, obj, idx, v: None
C.STRUCT_SUBSCRIPT["WfnRow"] = _wfn_row_subscript
C.STRUCT_STORE["WfnRow"] = lambda ip, obj, idx, v: None


class _EvOuter(_M.NormOuterLoop):
    inner_len = 2
    tag = "gs_expectation"
    scratch = ("norm_term", "norm", "orders_d", "d", "term", "i1")


class _EvInner(_M.InnerSumLoop):
    acc_var = "d"
    inner_len = 2
    tag = "gs_expectation"
    scratch = ("term", "i1")

    def rest(self, frame):
        return frame["norm_term"][1]

    def term_spec(self, vc, frame, parts):
        a, b = parts
        n = term(frame["n_particles"])
        return braket_vev(NO_RULES, a, OPD(n, n), b)


@register
class _OperatorsOperatorAssumed(Contract):
    key = "adcgen.operators:Operators.operator"
    props = []
    assumed = True
    note = "pref * d * creation/annihilation string over fresh general indices, no rules"

    def apply(self, vc, a):
        at = OPD(term(a["n_create"]), term(a["n_annihilate"]))
        return (atom_nc(at, frozenset([("operator", (str(at),), True)])), None)


@register
class ExpectationValue(Contract):
    key = GS + ".expectation_value"
    props = ["C02"]
    loops = {0: _WfnTableLoop(), 2: _EvOuter(), 3: _EvInner()}

    def setup(self, vc):
        return {"self": new_gs(vc), "order": Sym(vc.fresh_int("order")),
                "n_particles": Sym(vc.fresh_int("n_particles"))}

    def raises(self, vc, a):
        o = a["order"]
        return [("Inputerror", (o < 0) if isinstance(o, int) else o.t < 0)]

    def post(self, vc, a, result):
        n = term(a["order"])
        O = _M.fn("OUTER[gs_expectation]", z3.IntSort(), z3.IntSort(), z3.RealSort())
        return [("is-the-sum-over-norm-factor-and-order-splittings-of-<Psi|d|Psi>",
                 as_expr(result).f["val"] == O(n, n + 1))]


# --- norm_factor: n-th order coefficient of 1 / (1 + sum_m S^(m)) -----------------------------
#   a^(n) = sum_{k=1}^{n//2} (-1)^k sum_{compositions c of n into k parts >= 2} prod_j S^(c_j)
# (S^(1) = 0: the first order wave function is orthogonal to the reference); every factor is
# a separate overlap request (index hygiene).
SIGN = z3.Function("minus_one_to_the", z3.IntSort(), z3.RealSort())
NF_PROD = z3.Function("nf_prefix_product", z3.IntSort(), z3.IntSort(), z3.IntSort(), z3.IntSort(), z3.RealSort())
NF_INNER = z3.Function("nf_prefix_sum_over_compositions", z3.IntSort(), z3.IntSort(), z3.IntSort(), z3.RealSort())
NF_OUTER = z3.Function("nf_prefix_sum_over_powers", z3.IntSort(), z3.IntSort(), z3.RealSort())


def _sign_axioms(vc, k):
    vc.assume(SIGN(0) == 1)
    vc.assume(SIGN(k + 1) == -SIGN(k))
    vc.assume(SIGN(k) * SIGN(k) == 1)
    vc.assume(SIGN(k + 1) * SIGN(k + 1) == 1)


@register
class _ExpandNormFactorCallers(Contract):
    """callers' view (the function is verified under C04: contracts/c04.py)"""
    key = GS + ".expand_norm_factor"
    props = []
    assumed = True
    note = "[( (-1)^k, compositions of n into k parts >= m )] for k = 1..n//m; [(1, [(n,)])] below min_order (verified under C04)"

    def apply(self, vc, a):
        n, m = a["order"], a["min_order"]
        if vc.decide(zor(term(n) < 0, term(m) <= 0)):
            raise RaiseEx("Inputerror")
        if vc.decide(term(n) < term(m)):
            return PList([(1, PList([(n,)]))])
        return Struct("TaylorListV", n=term(n), m=term(m))


def _taylorlist_symiter(ip, obj):
    from pyvc.builtins import SymIter
    n, m = obj.f["n"], obj.f["m"]

    def item(ip_, e):
        k = term(e) + 1
        _sign_axioms(ip_.vc, term(e))
        pref = mk_expr(SIGN(k), False)
        pref.f["stamps"] = frozenset()
        return (pref, Struct("Compositions", n=n, L=k, m=m))
    return SymIter("taylor-list", obj, Sym(n / m), item)


C.STRUCT_SYMITER["TaylorListV"] = _taylorlist_symiter


class _NfPowerLoop(LoopContract):
    """for pref, termlist in taylor_expansion"""

    def havoc(self, vc, frame, k, seq):
        e = mk_expr(vc.fresh_real("norm_factor"), False)
        e.f["stamps"] = frozenset()
        frame["norm_factor"] = e
        for nm in ("pref", "termlist", "term", "i1", "o"):
            frame.locals.pop(nm, None)

    def invariant(self, vc, frame, k, seq):
        n = term(frame["order"])
        kk = term(k)
        _sign_axioms(vc, kk)
        vc.assume(NF_OUTER(n, 0) == 0)
        vc.assume(z3.Implies(kk >= 0, NF_OUTER(n, kk + 1) == NF_OUTER(n, kk) + SIGN(kk + 1) *
                             NF_INNER(n, kk + 1, _M.NCOMP(n, kk + 1, z3.IntVal(2)))))
        return [("accumulator-is-prefix-of-the-sum-over-the-powers-of-the-overlap",
                 as_expr(frame["norm_factor"]).f["val"] == NF_OUTER(n, kk))]


class _NfCompLoop(LoopContract):
    """for term in termlist (compositions of n into L parts)"""

    def havoc(self, vc, frame, k, seq):
        e = mk_expr(vc.fresh_real("norm_factor"), False)
        e.f["stamps"] = frozenset()
        frame["norm_factor"] = e
        for nm in ("term", "i1", "o"):
            frame.locals.pop(nm, None)

    def iter_spec(self, vc, frame, seq):
        o = frame["termlist"]
        ok = isinstance(o, Struct) and o.cls == "Compositions"
        return [("runs-over-the-compositions-of-the-order-into-k-parts-of-at-least-2",
                 zand(o.f["n"] == term(frame["order"]), o.f["m"] == 2) if ok else False)]

    def invariant(self, vc, frame, k, seq):
        n = term(frame["order"])
        L = frame["termlist"].f["L"]
        c = term(k)
        vc.assume(NF_INNER(n, L, 0) == 0)
        vc.assume(z3.Implies(c >= 0, NF_INNER(n, L, c + 1) == NF_INNER(n, L, c) + NF_PROD(n, L, c, L)))
        return [("accumulator-is-outer-prefix-plus-sign-times-prefix-over-the-compositions",
                 as_expr(frame["norm_factor"]).f["val"] == NF_OUTER(n, L - 1) + SIGN(L) * NF_INNER(n, L, c)),
                ("prefactor-is-(-1)^k", as_expr(frame["pref"]).f["val"] == SIGN(L))]


class _NfProdLoop(LoopContract):
    """for o in term: i1 *= self.overlap(o)"""

    def havoc(self, vc, frame, k, seq):
        e = mk_expr(vc.fresh_real("i1"), False)
        z = vc.fresh_bool("i1_zero")
        vc.assume(z3.Implies(z, e.f["val"] == 0))
        e.f["zero"] = Sym(z)
        e.f["stamps"] = frozenset()
        frame["i1"] = e
        frame.locals.pop("o", None)

    def _ids(self, frame):
        t = frame["term"].f
        return t["n"], t["L"], t["k"]

    def invariant(self, vc, frame, k, seq):
        n, L, c = self._ids(frame)
        j = term(k)
        vc.assume(NF_PROD(n, L, c, 0) == 1)
        vc.assume(z3.Implies(j >= 0, NF_PROD(n, L, c, j + 1) == NF_PROD(n, L, c, j) *
                             OVERLAP(_M.COMP(n, L, z3.IntVal(2), c, j))))
        return [("product-is-prefactor-times-prefix-of-the-overlap-product",
                 as_expr(frame["i1"]).f["val"] == SIGN(L) * NF_PROD(n, L, c, j))]

    def at_break(self, vc, frame, k, seq):
        # left because the product vanishes: a product with a vanishing
        # factor vanishes (lemma zero-absorbing), so the whole product does
        n, L, c = self._ids(frame)
        j = term(k)
        vc.assume(z3.Implies(z3.And(NF_PROD(n, L, c, j + 1) == 0, j + 1 <= L), NF_PROD(n, L, c, L) == 0))
        return [("left-early-only-with-a-vanishing-product", as_expr(frame["i1"]).f["val"] == 0)]


@lemma("C02", "zero-absorbing-product")
def _zero_absorbing():
    p, x = z3.Real("prefix_product"), z3.Real("next_factor")
    return [("step", z3.Implies(p == 0, p * x == 0))]


@register
class NormFactorVerified(Contract):
    key = GS + ".norm_factor"
    props = ["C02"]
    loops = {0: _NfPowerLoop(), 1: _NfCompLoop(), 2: _NfProdLoop()}

    def setup(self, vc):
        return {"self": new_gs(vc), "order": Sym(vc.fresh_int("order"))}

    def raises(self, vc, a):
        return [("Inputerror", a["order"].t < 0)]

    def apply(self, vc, a):
        return _M.NormFactor.apply(self, vc, a)

    def post(self, vc, a, result):
        n = term(a["order"])
        vc.assume(OVERLAP(0) == 1)
        val = z3.RealVal(result) if isinstance(result, int) else as_expr(result).f["val"]
        return [("is-the-series-coefficient-of-the-inverse-overlap",
                 val == z3.If(n < 2, OVERLAP(n), NF_OUTER(n, n / 2)))]


# --- Operators.excitation_operator / Operators.operator ------------------------------------------
OPK = "adcgen.operators:Operators"


def _op_model(kind):
    def model(ip, args, kwargs):
        return Struct("OpV", kind=kind, idx=args[0])
    return model


def _mul_ops(ip, args, kwargs):
    if all(isinstance(x, Struct) and x.cls == "OpV" for x in args):
        return Struct("OpStringV", ops=tuple(args))
    raise Unsupported("Mul of these factors")


def _opstring_arith(ip, opn, a, b):
    """1 * string, string * string (concatenation in the given order), scalar * string"""
    if opn != "Mult":
        raise Unsupported("arithmetic on operator strings")
    def parts(v):
        if isinstance(v, Struct) and v.cls == "OpStringV":
            return (), v.f["ops"]
        if isinstance(v, Struct) and v.cls == "WeightedOps":
            return v.f["factors"], v.f["ops"]
        if isinstance(v, int) and v == 1:
            return (), ()
        return (v,), ()
    fa, oa = parts(a)
    fb, ob = parts(b)
    if not fa and not fb:
        return Struct("OpStringV", ops=tuple(oa) + tuple(ob))
    return Struct("WeightedOps", factors=tuple(fa) + tuple(fb), ops=tuple(oa) + tuple(ob))


C.STRUCT_ARITH["OpStringV"] = _opstring_arith
C.STRUCT_ARITH["WeightedOps"] = _opstring_arith
C.STRUCT_ARITH["TensorD"] = _opstring_arith


@register
class _GetSymbolsIdentity(Contract):
    key = "adcgen.indices:get_symbols"
    props = []
    assumed = True
    note = "a list of Index objects is returned unchanged"

    def apply(self, vc, a):
        return a["indices"]


@register
class ExcitationOperatorVerified(Contract):
    key = OPK + ".excitation_operator"
    props = ["C02"]
    SHAPES = [(c, a_, rev) for c in (None, 0, 1, 2, 3) for a_ in (None, 0, 1, 2, 3) for rev in (True, False)]
    split_first_choice = len(SHAPES)

    def setup(self, vc):
        from spec.idx import new_index
        nc, na, rev = self.SHAPES[vc.choose(len(self.SHAPES), "shape")]
        C.EXTERNALS["sympy.physics.secondquant.Fd"] = _op_model("create")
        C.EXTERNALS["sympy.physics.secondquant.F"] = _op_model("annihilate")
        C.EXTERNALS["sympy.Mul"] = _mul_ops
        cre = None if nc is None else tuple(new_index(vc, f"c{k}") for k in range(nc))
        ann = None if na is None else tuple(new_index(vc, f"a{k}") for k in range(na))
        return {"self": Inst(OPK, {}), "creation": cre, "annihilation": ann, "reverse_annihilation": rev}

    def apply(self, vc, a):
        if "_op" in vc.ghost:
            # inside the verification of Operators.operator: the verified body itself
            return vc.ip.run_body(self.key, {k: v for k, v in a.items() if not k.startswith("_")})
        return G.ExcitationOperator.apply(self, vc, a)

    def post(self, vc, a, result):
        want = []
        for s in (a["creation"] or ()):
            want.append(("create", s))
        ann = list(a["annihilation"] or ())
        if a["reverse_annihilation"]:
            ann = ann[::-1]
        for s in ann:
            want.append(("annihilate", s))
        if isinstance(result, int):
            return [("no-operators-gives-one", result == 1 and not want)]
        if not (isinstance(result, Struct) and result.cls == "OpStringV"):
            return [("returns-an-operator-string", False)]
        got = [(o.f["kind"], o.f["idx"]) for o in result.f["ops"]]
        same = len(got) == len(want) and all(g[0] == w[0] and g[1] is w[1] for g, w in zip(got, want))
        return [("creators-in-the-given-order-then-annihilators-(reversed-on-request)", same)]


@register
class OperatorsOperatorVerified(Contract):
    key = OPK + ".operator"
    props = ["C02"]
    SHAPES = [(c, a_) for c in (0, 1, 2) for a_ in (0, 1, 2)]

    def setup(self, vc):
        from spec.idx import new_index
        nc, na = self.SHAPES[vc.choose(len(self.SHAPES), "shape")]
        C.EXTERNALS["sympy.physics.secondquant.Fd"] = _op_model("create")
        C.EXTERNALS["sympy.physics.secondquant.F"] = _op_model("annihilate")
        C.EXTERNALS["sympy.Mul"] = _mul_ops
        fresh = PList([new_index(vc, f"g{k}") for k in range(nc + na)])
        vc.ghost["_op"] = {"fresh": fresh, "nc": nc, "na": na}

        def gen(ip, obj, args, kwargs):
            ok = kwargs == {"general": nc + na} and not args
            ip.vc.check("indices#requests-n_create-plus-n_annihilate-fresh-general-indices", ok)
            return PDict({("general", ""): fresh})
        C.STRUCT_METHODS[("IndicesV", "get_generic_indices")] = gen
        C.CLASS_MODELS["adcgen.sympy_objects:AntiSymmetricTensor"] = \
            lambda ip, args, kwargs: Struct("TensorD", name=args[0], upper=args[1], lower=args[2])
        C.EXTERNALS["sympy.Rational"] = lambda ip, args, kwargs: Struct("RatV", p=args[0], q=args[1])
        C.STRUCT_ARITH["RatV"] = _opstring_arith
        return {"self": Inst(OPK, {"_indices": Struct("IndicesV")}), "n_create": nc, "n_annihilate": na}

    def closure(self, vc, a):
        return {}

    def apply(self, vc, a):
        return _OperatorsOperatorAssumed.apply(self, vc, a)

    def post(self, vc, a, result):
        import math
        st = vc.ghost["_op"]
        nc, na, fresh = st["nc"], st["na"], st["fresh"].items
        if not (isinstance(result, tuple) and len(result) == 2 and result[1] is None):
            return [("returns-(operator, no rules)", False)]
        op = result[0]
        if not (isinstance(op, Struct) and op.cls == "WeightedOps"):
            return [("operator-is-prefactor-times-tensor-times-operator-string", False)]
        facs = list(op.f["factors"])
        tens = [f for f in facs if isinstance(f, Struct) and f.cls == "TensorD"]
        nums = [f for f in facs if not (isinstance(f, Struct) and f.cls == "TensorD")]
        ok_t = len(tens) == 1 and [x for x in (tens[0].f["upper"].items if isinstance(tens[0].f["upper"], PList) else tens[0].f["upper"])] == fresh[:nc] \
            and [x for x in (tens[0].f["lower"].items if isinstance(tens[0].f["lower"], PList) else tens[0].f["lower"])] == fresh[nc:]
        want_ops = [("create", s) for s in fresh[:nc]] + [("annihilate", s) for s in fresh[nc:][::-1]]
        got_ops = [(o.f["kind"], o.f["idx"]) for o in op.f["ops"]]
        ok_o = len(got_ops) == len(want_ops) and all(g[0] == w[0] and g[1] is w[1] for g, w in zip(got_ops, want_ops))
        pref = z3.RealVal(1)
        for x in nums:
            if isinstance(x, Struct) and x.cls == "RatV":
                pref = pref * real(x.f["p"]) / real(x.f["q"])
            else:
                pref = pref * as_expr(x).f["val"]
        return [("tensor-d-carries-the-creator-indices-above-and-the-annihilator-indices-below", bool(ok_t)),
                ("operator-string-is-creators-then-reversed-annihilators", bool(ok_o)),
                ("prefactor-is-1/(n_create! n_annihilate!)",
                 pref == z3.RealVal(1) / (math.factorial(nc) * math.factorial(na)))]
