"""Executable contracts for C14 on the real code (bounded stand-ins): the
block-wise derivative against exact dual-number differentiation, and
remove_tensor against re-contraction with the removed tensor."""
import itertools
import random
from fractions import Fraction

from sympy import Mul, S, Rational

from adcgen.indices import get_symbols, get_lowest_avail_indices
from adcgen.sympy_objects import NonSymmetricTensor, AntiSymmetricTensor, Amplitude
from adcgen.expr_container import Expr
from adcgen.derivative import derivative
from adcgen.simplify import remove_tensor
import runtime.tensor_model as TM
from runtime.tensor_model import Model, orbital_space, evaluate

BUDGET_S = {"quick": 120, "thorough": 1800}
OCC, VIRT = ["i", "j", "k", "l"], ["a", "b", "c", "d"]
ORBS = orbital_space(1, 1)


class Dual:
    """a + b*eps with eps^2 = 0 (exact first order differentiation)"""
    __slots__ = ("a", "b")

    def __init__(self, a, b=0):
        self.a, self.b = Fraction(a), Fraction(b)

    @staticmethod
    def of(x):
        return x if isinstance(x, Dual) else Dual(x)

    def __add__(self, o):
        o = Dual.of(o)
        return Dual(self.a + o.a, self.b + o.b)
    __radd__ = __add__

    def __sub__(self, o):
        o = Dual.of(o)
        return Dual(self.a - o.a, self.b - o.b)

    def __rsub__(self, o):
        return Dual.of(o) - self

    def __mul__(self, o):
        o = Dual.of(o)
        return Dual(self.a * o.a, self.a * o.b + self.b * o.a)
    __rmul__ = __mul__

    def __truediv__(self, o):
        o = Dual.of(o)
        return Dual(self.a / o.a, (self.b * o.a - self.a * o.b) / (o.a * o.a))

    def __pow__(self, n):
        n = int(n)
        if n < 0:
            return Dual(1) / (self ** (-n))
        r = Dual(1)
        for _ in range(n):
            r = r * self
        return r

    def __eq__(self, o):
        o = Dual.of(o)
        return self.a == o.a and self.b == o.b

    def __ne__(self, o):
        return not self == o


class VarModel(Model):
    """tensor `name` takes the value T + eps * dT (dT with the same symmetry)"""

    def __init__(self, name, braket):
        super().__init__(ORBS, seed=41, braket=braket)
        self.varname = name

    def antisym(self, name, upper, lower, symmetric=False):
        if name == self.varname:
            t = super().antisym(name, upper, lower, symmetric)
            dt = super().antisym("dT", upper, lower, symmetric)
            return Dual(t, dt)
        return super().antisym(name, upper, lower, symmetric)

    def nonsym(self, name, idx):
        if name == self.varname:
            return Dual(super().nonsym(name, idx), super().nonsym("dT", idx))
        return super().nonsym(name, idx)


def build(case):
    spins = case.get("spins") or {}
    idx = {n: get_symbols(n, spins.get(n) or None)[0] for n in OCC + VIRT}
    fs = []
    for kind, names, exp in case["objs"]:
        t = tuple(idx[n] for n in names)
        h = len(t) // 2
        if kind == "T":          # the tensor that is removed / differentiated
            if case["tkind"] == "anti":
                o = AntiSymmetricTensor("T", t[:h], t[h:], case.get("bk", 0))
            else:
                o = NonSymmetricTensor("T", t)
        elif kind == "V":
            o = AntiSymmetricTensor("V", t[:h], t[h:], 1)
        else:
            o = NonSymmetricTensor("Z", t)
        fs.append(o ** exp)
    return idx, Rational(*case["pref"]) * Mul(*fs)


def gen_cases(tier, seed):
    rng = random.Random(seed)
    yield {"objs": [["T", ["i", "j"], 2]], "tkind": "anti", "pref": [1, 1]}
    yield {"objs": [["T", ["i", "j", "a", "b"], 1], ["V", ["a", "b", "i", "j"], 1]], "tkind": "anti", "pref": [1, 4]}
    # target indices on the removed tensor (deltas, index minimisation with a sign)
    yield {"objs": [["T", ["k", "i", "a", "b"], 1], ["Z", ["k", "a", "b"], 1]], "tkind": "anti", "pref": [1, 1],
           "targets": ["i"]}
    yield {"objs": [["T", ["i", "k", "a", "b"], 1], ["Z", ["k", "a"], 1]], "tkind": "anti", "pref": [1, 2],
           "targets": ["i", "b"]}
    yield {"objs": [["T", ["k", "j", "a"], 1], ["Z", ["k", "a"], 1]], "tkind": "non", "pref": [1, 1],
           "targets": ["j"]}
    # the minimised tensor picks up a sign: T^{jk} -> T^{ji} = -T^{ij}
    yield {"objs": [["T", ["j", "k", "a", "b"], 1], ["Z", ["k", "a", "b"], 1]], "tkind": "anti", "pref": [1, 1],
           "targets": ["j"]}
    yield {"objs": [["T", ["i", "j", "b", "c"], 1], ["Z", ["i", "c"], 1]], "tkind": "anti", "pref": [1, 1],
           "targets": ["j", "b"]}
    # indices of one space with different spins on the removed tensor
    mixed = {"i": "a", "j": "b", "k": "a", "l": "b", "a": "a", "b": "b", "c": "a", "d": "b"}
    yield {"objs": [["T", ["i", "j", "a", "b"], 1], ["Z", ["i", "a"], 1], ["Z", ["j", "b"], 1]], "tkind": "anti",
           "pref": [1, 1], "spins": mixed}
    yield {"objs": [["T", ["j", "k", "b"], 1], ["Z", ["j", "k", "b"], 1]], "tkind": "non", "pref": [1, 2],
           "spins": mixed}
    yield {"objs": [["T", ["j", "i", "b", "a"], 1], ["V", ["a", "b", "i", "j"], 1]], "tkind": "anti",
           "pref": [1, 4], "spins": mixed}
    # four indices of one space (diagonal blocks, with and without bra-ket
    # symmetry; a tensor with all indices in one group)
    # bra-ket antisymmetric tensors: the same normalisation (partner block folded in, diagonal
    # block restricted within bra and within ket only)
    yield {"objs": [["T", ["i", "a"], 1], ["Z", ["i", "a"], 1]], "tkind": "anti", "pref": [1, 1], "bk": -1}
    yield {"objs": [["T", ["i", "j"], 1], ["Z", ["i", "j"], 1]], "tkind": "anti", "pref": [1, 1], "bk": -1}
    yield {"objs": [["T", ["i", "j", "a", "b"], 1], ["Z", ["i", "j", "a", "b"], 1]], "tkind": "anti",
           "pref": [1, 2], "bk": -1}
    for bk in (0, 1, -1):
        yield {"objs": [["T", ["i", "j", "k", "l"], 1], ["Z", ["i", "j", "k", "l"], 1]], "tkind": "anti",
               "pref": [1, 1], "bk": bk, "big": True}
    yield {"objs": [["T", ["i", "j", "k", "l"], 1], ["Z", ["i", "j"], 1], ["Z", ["k", "l"], 1]], "tkind": "anti",
           "pref": [1, 2], "bk": 1, "big": True}
    # non symmetric tensors with four indices of one space in scrambled orders: the index
    # minimisation needs products of three transpositions in which a later one joins two
    # indices that were both moved before
    import itertools
    orders = list(itertools.permutations(["i", "j", "k", "l"]))
    pick = orders if tier != "quick" else [("k", "l", "j", "i"), ("l", "k", "i", "j"), ("j", "k", "l", "i"),
                                           ("l", "i", "j", "k"), ("k", "i", "l", "j"), ("j", "l", "i", "k")]
    for order in pick:
        yield {"objs": [["T", list(order), 1], ["Z", ["i", "j"], 1], ["Z", ["k", "l"], 1]], "tkind": "non",
               "pref": [1, 1], "big": True}
    yield {"objs": [["T", ["l", "k", "i", "j", "a"], 1], ["Z", ["i", "j", "a"], 1], ["Z", ["k", "l"], 1]],
           "tkind": "non", "pref": [1, 1], "big": True}
    for _ in range(60 if tier == "quick" else 250):
        names = rng.sample(OCC, 3) + rng.sample(VIRT, 3)
        tkind = rng.choice(["anti", "anti", "non"])
        rank = rng.choice([2, 4]) if tkind == "anti" else rng.choice([1, 2, 3])
        objs = []
        pool = list(names)
        nt = rng.choice([1, 1, 2])
        used = []
        for _t in range(nt):
            if tkind == "anti" and rank == 4:
                tn = rng.sample(names[:3], 2) + rng.sample(names[3:], 2)
            else:
                tn = rng.sample(pool, rank)
            objs.append(["T", tn, rng.choice([1, 1, 2])])
            used += tn
        # remainder closes all indices (every index occurs exactly twice overall)
        from collections import Counter
        cnt = Counter()
        for _k, nm, e in objs:
            for n in nm:
                cnt[n] += e
        odd = [n for n, c in cnt.items() if c % 2 == 1]
        rng.shuffle(odd)
        while odd:
            take = min(len(odd), rng.choice([1, 2, 3]))
            objs.append(["Z", [odd.pop() for _ in range(take)], 1])
        yield {"objs": objs, "tkind": tkind, "pref": [rng.choice([1, -1, 3]), rng.choice([1, 2, 4])],
               "bk": rng.choice([0, 0, 1, -1]),
               "spins": rng.choice([None, None, {n: rng.choice("ab") for n in OCC + VIRT}])}


def minimal_indices(space, spin, targets=()):
    """lowest index names per space AND spin (i_alpha and i_beta are different indices)"""
    out = []
    spin = spin or ""
    spins = ["" if c == "n" else c for c in spin] if spin else [""] * len(space)   # 'n': no spin
    used = {}
    for s in targets:
        used.setdefault((s.space[0], s.spin), []).append(s.name)
    for sp, sg in zip(space, spins):
        full = "occ" if sp == "o" else "virt"
        names = used.setdefault((sp, sg), [])
        n = get_lowest_avail_indices(1, names, full)[0]
        names.append(n)
        out.append(n)
    if not any(spins):
        return get_symbols(out)
    return [get_symbols(n, sg or None)[0] for n, sg in zip(out, spins)]


def deriv_check(case):
    idx, sym = build(case)
    if sym is S.Zero:
        return True, "vanishes"
    e = Expr(sym, real=True, target_idx=[])
    if len(e.terms) != 1 or e.terms[0].target:
        return True, "not a closed single term"
    if any(abs(int(o.exponent)) > 3 for o in e.terms[0].objects):
        # equal factors merge into powers; the symmetry analysis of the
        # library grows factorially with the number of equal indices
        return True, "power > 3: outside the bound (cost)"
    braket = {"V": 1}
    if case["tkind"] == "anti" and case.get("bk"):
        braket["T"] = braket["dT"] = case["bk"]
    model = VarModel("T", braket)
    val = evaluate(e.sympy, {}, model)
    first_order = Dual.of(val).b
    try:
        deriv = derivative(e, "T")
    except Exception as ex:
        if type(ex).__name__ in ("NotImplementedError", "RuntimeError"):
            return True, f"refused: {ex}"
        raise
    total = Fraction(0)
    plain = Model(ORBS, seed=41, braket=braket)
    for (space, spin), part in deriv.items():
        tidx = minimal_indices(space, spin)
        h = len(tidx) // 2
        if case["tkind"] == "anti":
            nu = len(case["objs"][0][1]) // 2
            var = AntiSymmetricTensor("dT", tuple(tidx[:nu]), tuple(tidx[nu:]), case.get("bk", 0))
        else:
            var = NonSymmetricTensor("dT", tuple(tidx))
        contr = (part.sympy * var).expand()
        total += evaluate(contr, {}, plain)
    if total != first_order:
        return False, (f"derivative of {e} w.r.t. T: blocks "
                       f"{ {k: str(v) for k, v in deriv.items()} } contracted with a variation give "
                       f"{total}, exact first order change {first_order}")
    return True, ""


def remove_check(case):
    idx, sym = build(case)
    if sym is S.Zero:
        return True, "vanishes"
    tg = [idx[n] for n in case.get("targets", [])]
    e = Expr(sym, real=True, target_idx=tg)
    if len(e.terms) != 1:
        return True, "not a single term"
    # only single occurrences with exponent 1 and tensors without bra-ket symmetry
    occ = [o for o in case["objs"] if o[0] == "T"]
    if len(occ) != 1 or occ[0][2] != 1:
        return True, "several occurrences: covered by the derivative check only"
    braket = {"V": 1}
    if case["tkind"] == "anti" and case.get("bk"):
        braket["T"] = case["bk"]
    model = Model(ORBS if not case.get("big") else orbital_space(2, 1), seed=41, braket=braket)
    res = remove_tensor(e, "T")
    for asg in TM.all_assignments(tg, ORBS):
        ok, d = _recontract(case, e, res, tg, asg, model, occ)
        if not ok:
            return False, d
    return True, ""


def block_group(t):
    """all re-orderings of the indices of the tensor block (positions permuted
    within the tensor) that give +-1 times the same tensor: found by brute
    force with the constructors (C06), not with Term.symmetry.  Returns
    [(permutation of positions, sign)] including the identity."""
    if isinstance(t, NonSymmetricTensor):
        return [(tuple(range(len(t.indices))), 1)]
    up, lo = tuple(t.upper), tuple(t.lower)
    idx = up + lo
    out = []
    for perm in itertools.permutations(range(len(idx))):
        new = tuple(idx[k] for k in perm)
        if any(a.space != b.space or a.spin != b.spin for a, b in zip(new, idx)):
            continue
        other = type(t)(t.name, new[:len(up)], new[len(up):], t.bra_ket_sym)
        if other == t:
            out.append((perm, 1))
        elif other == -t:
            out.append((perm, -1))
    return out


def _recontract(case, e, res, tg, asg, model, occ):
    ref = evaluate(e.sympy, asg, model)
    total = Fraction(0)
    for blocks, part in res.items():
        if blocks == ("none",):
            total += evaluate(part.sympy, asg, model)
            continue
        (block,) = blocks
        block, _, bspin = block.partition("_")
        tidx = minimal_indices(block, bspin, tg)
        if case["tkind"] == "anti":
            nu = len(occ[0][1]) // 2
            t = AntiSymmetricTensor("T", tuple(tidx[:nu]), tuple(tidx[nu:]), case.get("bk", 0))
            group = block_group(t)
        else:
            t = NonSymmetricTensor("T", tuple(tidx))
            group = block_group(t)
        pe = part if isinstance(part, Expr) else Expr(part)
        # sum over canonical index tuples = unrestricted sum / |G|; bra-ket
        # partners of a non diagonal block are folded into one block
        # (documented normalisation for bra-ket symmetric tensors: a diagonal
        # block is restricted within bra and within ket only, the partner of
        # a non diagonal block is folded in: both give a factor 2)
        fold = 2 if case["tkind"] == "anti" and case.get("bk") else 1
        total += fold * evaluate((pe.sympy * t).expand(), asg, model) / len(group)
        # the block expression carries the symmetry of the removed block
        free = list(tidx)
        rng_ = random.Random(7)
        for perm, sign in group[:8]:
            for basg in TM.all_assignments(free, ORBS, limit=6, rng=rng_):
                full = dict(asg)
                full.update(basg)
                pasg = dict(asg)
                pasg.update({free[k]: basg[free[perm[k]]] for k in range(len(free))})
                v0 = evaluate(pe.sympy, full, model)
                v1 = evaluate(pe.sympy, pasg, model)
                if v1 != sign * v0:
                    return False, (f"remove_tensor({e}, 'T'): block {block} = {pe} does not carry the symmetry "
                                   f"{perm} -> {sign} of the removed tensor block ({v1} vs {sign}*{v0})")
    if total != ref:
        return False, (f"remove_tensor({e}, 'T') = { {k: str(v) for k, v in res.items()} }: "
                       f"re-contraction over canonical index tuples gives {total}, expression {ref}")
    return True, ""


CHECKS = {
    "derivative.first_order_change": {
        "function": "adcgen.derivative:derivative", "cases": gen_cases, "check": deriv_check,
        "bound": "closed single terms with 1-2 occurrences (exponents 1-2, merged powers <= 3) of an antisymmetric (rank 2/4) or non symmetric (rank 1-3) tensor T and closing remainder tensors; exact dual number differentiation, 2 occ + 2 virt spin orbitals"},
    "remove_tensor.recontraction": {
        "function": "adcgen.simplify:remove_tensor.remove", "cases": gen_cases, "check": remove_check,
        "bound": "the same terms with a single occurrence of T (no bra-ket symmetry): blocks re-contracted over canonical index tuples reproduce the expression"},
}
