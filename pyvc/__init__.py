"""pyvc - verification-condition generator for the real adcgen source.

The functions of /repo are read with `ast` on every run, executed symbolically
path by path against sidecar contracts (in /verif/contracts) and every
obligation is discharged by z3 (cvc5 as second back end for SMT-LIB dumps).
"""
