"""Executable contracts for C18 on the real code (bounded stand-in): print ->
import -> print round trip."""
import random

from sympy import S, Mul, Add, Rational, sqrt, latex
from sympy.physics.secondquant import F, Fd, NO

from adcgen.indices import get_symbols
from adcgen.sympy_objects import (NonSymmetricTensor, AntiSymmetricTensor, SymmetricTensor,
                                  Amplitude, KroneckerDelta)
from adcgen.expr_container import Expr
from adcgen.func import import_from_sympy_latex
from adcgen.tensor_names import tensor_names

BUDGET_S = {"quick": 60, "thorough": 900}
POOL = [("i", ""), ("j", ""), ("k", ""), ("a", ""), ("b", ""), ("c", ""), ("p", ""), ("q", ""),
        ("i3", ""), ("a12", ""), ("i", "a"), ("j", "b"), ("a", "a"), ("b", "b"), ("i3", "b")]


def mk(k):
    n, s = POOL[k]
    return get_symbols(n, s if s else None)[0]


def build_obj(spec):
    kind, idxs, exp = spec
    t = tuple(mk(k) for k in idxs)
    h = len(t) // 2
    if kind == "V":
        o = AntiSymmetricTensor(tensor_names.eri, t[:h], t[h:])
    elif kind == "f":
        o = AntiSymmetricTensor(tensor_names.fock, t[:1], t[1:])
    elif kind == "v":
        o = SymmetricTensor(tensor_names.coulomb, t[:h], t[h:])
    elif kind == "t":
        o = Amplitude(f"{tensor_names.gs_amplitude}2", t[:h], t[h:])
    elif kind == "tcc":
        o = Amplitude(f"{tensor_names.gs_amplitude}1cc", t[:h], t[h:])
    elif kind == "t0":      # ground state amplitudes without a perturbation order in the name
        o = Amplitude(tensor_names.gs_amplitude, t[:h], t[h:])
    elif kind == "t0cc":
        o = Amplitude(f"{tensor_names.gs_amplitude}cc", t[:h], t[h:])
    elif kind == "Y":
        o = Amplitude(tensor_names.right_adc_amplitude, t[:h], t[h:])
    elif kind == "Yh":     # IP / EA amplitude vectors: an empty index group
        o = Amplitude(tensor_names.right_adc_amplitude, (), t)
    elif kind == "Xp":
        o = Amplitude(tensor_names.left_adc_amplitude, t, ())
    elif kind == "e":
        o = NonSymmetricTensor(tensor_names.orb_energy, t[:1])
    elif kind == "X":
        o = NonSymmetricTensor("X", t)
    elif kind == "d":
        o = KroneckerDelta(t[0], t[1])
    elif kind == "p":
        o = AntiSymmetricTensor(f"{tensor_names.gs_density}2", t[:1], t[1:])
    else:
        raise ValueError(kind)
    return o ** exp


def gen_cases(tier, seed):
    rng = random.Random(seed)
    # symbolic orbital energy denominator
    yield {"kind": "symbolic_denominator"}
    yield {"kind": "operators"}
    for _ in range(150 if tier == "quick" else 2500):
        terms = []
        for _t in range(rng.randint(1, 3)):
            objs = []
            for _o in range(rng.randint(1, 3)):
                k = rng.choice(["V", "f", "v", "t", "tcc", "Y", "e", "X", "d", "p", "Yh", "Xp", "t0", "t0cc"])
                n = {"V": 4, "v": 4, "t": 4, "tcc": 2, "t0": 4, "t0cc": 2, "Y": 2, "f": 2, "e": 1, "d": 2, "p": 2}.get(k, rng.randint(1, 3))
                idxs = [rng.randrange(len(POOL)) for _ in range(n)]
                objs.append([k, idxs, rng.choice([1, 1, 1, 2])])
            pref = rng.choice([[1, 1], [-1, 2], [3, 4], [2, 1]])
            terms.append({"objs": objs, "pref": pref, "sqrt": rng.choice([0, 0, 2, 3]),
                          "denom": [rng.randrange(len(POOL)) for _ in range(rng.choice([0, 0, 2, 4]))]})
        yield {"kind": "expr", "terms": terms, "real": rng.random() < 0.5}


def build(case):
    total = S.Zero
    for t in case["terms"]:
        term = Rational(*t["pref"])
        if t["sqrt"]:
            term *= sqrt(t["sqrt"])
        for o in t["objs"]:
            term *= build_obj(o)
        if t["denom"]:
            den = S.Zero
            for n, k in enumerate(t["denom"]):
                s = mk(k)
                den += (1 if s.space == "occ" else -1) * NonSymmetricTensor(tensor_names.orb_energy, (s,))
            if den != 0:
                term /= den
        total += term
    return total


def kinds(expr):
    out = set()
    for t in expr.atoms(AntiSymmetricTensor) | expr.atoms(NonSymmetricTensor):
        out.add((t.name, type(t).__name__))
    return out


def check(case):
    if case["kind"] == "symbolic_denominator":
        i, j, a, b = (mk(k) for k in (0, 1, 3, 4))
        e = NonSymmetricTensor(tensor_names.orb_energy, (i,))
        sym = AntiSymmetricTensor(tensor_names.eri, (i, j), (a, b)) / \
            (NonSymmetricTensor(tensor_names.orb_energy, (i,)) + NonSymmetricTensor(tensor_names.orb_energy, (j,))
             - NonSymmetricTensor(tensor_names.orb_energy, (a,)) - NonSymmetricTensor(tensor_names.orb_energy, (b,)))
        orig = Expr(sym, real=True).use_symbolic_denominators()
    elif case["kind"] == "operators":
        i, a, p, q = (mk(k) for k in (0, 3, 6, 7))
        sym = AntiSymmetricTensor(tensor_names.fock, (p,), (q,)) * Fd(p) * F(q) * NO(Fd(a) * F(i)) * Rational(1, 2)
        orig = Expr(sym)
    else:
        sym = build(case)
        if sym is S.Zero or sym.is_number:
            return True, "trivial"
        orig = Expr(sym, real=case["real"])
    orig = orig.expand()
    text = str(orig)
    try:
        imp = import_from_sympy_latex(text)
    except Exception as ex:
        return False, f"import of {text!r} failed: {type(ex).__name__}: {ex}"
    new = Expr(imp.sympy, **orig.assumptions)
    if (new.sympy - orig.sympy).expand() != 0 and new.sympy != orig.sympy:
        return False, f"import(print(e)) differs: printed {text!r}, imported {new}"
    if kinds(new.sympy) != kinds(orig.sympy):
        return False, (f"tensor kinds changed by the round trip of {text!r}: "
                       f"{sorted(kinds(orig.sympy) ^ kinds(new.sympy))}")
    if str(new) != text:
        return False, f"printing the imported expression gives {str(new)!r} instead of {text!r}"
    return True, ""


CHECKS = {
    "latex.roundtrip": {
        "function": "adcgen.func:import_from_sympy_latex", "cases": gen_cases, "check": check,
        "bound": "sums of <= 3 terms of <= 3 objects (ERI, Coulomb, Fock, t / t-cc (with and without an order in the name) / ADC amplitudes incl. vectors with an empty upper or lower index group, densities, orbital energies, deltas, unknown tensors) with exponents <= 2, rational and sqrt prefactors, orbital energy denominators, spin labelled and numbered indices; plus a symbolic denominator and an operator / normal ordered product",
    },
}
