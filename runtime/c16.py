"""Executable contracts for C16 on the real code: every returned contraction
scheme is executed step by step with the independent tensor model."""
import itertools
import random
from collections import Counter
from fractions import Fraction

from sympy import Mul, S, Rational

from adcgen.indices import get_symbols, Index, split_idx_string
from adcgen.sympy_objects import (NonSymmetricTensor, AntiSymmetricTensor, KroneckerDelta)
from adcgen.expr_container import Expr
from adcgen.generate_code.optimize_contractions import (optimize_contractions,
                                                        unoptimized_contraction)
from adcgen.generate_code.contraction import Contraction
from runtime.tensor_model import Model, orbital_space, evaluate, index_range, all_assignments

BUDGET_S = {"quick": 90, "thorough": 1500}
NAMES = ["i", "j", "k", "a", "b", "p"]


def build(case):
    # (optionally all indices of one spin, with an explicit target spin string)
    idx = {n: get_symbols(n, case.get("spin"))[0] for n in NAMES + ["l", "c"]}
    factors = []
    for n, (kind, names, exp, *nm) in enumerate(case["objs"]):
        if kind == "d":
            o = KroneckerDelta(idx[names[0]], idx[names[1]])
        elif kind == "a":
            h = len(names) // 2
            o = AntiSymmetricTensor(f"A{n}", tuple(idx[x] for x in names[:h]),
                                    tuple(idx[x] for x in names[h:]))
        else:
            # (optional explicit name: several tensors of a term may carry the same name)
            o = NonSymmetricTensor(nm[0] if nm else f"T{n}", tuple(idx[x] for x in names))
        factors.append(o ** exp)
    pref = Rational(*case.get("pref", [1, 1]))
    return idx, pref * Mul(*factors)


def gen_cases(tier, seed):
    rng = random.Random(seed)
    # the documented examples and the single object special cases
    yield {"objs": [["t", ["i", "j"], 1]], "target": None}
    yield {"objs": [["t", ["i", "i"], 1]], "target": None}
    yield {"objs": [["t", ["i", "j"], 1]], "target": "ji"}
    yield {"objs": [["t", ["i", "k"], 1], ["t", ["i", "j"], 1], ["t", ["i", "j"], 1], ["t", ["j"], 1]], "target": "k"}
    yield {"objs": [["t", ["i"], 1], ["t", ["j"], 1], ["t", ["i", "j"], 1]], "target": None}
    # hyper-contractions (an index shared by >= 3 objects) under a limit on the
    # number of simultaneously contracted objects: a group below the limit can
    # grow past it in one step
    yield {"objs": [["t", ["i", "j"], 1], ["t", ["i"], 1], ["t", ["i", "j"], 1], ["t", ["j"], 1],
                    ["t", ["j"], 1]], "target": None, "max_n": 4}
    for _ in range(60 if tier == "quick" else 1500):
        pool = rng.choice([["i", "j"], ["i", "j", "k"], ["i", "j", "a"], ["i", "j", "k", "l"]])
        same_names = rng.random() < 0.5
        objs = [["t", [rng.choice(pool) for _ in range(rng.randint(1, 2))], 1] +
                ([rng.choice(["G", "G", "H"])] if same_names else [])
                for _o in range(rng.randint(4, 6))]
        objs = [o for o in objs if len(set(o[1])) == len(o[1])]
        case = {"objs": objs, "target": None, "max_n": rng.choice([None, None, 2, 3, 4, 5])}
        if rng.random() < 0.3:
            case["max_itmd_dim"] = rng.randint(0, 2)
        yield case
    # hyper-contractions with several tensors of the same name
    yield {"objs": [["t", ["i", "k"], 1, "G"], ["t", ["k", "l"], 1, "G"], ["t", ["l", "k"], 1, "H"],
                    ["t", ["l", "j"], 1, "B"]], "target": "ij"}
    yield {"objs": [["t", ["i", "k"], 1, "G"], ["t", ["k", "l"], 1, "G"], ["t", ["l", "k"], 1, "H"],
                    ["t", ["l", "j"], 1, "G"], ["t", ["l", "c"], 1, "G"]], "target": "ijc", "pref": [3, 2]}
    # only scalar intermediates allowed (limit 0)
    yield {"objs": [["t", ["j", "p", "k"], 1], ["t", ["k", "a"], 1], ["t", ["j", "k"], 1], ["t", ["i", "j", "a"], 1]],
           "target": "ip", "max_itmd_dim": 0}
    yield {"objs": [["t", ["i", "k"], 1], ["t", ["k", "j"], 1], ["t", ["j", "a"], 1]], "target": None, "max_itmd_dim": 0}
    n = 250 if tier == "quick" else 5000
    for _ in range(n):
        nobj = rng.randint(1, 4)
        objs = []
        for _o in range(nobj):
            kind = rng.choice(["t", "t", "t", "d", "a"])
            if kind == "d":
                a, b = rng.sample(["i", "j", "k"], 2) if rng.random() < 0.6 else rng.sample(["a", "b"], 2)
                names = [a, b]
            elif kind == "a":
                names = [rng.choice(NAMES) for _ in range(2)]
            else:
                names = [rng.choice(NAMES) for _ in range(rng.randint(1, 3))]
            objs.append([kind, names, rng.choice([1, 1, 1, 2])])
        allidx = sorted({x for _k, nm, _e in objs for x in nm})
        target = None
        if rng.random() < 0.5:
            # explicit target: the Einstein targets of the built term plus
            # `extra` contracted indices, shuffled with `tseed` (see check)
            target = {"extra": rng.sample(allidx, rng.randint(0, min(2, len(allidx)))),
                      "tseed": rng.randint(0, 10 ** 6)}
        case = {"objs": objs, "target": target}
        if rng.random() < 0.35:
            case["max_itmd_dim"] = rng.randint(0, 3)
        if rng.random() < 0.3:
            case["max_n"] = rng.randint(2, 3)
        if rng.random() < 0.3:
            case["pref"] = [rng.randint(1, 3), rng.randint(1, 4)]
        if rng.random() < 0.3:
            case["spin"] = rng.choice("ab")
        yield case


def scaling_of(contracted, target):
    cs, ts = Counter(s.space for s in contracted), Counter(s.space for s in target)
    comp = {sp: cs[sp] + ts[sp] for sp in ("general", "virt", "occ")}
    mem = {sp: ts[sp] for sp in ("general", "virt", "occ")}
    return comp, mem


def check_scheme(term, scheme, target, model, limits, what):
    """executes the scheme; returns (ok, detail)"""
    if not isinstance(scheme, list):
        return False, f"{what}: result is not a list of contractions: {scheme!r}"
    # relevant objects of the term with multiplicity
    pool = []
    for obj in term.objects:
        base, exp = obj.base_and_exponent
        if obj.sympy.is_number or base.is_Symbol:
            continue
        for _ in range(int(exp)):
            pool.append((obj.longname(), tuple(obj.idx), base))
    if not pool:
        return scheme == [], f"{what}: no tensors but scheme {scheme}"
    if not scheme:
        return False, f"{what}: empty scheme for a term with tensors"
    results = {}          # contraction name -> (target tuple, value function)
    live = list(pool)
    for step, c in enumerate(scheme):
        names = c.names if isinstance(c.names, (tuple, list)) else (c.names,)
        indices = c.indices
        if indices and isinstance(indices[0], Index):
            return False, f"{what}: contraction with flat indices {c}"
        if len(names) != len(indices):
            return False, f"{what}: names/indices mismatch in {c}"
        factors = []
        for nm, ix in zip(names, indices):
            if Contraction.is_contraction(nm):
                if nm not in results:
                    return False, f"{what}: uses {nm} before it is computed"
                tgt, fn = results.pop(nm)
                if tuple(tgt) != tuple(ix):
                    return False, f"{what}: {nm} used with indices {ix} but computed with {tgt}"
                factors.append(("c", ix, fn))
            else:
                for n, (ln, lix, base) in enumerate(live):
                    if ln == nm and tuple(lix) == tuple(ix):
                        factors.append(("o", ix, base))
                        del live[n]
                        break
                else:
                    return False, f"{what}: object {nm}{ix} is not available (used twice or unknown)"
        # summed indices must not occur on any other live object / pending result
        outside = {s for _ln, lix, _b in live for s in lix} | \
            {s for tgt, _f in results.values() for s in tgt}
        for s in c.contracted:
            if s in outside:
                return False, (f"{what}: step {step} sums index {s} which still occurs on an "
                               f"object outside the contraction: {c}")
            if s in target:
                return False, f"{what}: step {step} sums the target index {s}"
        allidx = {s for _k, ix, _f in factors for s in ix}
        if set(c.contracted) | set(c.target) != allidx or set(c.contracted) & set(c.target):
            return False, f"{what}: contracted/target are not a partition of the indices: {c}"
        comp, mem = scaling_of(c.contracted, c.target)
        sc = c.scaling
        for sp in ("general", "virt", "occ"):
            if getattr(sc.computational, sp) != comp[sp] or getattr(sc.memory, sp) != mem[sp]:
                return False, f"{what}: wrong scaling reported for {c}"
        if sc.computational.total != sum(comp.values()) or sc.memory.total != len(c.target):
            return False, f"{what}: wrong total scaling for {c}"
        last = step == len(scheme) - 1
        if limits.get("max_itmd_dim") is not None and not last and \
                len(c.target) > limits["max_itmd_dim"] and tuple(c.target) != tuple(target):
            return False, f"{what}: intermediate of dimension {len(c.target)} > {limits['max_itmd_dim']}"
        if limits.get("max_n") is not None and len(names) > limits["max_n"]:
            return False, f"{what}: {len(names)} objects contracted simultaneously > {limits['max_n']}"

        def value(asg, factors=factors, contracted=tuple(c.contracted)):
            tot = Fraction(0)
            for combo in itertools.product(*[index_range(s, model.orbs) for s in contracted]):
                full = dict(asg)
                full.update(zip(contracted, combo))
                v = Fraction(1)
                for kind, ix, f in factors:
                    if kind == "c":
                        v *= f({s: full[s] for s in ix})
                    else:
                        from runtime.tensor_model import eval_factor
                        v *= eval_factor(f, full, model)
                    if v == 0:
                        break
                tot += v
            return tot
        results[c.contraction_name] = (tuple(c.target), value)
    if live:
        return False, f"{what}: objects never used: {[(n, i) for n, i, _ in live]}"
    if len(results) != 1:
        return False, f"{what}: {len(results)} results left at the end"
    (tgt, fn), = results.values()
    if tuple(tgt) != tuple(target):
        return False, f"{what}: final result carries {tgt}, requested {tuple(target)}"
    # value
    pref = term.prefactor
    pref = Fraction(int(pref.p), int(pref.q))
    for asg in all_assignments(list(target), model.orbs):
        exp = evaluate(term.sympy, asg, model)
        got = pref * fn(asg)
        if got != exp:
            return False, f"{what}: scheme evaluates to {got}, term to {exp} at {asg}"
    return True, ""


def check(case):
    idx, expr = build(case)
    if expr is S.Zero or expr.is_number:
        return True, "trivial"
    e = Expr(expr)
    if len(e.terms) != 1:
        return True, "not a single term"
    term = e.terms[0]
    tspec = case.get("target")
    if isinstance(tspec, dict):
        names = [s.name for s in term.target]
        names += [x for x in tspec["extra"] if x not in names and idx[x] in term.idx]
        random.Random(tspec["tseed"]).shuffle(names)
        tstr = "".join(names)
    else:
        tstr = tspec
    tspin = case["spin"] * len(split_idx_string(tstr)) if case.get("spin") and tstr else None
    target = tuple(term.target) if tstr is None else tuple(get_symbols(tstr, tspin))
    if tstr is not None and any(s not in term.idx for s in target):
        return True, "target index not in the term"
    if tstr is not None:
        e.set_target_idx(list(target))
        term = e.terms[0]
    model = Model(orbital_space(1, 1), seed=4)
    limits = {"max_itmd_dim": case.get("max_itmd_dim"), "max_n": case.get("max_n")}
    try:
        scheme = optimize_contractions(term, tstr, tspin, limits["max_itmd_dim"], limits["max_n"])
    except RuntimeError as ex:
        if limits["max_itmd_dim"] is None and limits["max_n"] is None:
            return False, f"no scheme found without limits: {ex}"
        scheme = None
    if scheme is not None:
        ok, detail = check_scheme(term, scheme, target, model, limits, "optimize_contractions")
        if not ok:
            return False, f"{expr} target {target}: {detail}"
    hyper = unoptimized_contraction(term, tstr, tspin)
    ok, detail = check_scheme(term, hyper, target, model, {}, "unoptimized_contraction")
    if not ok:
        return False, f"{expr} target {target}: {detail}"
    if scheme:
        worst = max(c.scaling.computational for c in scheme)
        if hyper and worst > hyper[0].scaling.computational:
            return False, (f"{expr}: maximal computational scaling {worst} of the scheme exceeds "
                           f"the single simultaneous contraction {hyper[0].scaling.computational}")
    return True, ""


CHECKS = {
    "schemes.execute": {
        "function": "adcgen.generate_code.optimize_contractions:optimize_contractions",
        "cases": gen_cases, "check": check,
        "bound": "terms of <= 4 objects (rank <= 3, exponents <= 2, deltas, traces) over 6 index names, optional explicit target order (also with spin labelled indices and a target spin string), max_itmd_dim 0..3, max_n_simultaneous_contracted 2..3; hyper-contractions of 4-6 objects of rank <= 2 (partly with equal tensor names) over 2-3 index names with max_n_simultaneous_contracted 2..5; 2 occ + 2 virt spin orbitals, all target assignments",
    },
}
