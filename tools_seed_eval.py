#!/usr/bin/env python3
"""Evaluates a seeded change produced by an independent sub-agent:
   tools_seed_eval.py <PROP> <worktree> <name> [--suite]
1. copies /repo to a scratch dir, applies <worktree>/patch.diff
2. runs the agent's demo on the original and on the changed tree
3. optionally runs the repository's test suite on the changed tree
4. runs the quick check of the property against the changed tree
5. stores patch, demo and meta.json under /verif/seeded/<name>/"""
import json
import os
import shutil
import subprocess
import sys
import tempfile

prop, wt, name = sys.argv[1:4]
suite = "--suite" in sys.argv
props = [prop] + [a for a in sys.argv[4:] if a.startswith("C")]
out = os.path.join("/verif/seeded", name)
os.makedirs(out, exist_ok=True)
patch = os.path.join(wt, "patch.diff")
demo = [f for f in os.listdir(wt) if f.startswith("demo_") and f.endswith(".py")]
assert os.path.exists(patch) and demo, (patch, demo)
demo = demo[0]
tmp = tempfile.mkdtemp(prefix="pyvc_seed_")
meta = {"property": prop, "name": name}
try:
    subprocess.run(["git", "-C", "/repo", "worktree", "add", "-q", "--detach", tmp + "/wt", "HEAD"], check=True)
    tree = tmp + "/wt"
    shutil.copy(os.path.join(wt, demo), tree)
    env = dict(os.environ, PYTHONPATH=tree)
    r0 = subprocess.run(["/venv/bin/python", demo], cwd=tree, env=env, capture_output=True, text=True, timeout=1800)
    meta["demo_on_original_exit"] = r0.returncode
    ap = subprocess.run(["git", "-C", tree, "apply", patch], capture_output=True, text=True)
    meta["patch_applies"] = ap.returncode == 0
    if ap.returncode != 0:
        meta["apply_error"] = ap.stderr[-500:]
    else:
        r1 = subprocess.run(["/venv/bin/python", demo], cwd=tree, env=env, capture_output=True, text=True, timeout=1800)
        meta["demo_on_changed_exit"] = r1.returncode
        meta["demo_output_changed"] = (r1.stdout + r1.stderr)[-600:]
        if suite:
            rs = subprocess.run(["/venv/bin/python", "-m", "pytest", "-q", "-p", "no:cacheprovider",
                                 "--timeout=900", "-n", "8"], cwd=tree, capture_output=True, text=True, timeout=3000)
            meta["test_suite_tail"] = rs.stdout.strip().splitlines()[-1:]
            meta["test_suite_passes"] = rs.returncode == 0
        meta["checks"] = {}
        for p in props:
            env2 = dict(os.environ, PYVC_REPO=tree)
            rc = subprocess.run(["python3-vt", "-m", "pyvc.check", p, "--no-evidence"], cwd="/verif", env=env2,
                                capture_output=True, text=True, timeout=3000)
            lines = rc.stdout.splitlines()
            meta["checks"][p] = {"exit": rc.returncode,
                                 "refuted": [ln for ln in lines if ln.startswith("# ")][:4],
                                 "violations": [ln for ln in lines if ln.startswith("VIOLATION")][:3],
                                 "undecided": [ln[:200] for ln in lines if ln.startswith("UNDECIDED")][:3],
                                 "summary": lines[-1:] }
    shutil.copy(patch, os.path.join(out, "patch.diff"))
    shutil.copy(os.path.join(wt, demo), os.path.join(out, demo))
finally:
    subprocess.run(["git", "-C", "/repo", "worktree", "remove", "--force", tmp + "/wt"], capture_output=True)
    shutil.rmtree(tmp, ignore_errors=True)
json.dump(meta, open(os.path.join(out, "meta.json"), "w"), indent=1)
print(json.dumps(meta, indent=1))
