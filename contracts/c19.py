"""C19 - independence of history, hash seed and tensor-name configuration.
Contracts: the canonical sort key never needs its hash component (shared with
C06), tensor-name classification under an arbitrary admissible configuration,
and the syntactic frame condition that wave functions / overlaps / norm
factors are not cached."""
import ast
import z3
from pyvc import contract as C
from pyvc.contract import Contract, register, lemma
from pyvc.values import Struct, Sym, term, wrap, zand, zor, znot, zeq, Unsupported
import contracts.c06 as c06        # noqa: F401  sort_idx_canonical (props C06, C19)

ASSUMPTIONS = c06.ASSUMPTIONS + [
    "tensor names and configured base names are arbitrary strings (z3 string theory, ASCII digits for str.isnumeric); the configured base names are non empty",
    "the index registry (Indices.get_indices / get_generic_indices / _gen_generic_idx), cached_member / cached_property / Singleton and is_t_amplitude / is_gs_density / split_* (string slicing and str.isnumeric over arbitrary strings: z3 and cvc5 both left the obligation open within 80 s, so no contract is claimed) are only covered by bounded stand-ins (registry.identity_and_freshness under C08, independence.hashseed_history_config)",
]
TRUSTED = []
DIGITS1 = z3.Plus(z3.Range("0", "9"))


@register
class IsAdcAmplitude(Contract):
    key = "adcgen.tensor_names:is_adc_amplitude"
    props = ["C19"]

    def setup(self, vc):
        name = z3.String("name")
        l, r = z3.String("configured_left"), z3.String("configured_right")
        C.EXTERNALS["adcgen.tensor_names:tensor_names"] = Struct(
            "TensorNames", left_adc_amplitude=Sym(l), right_adc_amplitude=Sym(r))
        return {"name": Sym(name), "_l": l, "_r": r}

    def post(self, vc, a, result):
        name = a["name"].t
        spec = z3.Or(name == a["_l"], name == a["_r"])
        return [("true-iff-one-of-the-two-configured-amplitude-names",
                 zeq(vc.ip.truth_term(result) if not isinstance(result, bool) else result, spec))]


@lemma("C19", "uncached")
def uncached():
    """wave functions, overlaps and norm factors must produce fresh contracted
    indices on every request: no caching decorator on them"""
    from pyvc.source import SourceTable
    src = SourceTable()
    out = []
    for fn in ("psi", "overlap", "norm_factor"):
        node = src.get(f"adcgen.groundstate:GroundState.{fn}")
        decos = [ast.unparse(d) for d in node.decorator_list] if node is not None else ["<missing>"]
        out.append((f"{fn}-has-no-caching-decorator", z3.BoolVal(decos == [])))
    return out
