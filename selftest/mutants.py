"""Seeded breaks: small semantic changes of the real source that must fail a
named obligation."""
MUTANTS = [
 {"id": "c09-pk-swap", "prop": "C09", "file": "adcgen/sympy_objects.py",
  "old": "            else:  # go / gv\n                return (j, i)\n        elif spin2:",
  "new": "            else:  # go / gv\n                return (i, j)\n        elif spin2:"},
 {"id": "c09-pk-none", "prop": "C09", "file": "adcgen/sympy_objects.py",
  "old": "            else:  # og / vg  -> 1 holds more space information\n                return None",
  "new": "            else:  # og / vg  -> 1 holds more space information\n                return (j, i)"},
 {"id": "c09-eqinfo", "prop": "C09", "file": "adcgen/sympy_objects.py",
  "old": "return i.space == j.space and i.spin == j.spin",
  "new": "return i.space == j.space"},
 {"id": "c01-contraction-table", "prop": "C01", "file": "adcgen/func.py",
  "old": "        if space_p == \"o\" or space_q == \"o\":\n            return S.Zero\n        elif space_p == \"v\"",
  "new": "        if space_p == \"v\" or space_q == \"v\":\n            return S.Zero\n        elif space_p == \"o\""},
 {"id": "c01-sign", "prop": "C01", "file": "adcgen/func.py",
  "old": "if not i % 2:  # introduce -1", "new": "if i % 2:  # introduce -1"},
 {"id": "c01-slice", "prop": "C01", "file": "adcgen/func.py",
  "old": "remaining = op_string[1:i] + op_string[i+1:]", "new": "remaining = op_string[1:i] + op_string[i:]"},
 {"id": "c01-prefilter-general", "prop": "C01", "file": "adcgen/func.py",
  "old": "n_annihilate = annihilate[space] + annihilate[\"general\"]", "new": "n_annihilate = annihilate[space]"},
 {"id": "c01-fresh-space", "prop": "C01", "file": "adcgen/func.py",
  "old": "KroneckerDelta(q_idx, Index('a', above_fermi=True))", "new": "KroneckerDelta(q_idx, Index('i', below_fermi=True))"},
]
MUTANTS += [
 {"id": "c06-braket-sign", "prop": "C06", "file": "adcgen/sympy_objects.py",
  "old": "                if bra_ket_sym is S.NegativeOne:  # add another -1\n                    sign_u += 1",
  "new": "                if bra_ket_sym is S.NegativeOne:  # add another -1\n                    sign_u += 2"},
 {"id": "c06-key-noninjective", "prop": "C06", "file": "adcgen/indices.py",
  "old": "                idx.name[0],\n                idx.name,\n", "new": "                idx.name[0],\n"},
 {"id": "c06-delta-spin", "prop": "C06", "file": "adcgen/sympy_objects.py",
  "old": "if spi and spj and spi != spj:  # delta_ab / delta_ba", "new": "if spi != spj:  # delta_ab / delta_ba"},
 {"id": "c06-delta-noncanonical", "prop": "C06", "file": "adcgen/sympy_objects.py",
  "old": "        if i != min(i, j, key=sort_idx_canonical):\n            return cls(j, i)", "new": "        pass"},
 {"id": "c06-sym-sign", "prop": "C06", "file": "adcgen/sympy_objects.py",
  "old": "                if bra_ket_sym is S.NegativeOne:\n                    negative_sign = True",
  "new": "                if bra_ket_sym is S.One:\n                    negative_sign = True"},
]
HARMLESS = [
 # exchanging identical bra and ket tuples is unobservable
 {"id": "c06-h-swap-names", "prop": "C06", "file": "adcgen/sympy_objects.py",
  "old": "                if lower_names < upper_names:\n                    return True",
  "new": "                if lower_names <= upper_names:\n                    return True"},

 # any strict total order of bra vs ket is a valid canonical form
 {"id": "c06-h-spin-order", "prop": "C06", "file": "adcgen/sympy_objects.py",
  "old": "            if spin_l < spin_u:\n                return True", "new": "            if spin_l > spin_u:\n                return True"},
 {"id": "c06-h-delta-max", "prop": "C06", "file": "adcgen/sympy_objects.py",
  "old": "if i != min(i, j, key=sort_idx_canonical):", "new": "if i != max(i, j, key=sort_idx_canonical):"},
]
