"""C07 - simplify preserves the value.  Contract on adcgen.simplify:simplify
(bookkeeping over the result of find_compatible_terms)."""
import z3
from pyvc import contract as C
from pyvc.contract import Contract, LoopContract, register, lemma
from pyvc.values import (Struct, Sym, SymSeq, SymMap, PList, PDict, term, wrap, zand, zor,
                         znot, zeq, Unsupported)
from pyvc.vc import RaiseEx

ASSUMPTIONS = [
    "alpha-renaming lemma (math): a bijective, space and spin preserving renaming of the contracted indices of a term that fixes its target indices does not change its value",
    "find_compatible_terms (assumed contract, not verified): the keys of the result and the keys of all inner dicts partition range(len(terms)); every inner value is such a renaming that maps the matched term onto the key term (bounded stand-ins simplify.value and simplify.merges)",
    "sympy subs applies an ordered substitution list left to right; Expr.expand and Add preserve the value",
]
TRUSTED = ["alpha-renaming lemma (math)"]
TermS = z3.DeclareSort("TermS")
MatchS = z3.DeclareSort("Matches")
SubS = z3.DeclareSort("Substitution")
TVAL = z3.Function("term_value", TermS, z3.RealSort())
INDOM = z3.Function("matched_terms", MatchS, z3.ArraySort(z3.IntSort(), z3.BoolSort()))
INSUB = z3.Function("matched_substitution", MatchS, z3.ArraySort(z3.IntSort(), SubS))
TermArr = z3.ArraySort(z3.IntSort(), TermS)


def matches_items(ip, obj, args, kwargs):
    m = SymMap(INDOM(obj.t), [INSUB(obj.t)], ("sym", SubS), key_schema=None)
    m.owner = obj.t
    return Struct("mapview", m=m, kind="items")


C.Schema("Matches", MatchS, methods={"items": matches_items})


def term_subs(ip, obj, args, kwargs):
    return Struct("SubstTerm", term=obj.t, sub=args[0])


def term_arith(ip, opn, a, b):
    if opn == "Add":
        acc, t = (a, b) if not (isinstance(a, Sym) and a.schema == "TermS") else (b, a)
        base = z3.RealVal(0) if (isinstance(acc, int) and acc == 0) else acc.f["val"]
        return Struct("ExprAcc", val=base + TVAL(t.t))
    raise Unsupported("operator on a term")


sch = C.Schema("TermS", TermS, methods={"subs": term_subs})
sch.arith = term_arith


def acc_arith(ip, opn, a, b):
    if opn == "Add":
        acc, other = (a, b) if isinstance(a, Struct) and a.cls == "ExprAcc" else (b, a)
        if isinstance(other, Sym) and other.schema == "TermS":
            return Struct("ExprAcc", val=acc.f["val"] + TVAL(other.t))
        if isinstance(other, Struct) and other.cls == "SubstTerm":
            exp = ip.vc.ghost.get("_expected_sub")
            ip.vc.check("subs#matched-term-is-renamed-with-its-own-substitution",
                        False if exp is None else other.f["sub"].t == exp(other.f["term"]))
            return Struct("ExprAcc", val=acc.f["val"] + TVAL(other.f["term"]))
    raise Unsupported("operator on the result accumulator")


C.STRUCT_ARITH["ExprAcc"] = acc_arith
C.STRUCT_ARITH["SubstTerm"] = lambda ip, opn, a, b: acc_arith(
    ip, opn, Struct("ExprAcc", val=z3.RealVal(0)) if isinstance(a, int) else a,
    b if not isinstance(b, int) else Struct("ExprAcc", val=z3.RealVal(0)))

OUTER = z3.Function("outer_prefix", z3.ArraySort(z3.IntSort(), z3.IntSort()), z3.IntSort(), z3.RealSort())
INNER = z3.Function("inner_prefix", MatchS, z3.ArraySort(z3.IntSort(), z3.IntSort()), z3.IntSort(), z3.RealSort())
INNERTOTAL = z3.Function("matched_terms_value", MatchS, z3.RealSort())


class OuterLoop(LoopContract):
    def iter_spec(self, vc, frame, seq):
        return [("runs-over-the-compatible-term-groups", seq.kind == "mapitems" and
                 seq.map is frame["equal_terms"])]

    def havoc(self, vc, frame, k, seq):
        frame["res"] = Struct("ExprAcc", val=vc.fresh_real("res"))
        for nm in ("n", "matches", "other_n", "sub"):
            frame.locals.pop(nm, None)

    def invariant(self, vc, frame, k, seq):
        g = vc.ghost["_c07"]
        kk = term(k)
        enum = seq.enum
        vc.ghost["_outer_enum"] = enum
        m = seq.map
        n_k = enum[kk]
        # instance of the (assumed) contract of find_compatible_terms: keys
        # and matched positions are positions of the term list
        vc.assume(z3.Implies(m.dom[n_k], z3.And(n_k >= 0, n_k < g["n"])))
        vc.assume(OUTER(enum, 0) == 0)
        vc.assume(z3.Implies(kk >= 0, OUTER(enum, kk + 1) == OUTER(enum, kk) +
                             TVAL(g["terms"][n_k]) + INNERTOTAL(z3.Select(m.vals[0], n_k))))
        r = frame["res"]
        v = z3.RealVal(0) if (isinstance(r, int) and r == 0) else r.f["val"]
        return [("result-is-key-terms-plus-their-renamed-matches", v == OUTER(enum, kk))]


class InnerLoop(LoopContract):
    def iter_spec(self, vc, frame, seq):
        ok = seq.kind == "mapitems" and getattr(seq.map, "owner", None) is not None and \
            isinstance(frame["matches"], Sym) and z3.eq(seq.map.owner, frame["matches"].t)
        return [("runs-over-the-matches-of-the-key-term", ok)]

    def havoc(self, vc, frame, k, seq):
        frame["res"] = Struct("ExprAcc", val=vc.fresh_real("res"))
        for nm in ("other_n", "sub"):
            frame.locals.pop(nm, None)

    def invariant(self, vc, frame, k, seq):
        g = vc.ghost["_c07"]
        kk = term(k)
        mt = frame["matches"].t
        enum = seq.enum
        o_k = enum[kk]
        vc.assume(z3.Implies(z3.Select(INDOM(mt), o_k), z3.And(o_k >= 0, o_k < g["n"])))
        # the substitution recorded for the pair (key term, matched term o)
        terms = g["terms"]
        vc.ghost["_expected_sub"] = lambda tterm: z3.Select(INSUB(mt), o_k)
        vc.assume(INNER(mt, enum, 0) == 0)
        vc.assume(z3.Implies(kk >= 0, INNER(mt, enum, kk + 1) == INNER(mt, enum, kk) + TVAL(terms[o_k])))
        # the matched terms' total value is the sum along any enumeration
        vc.assume(INNERTOTAL(mt) == INNER(mt, enum, term(seq.length())))
        r = frame["res"]
        if isinstance(k, int) and k == 0:
            # loop entry: value accumulated before the matches are added
            vc.ghost["_inner_base"] = (mt, r.f["val"])
        base = vc.ghost["_inner_base"]
        return [("adds-each-matched-term-once", r.f["val"] == base[1] + INNER(mt, enum, kk))]


@register
class Simplify(Contract):
    key = "adcgen.simplify:simplify"
    props = ["C07"]
    loops = {0: OuterLoop(), 1: InnerLoop()}

    def setup(self, vc):
        n = vc.fresh_int("nterms")
        vc.assume(n >= 0)
        arr = vc.fresh("terms", TermArr)
        terms = SymSeq(Sym(n), [arr], ("sym", TermS, "TermS"), mutable=False)
        expr = Struct("ExprArg", termseq=terms)
        C.STRUCT_ATTR[("ExprArg", "terms")] = lambda ip, o: o.f["termseq"]
        C.STRUCT_METHODS[("ExprArg", "expand")] = lambda ip, o, a, k: o
        C.STRUCT_LEN["ExprArg"] = lambda ip, o: o.f["termseq"].len
        C.STRUCT_ISINSTANCE["ExprArg"] = lambda ip, v, cls: True
        vc.ghost["_c07"] = {"terms": arr, "n": n}
        return {"expr": expr}

    def post(self, vc, a, result):
        g = vc.ghost["_c07"]
        if result is a["expr"]:
            return [("single-term-expression-is-returned-unchanged", g["n"] == 1)]
        enum = vc.ghost.get("_outer_enum")
        if enum is None or not (isinstance(result, Struct) and result.cls == "ExprAcc") and result != 0:
            return [("result-shape", False)]
        fct = vc.ghost["_fct_len"]
        v = z3.RealVal(0) if isinstance(result, int) else result.f["val"]
        return [("value-is-sum-over-groups-of-key-term-plus-renamed-matches", v == OUTER(enum, fct))]


@register
class FindCompatibleTerms(Contract):
    key = "adcgen.simplify:find_compatible_terms"
    props = []
    assumed = True
    note = "partition of the term positions into key terms and their matches, each match with a value preserving renaming (not verified; bounded stand-ins)"

    def apply(self, vc, a):
        dom = vc.fresh("groups", z3.ArraySort(z3.IntSort(), z3.BoolSort()))
        vals = vc.fresh("group_matches", z3.ArraySort(z3.IntSort(), MatchS))
        m = SymMap(dom, [vals], ("sym", MatchS, "Matches"), key_schema=None)
        return m


_orig_map_symiter = None


def _patch_len_capture():
    """remember the length of the outer enumeration for the postcondition"""
    from pyvc import builtins as B
    orig = B.map_symiter

    def patched(ip, m, kind):
        si = orig(ip, m, kind)
        if getattr(m, "owner", None) is None and "_fct_len" not in ip.vc.ghost:
            ip.vc.ghost["_fct_len"] = term(si.length())
        return si
    B.map_symiter = patched


_patch_len_capture()


@lemma("C07", "partition-sums-to-expression")
def partition_lemma():
    """the bookkeeping identity used with the partition property: moving one
    term from the unmatched rest into a group keeps the grand total"""
    rest, grp, t = z3.Reals("rest group t")
    return [("moving-a-term-keeps-the-total", (rest - t) + (grp + t) == rest + grp)]
