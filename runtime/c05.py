"""Executable contracts for C05 on the real code (bounded stand-ins)."""
import itertools
from fractions import Fraction

from sympy import S

from adcgen.groundstate import GroundState
from adcgen.operators import Operators
from adcgen.intermediate_states import IntermediateStates
from adcgen.properties import Properties
from adcgen.expr_container import Expr
from adcgen.simplify import simplify
from runtime.tensor_model import Model, orbital_space, evaluate, index_range

BUDGET_S = {"quick": 120, "thorough": 2000}
_C = {}


def props(lv="pp", rv=None):
    key = (lv, rv)
    if key not in _C:
        gs = GroundState(Operators("mp"))
        l = IntermediateStates(gs, lv)
        r = None if rv is None else IntermediateStates(gs, rv)
        _C[key] = Properties(l, r)
    return _C[key]


def cases(tier, seed):
    yield {"kind": "tm0"}
    yield {"kind": "expec0"}
    yield {"kind": "pairing", "adc": 2, "order": 0}
    yield {"kind": "tm-default-ip"}
    if tier == "thorough":
        yield {"kind": "pairing", "adc": 2, "order": 1}


def check(case):
    model = Model(orbital_space(1, 1), seed=9, alias=lambda nm: nm.replace("cc", ""))
    occ = [o for o in model.orbs if o[0] == "o"]
    virt = [o for o in model.orbs if o[0] == "v"]
    X = lambda a, i: model.antisym("X", [a], [i])   # noqa: E731
    Y = lambda a, i: model.antisym("Y", [a], [i])   # noqa: E731
    d = lambda p, q: model.antisym("d", [p], [q])   # noqa: E731
    p = props()
    if case["kind"] == "tm0":
        got = evaluate(p.trans_moment_space(0, "ph"), {}, model)
        exp = sum(X(a, i) * d(a, i) for a in virt for i in occ)
        return got == exp, f"zeroth order transition moment {got} != sum X^a_i d^a_i = {exp}"
    if case["kind"] == "expec0":
        got = evaluate(p.expec_block_contribution(0, "ph,ph"), {}, model)
        exp = Fraction(0)
        for a, b in itertools.product(virt, repeat=2):
            for i, j in itertools.product(occ, repeat=2):
                v = (d(a, b) if i == j else 0) - (d(j, i) if a == b else 0)
                exp += X(a, i) * v * Y(b, j)
        return got == exp, f"zeroth order ph/ph expectation value {got} != X (d_ab delta_ij - d_ji delta_ab) Y = {exp}"
    if case["kind"] == "pairing":
        n, o = case["adc"], case["order"]
        total = evaluate(p.expectation_value(n, order=o), {}, model)
        exp = Fraction(0)
        blocks = p.l_m.block_order(n)
        for (b1, b2), mx in blocks.items():
            if mx >= o:
                exp += evaluate(p.expec_block_contribution(o, f"{b1},{b2}"), {}, model)
        return total == exp, f"expectation_value(ADC({n}), order={o}) = {total} != sum of its blocks {exp}"
    if case["kind"] == "tm-default-ip":
        pi = props("ip")
        got = evaluate(pi.trans_moment_space(0, "h"), {}, model)
        # default operator of IP: one annihilator: <i| a_q |0> d_q  -> X_i d_i
        exp = sum(model.antisym("X", [], [i]) * model.antisym("d", [], [i]) for i in occ)
        return got == exp, f"IP transition moment with default operator {got} != sum X_i d_i = {exp}"
    return False, "unknown case"


CHECKS = {
    "properties.zeroth_order_and_pairing": {
        "function": "adcgen.properties:Properties.expectation_value", "cases": cases, "check": check,
        "bound": "zeroth order ph transition moment / ph,ph expectation value vs explicit formulas; expectation_value(ADC(2), order 0 (1 in thorough)) = sum of its block contributions; IP default operator string",
    },
}
