TECH = "contract-based deductive verification: VCs generated from the real function ASTs against sidecar contracts, discharged by z3 (bounded run-time contracts only as labelled stand-ins / replay search)"
PENDING = "contracts not completed in this work yet (see DESIGN section 5.%s); no weaker technique is substituted"
CLAIMED = {
 "C09": {"text": "Every path of KroneckerDelta.preferred_and_killable / indices_contain_equal_information of the real source is executed symbolically over the full abstract index domain (space x spin of both indices) and the range-lattice postconditions (preferred carries at least as much information; None only for incomparable ranges; equal information iff equal ranges) are discharged by z3 - complete for the finite domain. evaluate_deltas' substitution side conditions are obligations of its contract.",
         "design_ref": "5.C09", "technique": TECH,
         "note": "assumed: sympy subs/atoms contracts, delta-elimination lemma (math), Index.space/spin reflect the sympy assumptions; bounded stand-in evaluate_deltas.value labelled bounded"},
 "C01": {"text": "The adcgen-owned core of the Wick evaluation is proved from the real source for all inputs: _contraction equals the two-operator vacuum expectation value on the full abstract domain (operator kinds x index spaces, incl. the fresh-index delta for general indices); the counting prefilter computes exactly its specification (loop invariant over an arbitrary-length operator string, with the aliasing `counter = create`); _contract_operator_string computes the first-operator Wick expansion (loop invariant: accumulated sum = prefix of the expansion; sign rule, slice, recursion on the remainder with a decreasing measure).",
         "design_ref": "5.C01", "technique": TECH,
         "note": "Wick's theorem is the SPECIFICATION of vev (trusted); the prefilter-implies-zero lemma is proved only in its inductive step; sympy Add/Mul/doit/expand assumed; `wicks` glue, Rules.apply and NO groups only by the bounded stand-in wicks.value (explicit Fock-space evaluation, <= 6 operators); known finding: NO groups with general indices crash"},
 "C06": {"text": "Proved from the real source: sort_idx_canonical's key without its hash component is injective on registered indices (relational obligation by self-composition; abstract name model letter + digit string, so leading zeros and bare names are covered); _need_bra_ket_swap never exchanges different tuples in both directions and is total on different tuples (ranks 1-3, all spaces/spins/names symbolically); AntiSymmetricTensor.__new__/SymmetricTensor.__new__ give the same canonical object with the sign prescribed by the symmetry for transposed upper/lower pairs and exchanged bra/ket (ranks <= 2 per group), zero iff an index repeats in an antisymmetric group, Inputerror/NotImplementedError exactly as documented; KroneckerDelta.eval is 1 iff identical, 0 iff ranges disjoint, and both argument orders give the same object; _eval_power.",
         "design_ref": "5.C06", "technique": TECH,
         "note": "assumed: sympy _sort_anticommuting_fermions contract (modelled, ranks <= 2 per group), registry uniqueness (C19), sympy is_zero/fuzzy_not on Dummy differences, CPython hash arbitrary; Expr assumption setters (make_real/set_sym_tensors) only by the bounded stand-in Expr.assumptions; ranks > 3 (swap) / > 2 (constructors) only bounded (tensor.constructors)"},
}
NOT_APPLICABLE = {
 "C12": "identity between ~25 hand-typed closed formulas and derived quantities: a property of data decided by computation, not a pre/postcondition of any function within the verifier's reach (DESIGN section 6)",
}
for n in range(1, 21):
    pid = f"C{n:02d}"
    if pid not in CLAIMED and pid not in NOT_APPLICABLE:
        NOT_APPLICABLE[pid] = PENDING % pid
NOTES = "Technique family: contract-based deductive verification of the real code. Exit codes of every check: 0 held, 1 violation (+VIOLATION line), 2 undecided, 3 engine error. Known findings: /verif/known_findings.json."
