"""Seeded breaks: small semantic changes of the real source that must fail a
named obligation."""
MUTANTS = [
 {"id": "c09-pk-swap", "prop": "C09", "file": "adcgen/sympy_objects.py",
  "old": "            else:  # go / gv\n                return (j, i)\n        elif spin2:",
  "new": "            else:  # go / gv\n                return (i, j)\n        elif spin2:"},
 {"id": "c09-pk-none", "prop": "C09", "file": "adcgen/sympy_objects.py",
  "old": "            else:  # og / vg  -> 1 holds more space information\n                return None",
  "new": "            else:  # og / vg  -> 1 holds more space information\n                return (j, i)"},
 {"id": "c09-eqinfo", "prop": "C09", "file": "adcgen/sympy_objects.py",
  "old": "return i.space == j.space and i.spin == j.spin",
  "new": "return i.space == j.space"},
 {"id": "c01-contraction-table", "prop": "C01", "file": "adcgen/func.py",
  "old": "        if space_p == \"o\" or space_q == \"o\":\n            return S.Zero\n        elif space_p == \"v\"",
  "new": "        if space_p == \"v\" or space_q == \"v\":\n            return S.Zero\n        elif space_p == \"o\""},
 {"id": "c01-sign", "prop": "C01", "file": "adcgen/func.py",
  "old": "if not i % 2:  # introduce -1", "new": "if i % 2:  # introduce -1"},
 {"id": "c01-slice", "prop": "C01", "file": "adcgen/func.py",
  "old": "remaining = op_string[1:i] + op_string[i+1:]", "new": "remaining = op_string[1:i] + op_string[i:]"},
 {"id": "c01-prefilter-general", "prop": "C01", "file": "adcgen/func.py",
  "old": "n_annihilate = annihilate[space] + annihilate[\"general\"]", "new": "n_annihilate = annihilate[space]"},
 {"id": "c01-fresh-space", "prop": "C01", "file": "adcgen/func.py",
  "old": "KroneckerDelta(q_idx, Index('a', above_fermi=True))", "new": "KroneckerDelta(q_idx, Index('i', below_fermi=True))"},
]
MUTANTS += [
 {"id": "c06-braket-sign", "prop": "C06", "file": "adcgen/sympy_objects.py",
  "old": "                if bra_ket_sym is S.NegativeOne:  # add another -1\n                    sign_u += 1",
  "new": "                if bra_ket_sym is S.NegativeOne:  # add another -1\n                    sign_u += 2"},
 {"id": "c06-key-noninjective", "prop": "C06", "file": "adcgen/indices.py",
  "old": "                idx.name[0],\n                idx.name,\n", "new": "                idx.name[0],\n"},
 {"id": "c06-delta-spin", "prop": "C06", "file": "adcgen/sympy_objects.py",
  "old": "if spi and spj and spi != spj:  # delta_ab / delta_ba", "new": "if spi != spj:  # delta_ab / delta_ba"},
 {"id": "c06-delta-noncanonical", "prop": "C06", "file": "adcgen/sympy_objects.py",
  "old": "        if i != min(i, j, key=sort_idx_canonical):\n            return cls(j, i)", "new": "        pass"},
 {"id": "c06-sym-sign", "prop": "C06", "file": "adcgen/sympy_objects.py",
  "old": "                if bra_ket_sym is S.NegativeOne:\n                    negative_sign = True",
  "new": "                if bra_ket_sym is S.One:\n                    negative_sign = True"},
]
HARMLESS = [
 # exchanging identical bra and ket tuples is unobservable
 {"id": "c06-h-swap-names", "prop": "C06", "file": "adcgen/sympy_objects.py",
  "old": "                if lower_names < upper_names:\n                    return True",
  "new": "                if lower_names <= upper_names:\n                    return True"},

 # any strict total order of bra vs ket is a valid canonical form
 {"id": "c06-h-spin-order", "prop": "C06", "file": "adcgen/sympy_objects.py",
  "old": "            if spin_l < spin_u:\n                return True", "new": "            if spin_l > spin_u:\n                return True"},
 {"id": "c06-h-delta-max", "prop": "C06", "file": "adcgen/sympy_objects.py",
  "old": "if i != min(i, j, key=sort_idx_canonical):", "new": "if i != max(i, j, key=sort_idx_canonical):"},
]
_GS = "adcgen/groundstate.py"
MUTANTS += [
 {"id": "c02-psi-sign", "prop": "C02", "file": _GS, "old": "if excitation == 2:  # doubles", "new": "if excitation == 3:  # doubles"},
 {"id": "c02-psi-pref", "prop": "C02", "file": _GS, "old": "Rational(1, factorial(excitation) ** 2)", "new": "Rational(1, factorial(excitation))"},
 {"id": "c02-psi-nidx", "prop": "C02", "file": _GS, "old": "get_generic_indices(occ=2*order, virt=2*order)", "new": "get_generic_indices(occ=order, virt=2*order)"},
 {"id": "c02-psi-range", "prop": "C02", "file": _GS, "old": "for excitation in range(1, order * 2 + 1):", "new": "for excitation in range(1, order * 2):"},
 {"id": "c02-psi-swapped-amp", "prop": "C02", "file": _GS, "old": "t = Amplitude(tensor_name, virt, occ)", "new": "t = Amplitude(tensor_name, occ, virt)"},
 {"id": "c02-psi-cached", "prop": "C02", "file": _GS, "old": "    def psi(self, order: int, braket: str):", "new": "    @cached_member\n    def psi(self, order: int, braket: str):"},
 {"id": "c02-psi-singles", "prop": "C02", "file": _GS, "old": "if order == 1 and not self.singles and excitation == 1:", "new": "if not self.singles and excitation == 1:"},
 {"id": "c02-energy-order", "prop": "C02", "file": _GS, "old": "            self.psi(order=order-1, braket='ket')\n        e = bra * h * ket", "new": "            self.psi(order=order, braket='ket')\n        e = bra * h * ket"},
 {"id": "c02-energy-h", "prop": "C02", "file": _GS, "old": "h, rules = self.h.h0 if order == 0 else self.h.h1", "new": "h, rules = self.h.h0 if order <= 1 else self.h.h1"},
 {"id": "c02-amp-minorder", "prop": "C02", "file": _GS, "old": "terms = gen_term_orders(order=order, term_length=2, min_order=1)", "new": "terms = gen_term_orders(order=order, term_length=2, min_order=0)"},
 {"id": "c02-amp-sign", "prop": "C02", "file": _GS, "old": "            if n_ov[\"occ\"] == 2:  # doubles... special sign\n                ret += contrib", "new": "            if n_ov[\"occ\"] == 1:  # doubles... special sign\n                ret += contrib"},
 {"id": "c02-amp-denom", "prop": "C02", "file": _GS, "old": "        if len(lower) == 2:  # doubles amplitude: a+b-i-j", "new": "        if len(lower) == 3:  # doubles amplitude: a+b-i-j"},
 {"id": "c02-amp-bra", "prop": "C02", "file": _GS, "old": "        bra = self.h.excitation_operator(creation=lower, annihilation=upper,\n                                         reverse_annihilation=True)\n\n        # construct <k|H1|psi^(n-1)>", "new": "        bra = self.h.excitation_operator(creation=upper, annihilation=lower,\n                                         reverse_annihilation=True)\n\n        # construct <k|H1|psi^(n-1)>"},
 {"id": "c02-amp-order-of-product", "prop": "C02", "file": _GS, "old": "ret = bra * h1 * self.psi(order-1, \"ket\")", "new": "ret = h1 * bra * self.psi(order-1, \"ket\")"},
 {"id": "c02-resid-h0", "prop": "C02", "file": _GS, "old": "term = bra * h0 * self.psi(order, 'ket')", "new": "term = bra * h0 * self.psi(order - 1, 'ket')"},
 {"id": "c02-resid-skip", "prop": "C02", "file": _GS, "old": "            if n_ov[\"occ\"] > 2 * t_order or \\", "new": "            if n_ov[\"occ\"] >= 2 * t_order or \\"},
 {"id": "c02-overlap-minorder", "prop": "C02", "file": _GS, "old": "        orders = gen_term_orders(order=order, term_length=2, min_order=0)\n        res = 0\n        for term in orders:\n            # each wfn", "new": "        orders = gen_term_orders(order=order, term_length=2, min_order=1)\n        res = 0\n        for term in orders:\n            # each wfn"},
]
_IS = "adcgen/intermediate_states.py"
MUTANTS += [
 {"id": "c04-is-prefactor", "prop": "C04", "file": _IS,
  "old": "        n_ov = n_ov_from_space(space)\n        prefactor = Rational(\n            1, factorial(n_ov[\"occ\"]) * factorial(n_ov[\"virt\"])\n        )\n\n        # sandwich",
  "new": "        n_ov = n_ov_from_space(space)\n        prefactor = Rational(\n            1, factorial(n_ov[\"occ\"]) + factorial(n_ov[\"virt\"])\n        )\n\n        # sandwich"},
 {"id": "c04-is-sindices", "prop": "C04", "file": _IS,
  "old": "            'bra': \",\".join([indices, idx_pre]),", "new": "            'bra': \",\".join([idx_pre, indices]),"},
 {"id": "c04-is-order-split", "prop": "C04", "file": _IS,
  "old": "                  self.precursor(order=term[1], space=space, braket=braket,\n                                 indices=idx_pre))",
  "new": "                  self.precursor(order=term[0], space=space, braket=braket,\n                                 indices=idx_pre))"},
 {"id": "c04-ovl-norm-missing", "prop": "C04", "file": _IS,
  "old": "                                              indices=indices[1]))\n                i1 = wicks(i1, simplify_kronecker_deltas=True)\n                overlap += i1\n            res += (norm * overlap).expand()",
  "new": "                                              indices=indices[1]))\n                i1 = wicks(i1, simplify_kronecker_deltas=True)\n                overlap += i1\n            res += (overlap).expand()"},
 {"id": "c04-ovl-braket", "prop": "C04", "file": _IS,
  "old": "                i1 = (self.intermediate_state(order=term[0], space=block[0],\n                                              braket=\"bra\",",
  "new": "                i1 = (self.intermediate_state(order=term[0], space=block[0],\n                                              braket=\"ket\","},
 {"id": "c04-taylor-exponent", "prop": "C04", "file": _IS, "old": "f = (1 + x) ** Rational(-1, 2)", "new": "f = (1 + x) ** Rational(-1, 1)"},
 {"id": "c04-taylor-factorial", "prop": "C04", "file": _IS,
  "old": "            pref = nsimplify(f.subs(x, 0) / factorial(exp), rational=True)\n            orders = gen_term_orders(\n                order=order, term_length=exp, min_order=min_order\n            )\n            ret.append((pref, orders))\n        return ret\n\n    def _generate_lower_spaces",
  "new": "            pref = nsimplify(f.subs(x, 0) / exp, rational=True)\n            orders = gen_term_orders(\n                order=order, term_length=exp, min_order=min_order\n            )\n            ret.append((pref, orders))\n        return ret\n\n    def _generate_lower_spaces"},
 {"id": "c04-precursor-lower-prefactor", "prop": "C04", "file": _IS,
  "old": "1, factorial(n_ov_lower[\"occ\"]) * factorial(n_ov_lower[\"virt\"])", "new": "1, factorial(n_ov[\"occ\"]) * factorial(n_ov[\"virt\"])"},
 {"id": "c04-normfactor-exponent", "prop": "C02", "file": "adcgen/groundstate.py", "old": "f = (1 + x) ** -1.0", "new": "f = (1 + x) ** -0.5"},
]
_SM = "adcgen/secular_matrix.py"
MUTANTS += [
 {"id": "c03-ham-sub", "prop": "C03", "file": _SM, "old": "            return h - self.gs.energy(order), rules", "new": "            return h + self.gs.energy(order), rules"},
 {"id": "c03-ham-table", "prop": "C03", "file": _SM, "old": "h = {0: self.h.h0, 1: self.h.h1}", "new": "h = {0: self.h.h1, 1: self.h.h0}"},
 {"id": "c03-block-len", "prop": "C03", "file": _SM,
  "old": "            orders_M = gen_term_orders(\n                order=matrix_order, term_length=3, min_order=0\n            )\n            matrix = 0\n            for (bra_order, op_order, ket_order) in orders_M:\n                operator, rules = self.hamiltonian(op_order, subtract_gs)\n                if operator == 0:\n                    continue\n                itmd = (self.isr.intermediate_state(",
  "new": "            orders_M = gen_term_orders(\n                order=matrix_order, term_length=3, min_order=1\n            )\n            matrix = 0\n            for (bra_order, op_order, ket_order) in orders_M:\n                operator, rules = self.hamiltonian(op_order, subtract_gs)\n                if operator == 0:\n                    continue\n                itmd = (self.isr.intermediate_state("},
 {"id": "c03-block-orders-swapped", "prop": "C03", "file": _SM,
  "old": "                itmd = (self.isr.intermediate_state(order=bra_order,", "new": "                itmd = (self.isr.intermediate_state(order=ket_order,"},
 {"id": "c03-block-norm-order", "prop": "C03", "file": _SM,
  "old": "        for (norm_order, matrix_order) in orders:\n            norm = self.gs.norm_factor(norm_order)\n            if norm is S.Zero:\n                continue\n            # 2) construct M for a given norm_factor",
  "new": "        for (norm_order, matrix_order) in orders:\n            norm = self.gs.norm_factor(matrix_order)\n            if norm is S.Zero:\n                continue\n            # 2) construct M for a given norm_factor"},
 {"id": "c03-mvp-pref", "prop": "C03", "file": _SM,
  "old": "        n_ov = n_ov_from_space(block[1])\n        prefactor_ampl = 1 / sqrt(", "new": "        n_ov = n_ov_from_space(block[0])\n        prefactor_ampl = 1 / sqrt("},
 {"id": "c03-mvp-idx", "prop": "C03", "file": _SM,
  "old": "                                  indices=(indices, idx),", "new": "                                  indices=(idx, indices),"},
 {"id": "c03-table", "prop": "C03", "file": _SM, "old": "            ret[space] = order - i", "new": "            ret[space] = order - 2 * i"},
 {"id": "c03-precursor-block-bra", "prop": "C03", "file": _SM,
  "old": "                itmd = (self.isr.precursor(order=bra_order, space=bra_space,\n                                           braket='bra', indices=bra_idx) *",
  "new": "                itmd = (self.isr.precursor(order=bra_order, space=ket_space,\n                                           braket='bra', indices=bra_idx) *"},
]
_PR = "adcgen/properties.py"
MUTANTS += [
 {"id": "c05-op-sub", "prop": "C05", "file": _PR, "old": "            return d - e0, rules", "new": "            return d + e0, rules"},
 {"id": "c05-op-order", "prop": "C05", "file": _PR, "old": "        if order == 0:\n            d, rules = self.h.operator(", "new": "        if order <= 1:\n            d, rules = self.h.operator("},
 {"id": "c05-op-nparticles", "prop": "C05", "file": _PR, "old": "e0 = self.gs.expectation_value(order=order, n_particles=n_create)", "new": "e0 = self.gs.expectation_value(order=order, n_particles=n_create + 1)"},
 {"id": "c05-expec-rightpref", "prop": "C05", "file": _PR,
  "old": "        n_ov = n_ov_from_space(block[1])\n        right_pref = 1 / sqrt(", "new": "        n_ov = n_ov_from_space(block[0])\n        right_pref = 1 / sqrt("},
 {"id": "c05-expec-isr", "prop": "C05", "file": _PR,
  "old": "                      self.r_isr.intermediate_state(order=term[2],", "new": "                      self.l_isr.intermediate_state(order=term[2],"},
 {"id": "c05-expec-orders", "prop": "C05", "file": _PR,
  "old": "                      self.l_isr.intermediate_state(order=term[0],\n                                                    space=block[0],",
  "new": "                      self.l_isr.intermediate_state(order=term[1],\n                                                    space=block[0],"},
 {"id": "c05-tm-default", "prop": "C05", "file": _PR,
  "old": "            n_create = isr.min_space[0].count('p')\n            n_annihilate = isr.min_space[0].count('h')",
  "new": "            n_create = isr.min_space[0].count('h')\n            n_annihilate = isr.min_space[0].count('h') + 1"},
 {"id": "c05-tm-pref", "prop": "C05", "file": _PR,
  "old": "        pref = 1 / sqrt(factorial(n_ov[\"occ\"]) * factorial(n_ov[\"virt\"]))", "new": "        pref = 1 / (factorial(n_ov[\"occ\"]) * factorial(n_ov[\"virt\"]))"},
 {"id": "c05-tm-psi-order", "prop": "C05", "file": _PR, "old": "                      mp[term[2]])", "new": "                      mp[term[0]])"},
 {"id": "c05-tm-braket", "prop": "C05", "file": _PR,
  "old": "                      isr.intermediate_state(order=term[0], space=space,\n                                             braket='bra', indices=idx) *",
  "new": "                      isr.intermediate_state(order=term[0], space=space,\n                                             braket='ket', indices=idx) *"},
]
_CT = "adcgen/generate_code/contraction.py"
_OC = "adcgen/generate_code/optimize_contractions.py"
MUTANTS += [
 {"id": "c16-split-rule", "prop": "C16", "file": _CT, "old": "            if count == 1 or idx in term_target_indices:", "new": "            if count == 1:"},
 {"id": "c16-split-swapped", "prop": "C16", "file": _CT, "old": "                target.append(idx)\n            else:\n                contracted.append(idx)", "new": "                contracted.append(idx)\n            else:\n                target.append(idx)"},
 {"id": "c16-scaling-comp", "prop": "C16", "file": _CT, "old": "space: contracted_by_space[space] + target_by_space[space]", "new": "space: contracted_by_space[space]"},
 {"id": "c16-scaling-mem", "prop": "C16", "file": _CT, "old": "        mem_scaling = ScalingComponent(total=len(self.target),", "new": "        mem_scaling = ScalingComponent(total=len(self.contracted),"},
 {"id": "c16-target-order", "prop": "C16", "file": _CT, "old": "        if sorted(term_target_indices, key=sort_idx_canonical) == target:\n            target = term_target_indices", "new": "        if sorted(term_target_indices, key=sort_idx_canonical) == contracted:\n            target = term_target_indices"},
 {"id": "c16-single-object", "prop": "C16", "file": _OC, "old": "        return [Contraction(indices=tuple(relevant_obj_indices),\n                            names=tuple(relevant_obj_names),\n                            term_target_indices=target_indices)]", "new": "        return Contraction(indices=tuple(relevant_obj_indices),\n                            names=tuple(relevant_obj_names),\n                            term_target_indices=target_indices)"},
 {"id": "c16-closure-check", "prop": "C16", "file": _OC, "old": "        if any(idx in relevant_obj_indices[pos]\n               for idx in contraction.contracted\n               for pos in range(len(relevant_obj_names)) if pos not in group):\n            continue", "new": "        pass"},
 {"id": "c16-exponent", "prop": "C16", "file": _OC, "old": "        name, indices = obj.longname(), obj.idx\n        relevant_obj_names.extend(name for _ in range(exp))\n        relevant_obj_indices.extend(indices for _ in range(exp))\n    assert len(relevant_obj_names) == len(relevant_obj_indices)\n\n    if not relevant_obj_names:", "new": "        name, indices = obj.longname(), obj.idx\n        relevant_obj_names.extend(name for _ in range(1))\n        relevant_obj_indices.extend(indices for _ in range(1))\n    assert len(relevant_obj_names) == len(relevant_obj_indices)\n\n    if not relevant_obj_names:"},
 {"id": "c16-max-itmd", "prop": "C16", "file": _OC, "old": "                len(contraction.target) > max_itmd_dim:", "new": "                len(contraction.target) > max_itmd_dim + 1:"},
]
_SI = "adcgen/simplify.py"
MUTANTS += [
 {"id": "c20-target-test", "prop": "C20", "file": _SI, "old": "            if idx1[0] == idx2[0] and idx1[0] not in target and \\\n", "new": "            if idx1[0] == idx2[0] and \\\n"},
 {"id": "c20-count", "prop": "C20", "file": _SI, "old": "                    idx_counter[idx1[0]] == 2 and \\\n                    (idx1[1] != idx2[1]", "new": "                    idx_counter[idx1[0]] >= 2 and \\\n                    (idx1[1] != idx2[1]"},
 {"id": "c20-exponent", "prop": "C20", "file": _SI, "old": "new_term *= Pow(base, exponent - 2)", "new": "new_term *= Pow(base, exponent - 1)"},
 {"id": "c20-delta-idx", "prop": "C20", "file": _SI, "old": "                delta = KroneckerDelta(idx1[0], idx2[0])", "new": "                delta = KroneckerDelta(idx1[0], idx2[1])"},
 {"id": "c20-targets-dropped", "prop": "C20", "file": _SI, "old": "func.evaluate_deltas(res.sympy, res.provided_target_idx),", "new": "func.evaluate_deltas(res.sympy),"},
 {"id": "c20-trace-lost", "prop": "C20", "file": _SI, "old": "                    (idx1[1] != idx2[1] or idx1[1] in target\n                     or idx_counter[idx1[1]] > 2):", "new": "                    True:"},
 {"id": "c20-drop-object", "prop": "C20", "file": _SI, "old": "                if i == i1 or i == i2:\n                    continue", "new": "                if i == i1 or i == i2 or i == 0:\n                    continue"},
]
_EO = "adcgen/eri_orbenergy.py"
MUTANTS += [
 {"id": "c13-lost-remainder", "prop": "C13", "file": _EO,
  "old": "                if cancelled_result is not None:\n                    cancelled_result += \\\n                        pref * self.eri * num / multiply(denom)\n", "new": "                pass\n"},
 {"id": "c13-pref-not-moved", "prop": "C13", "file": _EO, "old": "                    pref *= min_pref\n                    num = factor_and_remove_number(num, min_pref)", "new": "                    num = factor_and_remove_number(num, min_pref)"},
 {"id": "c13-num-sign", "prop": "C13", "file": _EO, "old": "                num -= base\n", "new": "                num += base\n"},
 {"id": "c13-new-denom", "prop": "C13", "file": _EO, "old": "new_denom = denom[:bracket_i] + denom[bracket_i+1:]", "new": "new_denom = denom[:bracket_i] + denom[bracket_i+2:]"},
 {"id": "c13-exponent", "prop": "C13", "file": _EO, "old": "                        Pow(base, exponent-1), **bracket.assumptions", "new": "                        Pow(base, exponent), **bracket.assumptions"},
 {"id": "c13-break-remainder", "prop": "C13", "file": _EO, "old": "                    if num.sympy is not S.Zero:\n                        cancelled_result += \\\n                            pref * self.eri * num / multiply(denom)\n                    break", "new": "                    break"},
 {"id": "c13-split-abs", "prop": "C13", "file": "adcgen/expr_container.py", "old": "                key = 'remainder'\n            ret[key] *= Pow(base, exponent)", "new": "                key = 'remainder'\n            ret[key] *= Pow(base, abs(exponent))"},
 {"id": "c13-split-key", "prop": "C13", "file": "adcgen/expr_container.py", "old": "                key = \"denom\" if exponent < 0 else \"num\"\n                exponent = abs(exponent)", "new": "                key = \"denom\" if exponent <= 0 else \"num\"\n                exponent = abs(exponent)"},
 {"id": "c13-fock-chain", "prop": "C13", "file": "adcgen/expr_container.py", "old": "                seen.add(new)\n                new = sub[new]\n            sub[old] = new", "new": "                seen.add(new)\n                new = sub[new]\n            sub[old] = sub[old]"},
 {"id": "c13-symbolic-denom-sign", "prop": "C13", "file": _EO, "old": "                if pref is S.One:\n                    signs['+'].add(idx[0])\n                elif pref is S.NegativeOne:\n                    signs['-'].add(idx[0])", "new": "                if pref is S.One:\n                    signs['-'].add(idx[0])\n                elif pref is S.NegativeOne:\n                    signs['+'].add(idx[0])"},
]
_SO = "adcgen/spatial_orbitals.py"
MUTANTS += [
 {"id": "c15-undo-lost", "prop": "C15", "file": _SO, "old": "        variant[\"a\"].difference_update(addition[\"a\"])\n", "new": ""},
 {"id": "c15-clash-test", "prop": "C15", "file": _SO, "old": "        if idx_map[\"a\"] & variant[\"b\"] or idx_map[\"b\"] & variant[\"a\"]:\n            continue\n        # compute the indices which are added", "new": "        if idx_map[\"a\"] & variant[\"b\"]:\n            continue\n        # compute the indices which are added"},
 {"id": "c15-undo-too-much", "prop": "C15", "file": _SO, "old": "        addition = {\"a\": tuple(idx for idx in idx_map[\"a\"]\n                               if idx not in variant[\"a\"]),", "new": "        addition = {\"a\": tuple(idx for idx in idx_map[\"a\"]),"},
 {"id": "c15-variants-alias", "prop": "C15", "file": _SO, "old": "                        complete_variant = {\n                            sp: indices.copy() for sp, indices in idx_map.items()\n                        }", "new": "                        complete_variant = idx_map.copy()"},
 {"id": "c15-no-table-dropped", "prop": "C15", "file": _SO, "old": "        if not term_spin_idx_maps:\n            combinations.append({\"a\": set(), \"b\": set()})", "new": "        pass"},
 {"id": "c15-target-filter", "prop": "C15", "file": _SO, "old": "                    if idx in target_idx_spin_map and \\\n                            spin != target_idx_spin_map[idx]:", "new": "                    if idx in target_idx_spin_map and \\\n                            spin == target_idx_spin_map[idx]:"},
 {"id": "c15-combine-clash", "prop": "C15", "file": _SO, "old": "                if idx_map[\"a\"] & addition[\"b\"] or \\\n                        idx_map[\"b\"] & addition[\"a\"]:\n                    continue", "new": "                if idx_map[\"a\"] & addition[\"b\"]:\n                    continue"},
 {"id": "c15-eri-expansion", "prop": "C15", "file": "adcgen/expr_container.py", "old": "            if p.spin == s.spin and q.spin == r.spin:\n                res -= SymmetricTensor", "new": "            if p.spin == r.spin and q.spin == s.spin:\n                res -= SymmetricTensor"},
]
HARMLESS += [
 # defensive guard: after spin integration every index name occurs with one spin only
 {"id": "c15-h-restricted-collision", "prop": "C15", "file": _SO, "old": "            if new in idx:\n                raise RuntimeError(", "new": "            if False:\n                raise RuntimeError("},
]
_SE = "adcgen/sort_expr.py"
MUTANTS += [
 {"id": "c10-bucket-overwrite", "prop": "C10", "file": _SE, "old": "        if d_blocks not in ret:\n            ret[d_blocks] = e.Expr(0, **term.assumptions)\n        ret[d_blocks] += term", "new": "        ret[d_blocks] = e.Expr(0, **term.assumptions)\n        ret[d_blocks] += term"},
 {"id": "c10-drop-none", "prop": "C10", "file": _SE, "old": "        if not t_blocks:\n            t_blocks = (\"none\",)\n        if t_blocks not in ret:", "new": "        if not t_blocks:\n            continue\n        if t_blocks not in ret:"},
 {"id": "c10-double-add", "prop": "C10", "file": _SE, "old": "        if d_idx not in ret:\n            ret[d_idx] = e.Expr(0, **term.assumptions)\n        ret[d_idx] += term", "new": "        if d_idx not in ret:\n            ret[d_idx] = e.Expr(0, **term.assumptions)\n            ret[d_idx] += term\n        ret[d_idx] += term"},
 {"id": "c10-wrong-key", "prop": "C10", "file": _SE, "old": "                block = delta.space\n            else:\n                block = f\"{delta.space}_{spin}\"\n            d_blocks.extend", "new": "                block = delta.spin\n            else:\n                block = f\"{delta.space}_{spin}\"\n            d_blocks.extend"},
 {"id": "c10-target-key", "prop": "C10", "file": _SE, "old": "                tensor_target = [s for s in tensor.idx if s in target]", "new": "                tensor_target = [s for s in tensor.idx if s not in target]"},
 {"id": "c10-symmetry-sign", "prop": "C10", "file": "adcgen/expr_container.py", "old": "                symmetry[perms] = -1\n", "new": "                symmetry[perms] = +1\n"},
]
MUTANTS += [
 {"id": "c07-key-term-lost", "prop": "C07", "file": _SI, "old": "    for n, matches in equal_terms.items():\n        res += terms[n]\n", "new": "    for n, matches in equal_terms.items():\n"},
 {"id": "c07-wrong-term", "prop": "C07", "file": _SI, "old": "            res += terms[other_n].subs(sub)", "new": "            res += terms[n].subs(sub)"},
 {"id": "c07-no-subs", "prop": "C07", "file": _SI, "old": "            res += terms[other_n].subs(sub)", "new": "            res += terms[other_n]"},
 {"id": "c07-accept-any", "prop": "C07", "file": _SI, "old": "            if not isinstance(term.sympy - sub_other_term, Add):\n                return sub", "new": "            return sub"},
]
HARMLESS += [
 # redundant guard: terms whose target indices sit on different positions never share a prefilter key
 {"id": "c07-h-target-map", "prop": "C07", "file": _SI, "old": "                    if is_target != other_is_target or \\\n                            (is_target and other_is_target and\n                             idx is not other_idx):\n                        continue", "new": "                    if is_target != other_is_target:\n                        continue"},
]
_IX = "adcgen/indices.py"
_EC = "adcgen/expr_container.py"
MUTANTS += [
 {"id": "c08-cycle-temp", "prop": "C08", "file": _IX, "old": "                subs.append((o, p))\n                final_subs.append((p, n))", "new": "                subs.append((o, n))"},
 {"id": "c08-chain-order", "prop": "C08", "file": _IX, "old": "                final_subs.insert(0, (o, n))", "new": "                subs.append((o, n))"},
 {"id": "c08-identity-skip", "prop": "C08", "file": _IX, "old": "        if (other_n := subsdict.get(n, None)) is not None:\n            if other_n in subsdict:", "new": "        if (other_n := subsdict.get(n, None)) is not None:\n            if other_n not in subsdict:"},
 {"id": "c08-permute-direction", "prop": "C08", "file": _EC, "old": "                if new is p:\n                    sub[old] = q\n                    del addition[p]", "new": "                if new is p:\n                    sub[old] = p\n                    del addition[p]"},
 {"id": "c08-permute-update", "prop": "C08", "file": _EC, "old": "            if addition:\n                sub.update(addition)", "new": "            sub.update({p: q, q: p})"},
 {"id": "c08-lowest-offbyone", "prop": "C08", "file": _IX, "old": "    required = len(used) + n  # the number", "new": "    required = n  # the number"},
 {"id": "c08-lowest-suffix", "prop": "C08", "file": _IX, "old": "    suffix = 1\n    while len(idx) < required:", "new": "    suffix = 0\n    while len(idx) < required:"},
 {"id": "c08-registry-new-object", "prop": "C08", "file": _IX, "old": "            if symbol is not None:\n                ret[key].append(symbol)\n                continue", "new": "            if symbol is not None and False:\n                ret[key].append(symbol)\n                continue"},
 {"id": "c08-generic-reuse", "prop": "C08", "file": _IX, "old": "        new_idx = [idx + counter for idx in self.base[space]\n                   if idx + counter not in used_names]", "new": "        new_idx = [idx + counter for idx in self.base[space]]"},
 {"id": "c08-subst-target", "prop": "C08", "file": _EC, "old": "        for s in set(self.target):\n            if (key := s.space_and_spin) not in used:", "new": "        for s in set():\n            if (key := s.space_and_spin) not in used:"},
 {"id": "c19-cache-psi", "prop": "C19", "file": "adcgen/groundstate.py", "old": "    def psi(self, order: int, braket: str):", "new": "    @cached_member\n    def psi(self, order: int, braket: str):"},
 {"id": "c19-hash-decides", "prop": "C19", "file": _IX, "old": "                idx.name[0],\n                idx.name,\n", "new": "                idx.name[0],\n"},
 {"id": "c19-hardcoded-name", "prop": "C19", "file": "adcgen/groundstate.py", "old": "        tensor_name = f\"{tensor_names.gs_amplitude}{order}\"", "new": "        tensor_name = f\"t{order}\""},
 {"id": "c19-set-iteration", "prop": "C19", "file": _EC, "old": "        for s in self.contracted:\n            if (key := s.space_and_spin) not in contracted:\n                contracted[key] = []\n            contracted[key].append(s)\n        used = {}", "new": "        for s in set(self.contracted):\n            if (key := s.space_and_spin) not in contracted:\n                contracted[key] = []\n            contracted[key].append(s)\n        used = {}"},
]
_FU = "adcgen/func.py"
MUTANTS += [
 {"id": "c18-denominator-kind", "prop": "C18", "file": _FU, "old": "            elif name in (tensor_names.coulomb, tensor_names.sym_orb_denom):", "new": "            elif name == tensor_names.coulomb:"},
 {"id": "c18-spin-label", "prop": "C18", "file": _FU, "old": "                idx.extend(get_symbols(names[-1], spin[0]))", "new": "                idx.extend(get_symbols(names[0], spin[0]))"},
 {"id": "c18-exponent-lost", "prop": "C18", "file": _FU, "old": "        return Pow(base, exponent)\n\n    def import_obj", "new": "        return base\n\n    def import_obj"},
 {"id": "c18-index-latex", "prop": "C18", "file": "adcgen/indices.py", "old": "            spin = \"alpha\" if spin == \"a\" else \"beta\"", "new": "            spin = \"alpha\""},
 {"id": "c18-sign", "prop": "C18", "file": _FU, "old": "        sympy_term = -1 if sign == '-' else +1", "new": "        sympy_term = +1"},
]
_GC = "adcgen/generate_code/generate_code.py"
MUTANTS += [
 {"id": "c17-einsum-holes", "prop": "C17", "file": _GC, "old": "        contr_str = f\"\\\"{','.join(indices)}->{target}\\\"\"", "new": "        contr_str = f\"\\\"{','.join(indices[::-1])}->{target}\\\"\""},
 {"id": "c17-einsum-bare", "prop": "C17", "file": _GC, "old": "    if len(tensors) == 1 and indices[0] == target:", "new": "    if len(tensors) == 1:"},
 {"id": "c17-libtensor-dot", "prop": "C17", "file": _GC, "old": "        elif contracted and not target:  # inner product\n            components.append(f\"dot_product({', '.join(tensors)})\")", "new": "        elif contracted and not target:  # inner product\n            components.extend(tensors)"},
 {"id": "c17-perm-sign", "prop": "C17", "file": _GC, "old": "        contrib = [\"+ \"] if factor == 1 else [\"- \"]", "new": "        contrib = [\"+ \"] if factor == -1 else [\"- \"]"},
 {"id": "c17-prefactor-sign", "prop": "C17", "file": _GC, "old": "    if number_pref < 0:\n        sign = \"-\"\n        number_pref *= -1", "new": "    if number_pref < 0:\n        sign = \"-\""},
 {"id": "c17-target-string", "prop": "C17", "file": _GC, "old": "    target = \"\".join(idx.name for idx in contraction.target)", "new": "    target = \"\".join(idx.name for idx in sorted(contraction.target, key=lambda s: s.name))"},
 {"id": "c17-quarter", "prop": "C17", "file": _GC, "old": "    elif prefactor in [Rational(1, 2), Rational(1, 4)]:  # simple Rational\n        return str(float(prefactor))", "new": "    elif prefactor in [Rational(1, 2), Rational(1, 4)]:  # simple Rational\n        return str(float(prefactor * 2))"},
 {"id": "c17-adcc-name", "prop": "C17", "file": _GC, "old": "    elif name.startswith(tensor_names.fock):\n        space = \"\".join(s.space[0] for s in indices)\n        return f\"hf.f{space}\"", "new": "    elif name.startswith(tensor_names.fock):\n        space = \"\".join(s.space[0] for s in indices[::-1])\n        return f\"hf.f{space}\""},
]
_DV = "adcgen/derivative.py"
MUTANTS += [
 {"id": "c14-exponent-kept", "prop": "C14", "file": _SI, "old": "            remaining_term *= Pow(base, exponent - 1)", "new": "            remaining_term *= Pow(base, exponent)"},
 {"id": "c14-later-occurrences-lost", "prop": "C14", "file": _SI, "old": "        for remaining_t in tensors[1:]:\n            remaining_term *= remaining_t", "new": "        for remaining_t in tensors[2:]:\n            remaining_term *= remaining_t"},
 {"id": "c14-exponent-refusal", "prop": "C14", "file": _SI, "old": "        elif exponent < 1:\n            raise NotImplementedError(\"Did not implement the case of removing \"", "new": "        elif exponent < 0:\n            raise NotImplementedError(\"Did not implement the case of removing \""},
 {"id": "c14-deriv-power-rule", "prop": "C14", "file": _DV, "old": "                symmetrized_deriv_contrib.subs(x, obj.base)", "new": "                symmetrized_deriv_contrib.subs(x, obj)"},
 {"id": "c14-deriv-symfactor", "prop": "C14", "file": _DV, "old": "            deriv_contrib *= Rational(1, len(tensor_sym) + 1)", "new": "            deriv_contrib *= Rational(1, len(tensor_sym))"},
 {"id": "c14-deriv-product-rule", "prop": "C14", "file": _DV, "old": "                if i != other_i:\n                    deriv_contrib *= other_obj", "new": "                if i < other_i:\n                    deriv_contrib *= other_obj"},
 {"id": "c14-remove-braket-half", "prop": "C14", "file": _SI, "old": "        if bra_ket_sym is not None and bra_ket_sym is not S.Zero:\n            term *= Rational(1, 2)", "new": "        if bra_ket_sym is not None:\n            term *= Rational(1, 2)"},
]
HARMLESS += [
 # target indices on the removed tensor are replaced by fresh indices + deltas before the
 # minimisation, so the minimised tensor never needs a sign (dead path)
 {"id": "c14-h-remove-sign", "prop": "C14", "file": _SI, "old": "        # if we got a -1 -> move to the term\n        term *= tensor.prefactor", "new": "        # if we got a -1 -> move to the term\n        term *= 1"},
]
_IT = "adcgen/intermediates.py"
MUTANTS += [
 {"id": "c11-contracted-shared", "prop": "C11", "file": _IT, "old": "            for old, sp in zip(base_contracted, spaces):\n                subs[old] = contracted[sp].pop()", "new": "            for old, sp in zip(base_contracted, spaces):\n                subs[old] = contracted[sp][-1]"},
 {"id": "c11-target-order", "prop": "C11", "file": _IT, "old": "            subs.update({o: n for o, n in zip(base_target, indices)})", "new": "            subs.update({o: n for o, n in zip(base_target, indices[::-1])})"},
 {"id": "c11-contracted-not-renamed", "prop": "C11", "file": _IT, "old": "        if (base_contracted := expanded_itmd.contracted) is not None:\n            spaces =", "new": "        if (base_contracted := expanded_itmd.contracted) is not None and False:\n            spaces ="},
 {"id": "c11-result-target", "prop": "C11", "file": _IT, "old": "            itmd = e.Expr(itmd, target_idx=indices)\n        return itmd\n\n    def tensor", "new": "            itmd = e.Expr(itmd)\n        return itmd\n\n    def tensor"},
]
HARMLESS += [
 # over-factoring is compensated by a negative bracket exponent: t^2 * D = V^2 / D (same value)
 {"id": "c11-h-factor-minexp", "prop": "C11", "file": _IT, "old": "                        min_exp = min(eri_exp, bk_exponent)", "new": "                        min_exp = max(eri_exp, bk_exponent)"},
]

MUTANTS += [
 {"id": "c16-group-limit-growth", "prop": "C16", "file": _OC,
  "old": "            if new_positions == positions or \\\n                    len(new_positions) > max_group_size:\n                break",
  "new": "            if new_positions == positions:\n                break"},
 {"id": "c16-group-limit-initial", "prop": "C16", "file": _OC,
  "old": "        if len(positions) > max_group_size:\n            continue",
  "new": "        if len(positions) > max_group_size + 1:\n            continue"},
]
HARMLESS += [
 {"id": "c16-h-group-limit-strict", "prop": "C16", "file": _OC,
  "old": "        if len(positions) > max_group_size:\n            continue",
  "new": "        if not len(positions) <= max_group_size:\n            continue"},
]

_IS = "adcgen/intermediate_states.py"
MUTANTS += [
 {"id": "c04-precursor-lower-factor", "prop": "C04", "file": _IS,
  "old": "                1, factorial(n_ov_lower[\"occ\"]) * factorial(n_ov_lower[\"virt\"])\n            )",
  "new": "                1, factorial(n_ov_lower[\"occ\"]) * factorial(n_ov_lower[\"occ\"])\n            )"},
 {"id": "c04-precursor-gs-projector-order", "prop": "C04", "file": _IS,
  "old": "                        state = get_gs_wfn(term[0], 'ket')",
  "new": "                        state = get_gs_wfn(term[1], 'ket')"},
 {"id": "c04-precursor-no-gs-projection", "prop": "C04", "file": _IS,
  "old": "        if self.variant == \"pp\":\n            # import all ground state wave functions",
  "new": "        if self.variant == \"pp\" and order > 1:\n            # import all ground state wave functions"},
 {"id": "c04-precursor-sign", "prop": "C04", "file": _IS,
  "old": "                    projection += (prefactor * state * i1).expand()\n                projection = evaluate_deltas(projection)\n                res -= (norm * projection).expand()",
  "new": "                    projection += (prefactor * state * i1).expand()\n                projection = evaluate_deltas(projection)\n                res += (norm * projection).expand()"},
 {"id": "c04-precursor-lower-bra", "prop": "C04", "file": _IS,
  "old": "                        i1 = (self.intermediate_state(order=term[1],\n                                                      space=lower_space,\n                                                      braket=\"bra\",",
  "new": "                        i1 = (self.intermediate_state(order=term[1],\n                                                      space=lower_space,\n                                                      braket=\"ket\","},
 {"id": "c03-precursor-cache-range", "prop": "C03", "file": _IS,
  "old": "            def get_gs_wfn(o, bk): return gs_psi[bk][o] if o > order//2 else \\",
  "new": "            def get_gs_wfn(o, bk): return gs_psi[bk][o] if o >= order//2 else \\"},
]
HARMLESS += [
 {"id": "c04-h-precursor-skip-zero", "prop": "C04", "file": _IS,
  "old": "                    i1 = wicks(i1, simplify_kronecker_deltas=True)\n                    projection += (prefactor * state * i1).expand()",
  "new": "                    i1 = wicks(i1, simplify_kronecker_deltas=True)\n                    if i1 is S.Zero:\n                        continue\n                    projection += (prefactor * state * i1).expand()"},
]

MUTANTS += [
 {"id": "c09-ed-kill-target", "prop": "C09", "file": "adcgen/func.py",
  "old": "            if killable not in target_idx:\n                expr = expr.subs(killable, preferred)",
  "new": "            if killable not in target_idx or preferred in target_idx:\n                expr = expr.subs(killable, preferred)"},
 {"id": "c09-ed-no-equal-information", "prop": "C09", "file": "adcgen/func.py",
  "old": "            elif preferred not in target_idx \\\n                    and d.indices_contain_equal_information:",
  "new": "            elif preferred not in target_idx:"},
 {"id": "c09-ed-subs-direction", "prop": "C09", "file": "adcgen/func.py",
  "old": "            if killable not in target_idx:\n                expr = expr.subs(killable, preferred)",
  "new": "            if killable not in target_idx:\n                expr = expr.subs(preferred, killable)"},
 {"id": "c09-ed-targets-twice", "prop": "C09", "file": "adcgen/func.py",
  "old": "            target_idx = [s for s, n in indices.items() if not n]",
  "new": "            target_idx = [s for s, n in indices.items() if n > 1]"},
 {"id": "c09-ed-recursion-targets", "prop": "C09", "file": "adcgen/func.py",
  "old": "                expr = expr.subs(killable, preferred)\n                if len(deltas) > 1:\n                    return evaluate_deltas(expr, target_idx)",
  "new": "                expr = expr.subs(killable, preferred)\n                if len(deltas) > 1:\n                    return evaluate_deltas(expr)"},
]

MUTANTS += [
 {"id": "c18-latex-delta-separator", "prop": "C18", "file": "adcgen/sympy_objects.py",
  "old": "\"\\\\delta_{\" + \" \".join(s._latex(printer) for s in self.args) + \"}\"",
  "new": "\"\\\\delta_{\" + \"\".join(s._latex(printer) for s in self.args) + \"}\""},
 {"id": "c18-latex-index-spin", "prop": "C18", "file": "adcgen/indices.py",
  "old": "            spin = \"alpha\" if spin == \"a\" else \"beta\"",
  "new": "            spin = \"alpha\" if spin == \"b\" else \"beta\""},
 {"id": "c18-latex-upper-lower", "prop": "C18", "file": "adcgen/sympy_objects.py",
  "old": "            \"\".join([i._latex(printer) for i in self.args[1]]),\n            \"\".join([i._latex(printer) for i in self.args[2]])",
  "new": "            \"\".join([i._latex(printer) for i in self.args[2]]),\n            \"\".join([i._latex(printer) for i in self.args[1]])"},
]

_GS = "adcgen/groundstate.py"
MUTANTS += [
 {"id": "c02-expval-orders-swapped", "prop": "C02", "file": _GS,
  "old": "                i1 = wfn[term[0]]['bra'] * op * wfn[term[1]]['ket']",
  "new": "                i1 = wfn[term[1]]['bra'] * op * wfn[term[0]]['bra']"},
 {"id": "c02-expval-table-too-short", "prop": "C02", "file": _GS,
  "old": "        for o in range(order + 1):\n            wfn[o] = {}",
  "new": "        for o in range(order):\n            wfn[o] = {}"},
 {"id": "c02-expval-no-norm", "prop": "C02", "file": _GS,
  "old": "            res += (norm * d).expand()\n        return simplify(Expr(res)).sympy",
  "new": "            res += d\n        return simplify(Expr(res)).sympy"},
 {"id": "c02-expval-operator-rank", "prop": "C02", "file": _GS,
  "old": "        op, rules = self.h.operator(n_create=n_particles,\n                                    n_annihilate=n_particles)",
  "new": "        op, rules = self.h.operator(n_create=n_particles,\n                                    n_annihilate=n_particles - 1)"},
]

MUTANTS += [
 {"id": "c02-norm-factor-wrong-overlap-order", "prop": "C02", "file": _GS,
  "old": "                    i1 *= self.overlap(o)\n                    if i1 is S.Zero:",
  "new": "                    i1 *= self.overlap(order)\n                    if i1 is S.Zero:"},
 {"id": "c02-norm-factor-sign", "prop": "C02", "file": _GS,
  "old": "                norm_factor += i1.expand()\n        logger.debug(f\"norm_factor",
  "new": "                norm_factor -= i1.expand()\n        logger.debug(f\"norm_factor"},
 {"id": "c02-norm-factor-min-order", "prop": "C02", "file": _GS,
  "old": "        taylor_expansion = self.expand_norm_factor(order=order, min_order=2)\n        norm_factor = 0",
  "new": "        taylor_expansion = self.expand_norm_factor(order=order, min_order=1)\n        norm_factor = 0"},
 {"id": "c02-norm-factor-break-drops-term", "prop": "C02", "file": _GS,
  "old": "                    if i1 is S.Zero:\n                        break\n                norm_factor += i1.expand()",
  "new": "                    if i1 is not S.Zero:\n                        break\n                norm_factor += i1.expand()"},
]

_GCF = "adcgen/generate_code/generate_code.py"
MUTANTS += [
 {"id": "c17-gc-block-separator", "prop": "C17", "file": _GCF,
  "old": "    return \"\\n\\n\".join(code)", "new": "    return \"\\n\".join(code)"},
 {"id": "c17-gc-separator-kept-in-targets", "prop": "C17", "file": _GCF,
  "old": "    if \",\" in target_indices:\n        target_indices = target_indices.replace(\",\", \"\")",
  "new": "    if \",\" in target_indices:\n        target_indices = target_indices"},
 {"id": "c17-gc-limits-dropped", "prop": "C17", "file": _GCF,
  "old": "                    target_spin=target_spin, max_itmd_dim=max_itmd_dim,\n",
  "new": "                    target_spin=target_spin, max_itmd_dim=None,\n"},
 {"id": "c17-gc-inner-not-cached", "prop": "C17", "file": _GCF,
  "old": "                contraction_cache[contr.contraction_name] = contr_str\n",
  "new": "                contraction_cache[contr.contraction_name + '_'] = contr_str\n"},
 {"id": "c17-gc-prefactor-only-term-dropped", "prop": "C17", "file": _GCF,
  "old": "                contraction_code.append(prefactor)\n                continue",
  "new": "                continue"},
]

HARMLESS += [
 {"id": "c17-h-gc-replace-unconditional", "prop": "C17", "file": _GCF,
  "old": "    if \",\" in target_indices:\n        target_indices = target_indices.replace(\",\", \"\")",
  "new": "    target_indices = target_indices.replace(\",\", \"\")"},
 {"id": "c04-h-precursor-factor-order", "prop": "C04", "file": _IS,
  "old": "                    projection += (prefactor * state * i1).expand()",
  "new": "                    projection += (state * i1 * prefactor).expand()"},
 {"id": "c02-h-norm-factor-no-early-exit", "prop": "C02", "file": _GS,
  "old": "                    if i1 is S.Zero:\n                        break\n                norm_factor += i1.expand()",
  "new": "                norm_factor += i1.expand()"},
 {"id": "c09-h-ed-membership-order", "prop": "C09", "file": "adcgen/func.py",
  "old": "            elif preferred not in target_idx \\\n                    and d.indices_contain_equal_information:",
  "new": "            elif d.indices_contain_equal_information \\\n                    and preferred not in target_idx:"},
]

_EO = "adcgen/eri_orbenergy.py"
MUTANTS += [
 {"id": "c13-des-sign", "prop": "C13", "file": _EO,
  "old": "                ret[perms] = factor * -1  # P_pq Denom = -Denom -> -1",
  "new": "                ret[perms] = factor  # P_pq Denom = -Denom -> -1"},
 {"id": "c13-des-kwargs-second-branch", "prop": "C13", "file": _EO,
  "old": "            eri_sym = self.eri.symmetry(**kwargs)\n",
  "new": "            eri_sym = self.eri.symmetry()\n"},
 {"id": "c13-des-changed-denominator-kept", "prop": "C13", "file": _EO,
  "old": "            else:  # permutation changes the denominator\n                ret[perms] = None",
  "new": "            else:  # permutation changes the denominator\n                ret[perms] = factor"},
]

MUTANTS += [
 {"id": "c04-sroot-no-class-weight", "prop": "C04", "file": _IS,
  "old": "                i1 = pref * sum_pref ** (len(term) - 1)",
  "new": "                i1 = pref"},
 {"id": "c04-sroot-weight-per-factor", "prop": "C04", "file": _IS,
  "old": "                i1 = pref * sum_pref ** (len(term) - 1)",
  "new": "                i1 = pref * sum_pref ** len(term)"},
 {"id": "c04-sroot-chain-broken", "prop": "C04", "file": _IS,
  "old": "                        order=o, block=block, indices=tuple(relevant_idx[:2])\n                    )\n                    del relevant_idx[0]",
  "new": "                        order=o, block=block, indices=tuple(relevant_idx[:2])\n                    )"},
 {"id": "c04-sroot-min-order", "prop": "C04", "file": _IS,
  "old": "        taylor_expansion = self.expand_S_taylor(order, min_order=2)\n        # create an index list",
  "new": "        taylor_expansion = self.expand_S_taylor(order, min_order=1)\n        # create an index list"},
]

_PRF = "adcgen/properties.py"
_SMF = "adcgen/secular_matrix.py"
MUTANTS += [
 {"id": "c05-expval-right-block-from-left", "prop": "C05", "file": _PRF,
  "old": "            block = (l_block[0], r_block[1])\n\n            if order is None:",
  "new": "            block = (l_block[0], l_block[1])\n\n            if order is None:"},
 {"id": "c05-expval-order-filter", "prop": "C05", "file": _PRF,
  "old": "            if order is not None and max_order < order:\n                continue\n            # combine the two spaces",
  "new": "            if order is not None and max_order <= order:\n                continue\n            # combine the two spaces"},
 {"id": "c05-expval-block-table-offdiagonal", "prop": "C05", "file": _SMF,
  "old": "                ret[block] = diag - dif", "new": "                ret[block] = diag"},
 {"id": "c03-space-orders-table", "prop": "C03", "file": _SMF,
  "old": "            ret[space] = order - i", "new": "            ret[space] = order - 2 * i"},
]

MUTANTS += [
 {"id": "c03-mvp-row-by-ket-space", "prop": "C03", "file": _SMF,
  "old": "            if space != block[0] or (order is not None and max_order < order):",
  "new": "            if space != block[1] or (order is not None and max_order < order):"},
 {"id": "c03-mvp-orders-off-by-one", "prop": "C03", "file": _SMF,
  "old": "                for o in range(max_order + 1):\n                    mvp += self.mvp_block_order(",
  "new": "                for o in range(max_order):\n                    mvp += self.mvp_block_order("},
]

MUTANTS += [
 {"id": "c09-ed-sum-drops-targets", "prop": "C09", "file": "adcgen/func.py",
  "old": "        return expr.func(*[evaluate_deltas(arg, target_idx)\n                           for arg in expr.args])",
  "new": "        return expr.func(*[evaluate_deltas(arg)\n                           for arg in expr.args])"},
]
MUTANTS += [
 {"id": "c10-objsym-base-only", "prop": "C10", "file": "adcgen/expr_container.py", "old": "        new_expr = Expr(self.sympy, **assumptions)\n        return new_expr.terms[0].symmetry(only_target=True)", "new": "        new_expr = Expr(self.base, **assumptions)\n        return new_expr.terms[0].symmetry(only_target=True)"},
 {"id": "c10-objsym-all-indices", "prop": "C10", "file": "adcgen/expr_container.py", "old": "        if only_contracted:\n            indices = self.term.contracted\n        elif only_target:\n            indices = self.term.target\n        else:\n            indices = self.idx\n        assumptions = self.assumptions", "new": "        if only_contracted:\n            indices = self.term.contracted\n        elif only_target:\n            indices = self.idx\n        else:\n            indices = self.idx\n        assumptions = self.assumptions"},
]
HARMLESS += [
 {"id": "h-c10-objsym-local", "prop": "C10", "file": "adcgen/expr_container.py", "old": "        new_expr = Expr(self.sympy, **assumptions)\n        return new_expr.terms[0].symmetry(only_target=True)", "new": "        probe = Expr(self.sympy, **assumptions).terms[0]\n        return probe.symmetry(only_target=True)"},
]
MUTANTS += [
 {"id": "c19-split-density-by-amplitude-length", "prop": "C19", "file": "adcgen/tensor_names.py", "old": "    n = len(tensor_names.gs_density)\n", "new": "    n = len(tensor_names.gs_amplitude)\n"},
 {"id": "c19-split-amplitude-default-length", "prop": "C19", "file": "adcgen/tensor_names.py", "old": "    n = len(tensor_names.gs_amplitude)\n    return name[:n], name[n:]", "new": "    n = 1\n    return name[:n], name[n:]"},
]
HARMLESS += [
 {"id": "h-c19-split-local", "prop": "C19", "file": "adcgen/tensor_names.py", "old": "    n = len(tensor_names.gs_density)\n    return name[:n], name[n:]", "new": "    base = tensor_names.gs_density\n    return name[:len(base)], name[len(base):]"},
]
MUTANTS += [
 {"id": "c06-addbk-base-class", "prop": "C06", "file": "adcgen/sympy_objects.py", "old": "            return self.__class__(self.symbol, self.upper, self.lower,\n                                  bra_ket_sym)", "new": "            return AntiSymmetricTensor(self.symbol, self.upper, self.lower,\n                                       bra_ket_sym)"},
 {"id": "c06-addbk-overwrites", "prop": "C06", "file": "adcgen/sympy_objects.py", "old": "        elif self.bra_ket_sym is S.Zero:\n            return self.__class__(", "new": "        elif self.bra_ket_sym is not S.One:\n            return self.__class__("},
 {"id": "c06-addbk-swapped-indices", "prop": "C06", "file": "adcgen/sympy_objects.py", "old": "            return self.__class__(self.symbol, self.upper, self.lower,\n                                  bra_ket_sym)", "new": "            return self.__class__(self.symbol, self.lower, self.upper,\n                                  bra_ket_sym)"},
]
_OC = "adcgen/generate_code/optimize_contractions.py"
MUTANTS += [
 {"id": "c16-rank-keeps-worse", "prop": "C16", "file": _OC, "old": "if optimal_scaling is None or scaling < optimal_scaling:", "new": "if optimal_scaling is None or scaling > optimal_scaling:"},
 {"id": "c16-rank-min-instead-of-max", "prop": "C16", "file": _OC, "old": "                [max(comp_values), comp_values.count(max(comp_values))]", "new": "                [min(comp_values), comp_values.count(max(comp_values))]"},
 {"id": "c16-rank-memory-first", "prop": "C16", "file": _OC, "old": "        scaling.extend(mem)\n", "new": "        mem.extend(scaling)\n        scaling = mem\n"},
 {"id": "c16-rank-memory-ignored", "prop": "C16", "file": _OC, "old": "        scaling.extend(mem)\n", "new": ""},
 {"id": "c16-rank-first-scheme-only", "prop": "C16", "file": _OC, "old": "if optimal_scaling is None or scaling < optimal_scaling:", "new": "if optimal_scaling is None:"},
 {"id": "c16-extract-ignores-exponent", "prop": "C16", "file": _OC, "old": "        name, indices = obj.longname(), obj.idx\n        relevant_obj_names.extend(name for _ in range(exp))\n        relevant_obj_indices.extend(indices for _ in range(exp))\n    assert len(relevant_obj_names) == len(relevant_obj_indices)\n\n    if not relevant_obj_names:", "new": "        name, indices = obj.longname(), obj.idx\n        relevant_obj_names.append(name)\n        relevant_obj_indices.append(indices)\n    assert len(relevant_obj_names) == len(relevant_obj_indices)\n\n    if not relevant_obj_names:"},
 {"id": "c16-extract-skips-deltas", "prop": "C16", "file": _OC, "old": "        elif isinstance(base, Symbol):  # skip symbolic prefactor\n            continue\n        elif not isinstance(base, (SymbolicTensor, KroneckerDelta)):\n            raise NotImplementedError(\"Contractions can only be optimized for \"", "new": "        elif isinstance(base, (Symbol, KroneckerDelta)):  # skip symbolic prefactor\n            continue\n        elif not isinstance(base, (SymbolicTensor, KroneckerDelta)):\n            raise NotImplementedError(\"Contractions can only be optimized for \""},
 {"id": "c16-limits-swapped", "prop": "C16", "file": _OC, "old": "        target_indices=target_indices, max_itmd_dim=max_itmd_dim,\n        max_n_simultaneous_contracted=max_n_simultaneous_contracted\n    )\n    # go through", "new": "        target_indices=target_indices, max_itmd_dim=max_n_simultaneous_contracted,\n        max_n_simultaneous_contracted=max_itmd_dim\n    )\n    # go through"},
 {"id": "c16-single-object-canonical-target", "prop": "C16", "file": _OC, "old": "                            names=tuple(relevant_obj_names),\n                            term_target_indices=target_indices)]", "new": "                            names=tuple(relevant_obj_names),\n                            term_target_indices=term.target)]"},
 {"id": "c16-unopt-drops-spin", "prop": "C16", "file": _OC, "old": "        target_indices = tuple(get_symbols(target_indices, target_spin))\n    # extract the relevant part of the term", "new": "        target_indices = tuple(get_symbols(target_indices))\n    # extract the relevant part of the term"},
]
HARMLESS += [
 {"id": "h-c16-rank-ties-last", "prop": "C16", "file": _OC, "old": "if optimal_scaling is None or scaling < optimal_scaling:", "new": "if optimal_scaling is None or scaling <= optimal_scaling:"},
 {"id": "h-c16-rank-max-once", "prop": "C16", "file": _OC, "old": "            scaling.extend(\n                [max(comp_values), comp_values.count(max(comp_values))]\n            )", "new": "            comp_max = max(comp_values)\n            scaling.extend([comp_max, comp_values.count(comp_max)])"},
]
_EC = "adcgen/expr_container.py"
MUTANTS += [
 {"id": "c06-applybk-only-plain-antisym", "prop": "C06", "file": _EC, "old": "        base, exponent = self.base_and_exponent\n        if isinstance(base, AntiSymmetricTensor):\n            bra_ket_sym = None", "new": "        base, exponent = self.base_and_exponent\n        if self.type_as_str in (\"antisymtensor\", \"amplitude\"):\n            bra_ket_sym = None"},
 {"id": "c06-applybk-drops-exponent", "prop": "C06", "file": _EC, "old": "                obj_with_sym = Pow(base.add_bra_ket_sym(bra_ket_sym),\n                                   exponent)", "new": "                obj_with_sym = base.add_bra_ket_sym(bra_ket_sym)"},
 {"id": "c06-applybk-antisym-gets-sym", "prop": "C06", "file": _EC, "old": "                    base.bra_ket_sym is not S.NegativeOne:\n                bra_ket_sym = -1", "new": "                    base.bra_ket_sym is not S.NegativeOne:\n                bra_ket_sym = 1"},
 {"id": "c06-applybk-loses-assumptions", "prop": "C06", "file": _EC, "old": "        if return_sympy:\n            return obj_with_sym\n        return Expr(obj_with_sym, **self.assumptions)", "new": "        if return_sympy:\n            return obj_with_sym\n        return Expr(obj_with_sym)"},
]
MUTANTS += [
 {"id": "c10-termsym-plus-for-both", "prop": "C10", "file": _EC, "old": "            elif original_term - permuted is S.Zero:\n                symmetry[perms] = +1", "new": "            elif original_term + permuted is not S.Zero:\n                symmetry[perms] = +1"},
 {"id": "c10-termsym-compares-unpermuted", "prop": "C10", "file": _EC, "old": "            permuted = self.permute(*perms).sympy\n            if original_term + permuted is S.Zero:", "new": "            permuted = self.permute(*perms).sympy\n            if original_term - original_term is S.Zero:"},
 {"id": "c10-termsym-factor-two", "prop": "C10", "file": _EC, "old": "            elif original_term - permuted is S.Zero:\n                symmetry[perms] = +1", "new": "            elif original_term - permuted is S.Zero:\n                symmetry[perms] = +2"},
]
HARMLESS += [
 {"id": "h-c10-termsym-order-of-tests", "prop": "C10", "file": _EC, "old": "            if original_term + permuted is S.Zero:\n                symmetry[perms] = -1\n            elif original_term - permuted is S.Zero:\n                symmetry[perms] = +1", "new": "            if original_term - permuted is S.Zero:\n                symmetry[perms] = +1\n            elif original_term + permuted is S.Zero:\n                symmetry[perms] = -1"},
]
_IX = "adcgen/indices.py"
MUTANTS += [
 {"id": "reg-gen-ignores-used-names", "prop": "C08", "file": _IX, "old": "        new_idx = [idx + counter for idx in self.base[space]\n                   if idx + counter not in used_names]", "new": "        new_idx = [idx + counter for idx in self.base[space]]"},
 {"id": "reg-gen-counter-not-advanced", "prop": "C08", "file": _IX, "old": "        self._generic_indices[space][spin].extend(new_idx)\n        self._counter[space][spin] += 1", "new": "        self._generic_indices[space][spin].extend(new_idx)"},
 {"id": "reg-gen-wrong-spin-slot", "prop": "C08", "file": _IX, "old": "        used_names = self._symbols[space][spin]\n", "new": "        used_names = self._symbols[space][\"\"]\n"},
]
HARMLESS += [
 {"id": "h-reg-gen-counter-plus-two", "prop": "C08", "file": _IX, "old": "        self._generic_indices[space][spin].extend(new_idx)\n        self._counter[space][spin] += 1", "new": "        self._generic_indices[space][spin].extend(new_idx)\n        self._counter[space][spin] += 2"},
]
MUTANTS += [
 {"id": "reg-get-keeps-name-in-pool", "prop": "C08", "file": _IX, "old": "            try:\n                self._generic_indices[space][spin].remove(idx)\n            except ValueError:\n                continue\n", "new": ""},
 {"id": "reg-get-caches-under-no-spin", "prop": "C08", "file": _IX, "old": "            self._symbols[space][spin][idx] = symbol\n", "new": "            self._symbols[space][\"\"][idx] = symbol\n"},
 {"id": "reg-get-does-not-cache", "prop": "C08", "file": _IX, "old": "            symbol = self._new_symbol(idx, space, spin)\n            self._symbols[space][spin][idx] = symbol\n", "new": "            symbol = self._new_symbol(idx, space, spin)\n"},
 {"id": "reg-get-always-new-symbol", "prop": "C08", "file": _IX, "old": "            if symbol is not None:\n                ret[key].append(symbol)\n                continue\n", "new": ""},
 {"id": "reg-generic-too-few-generated", "prop": "C08", "file": _IX, "old": "            while n > len(self._generic_indices[space][spin]):", "new": "            while n > len(self._generic_indices[space][spin]) + 1:"},
 {"id": "reg-generic-without-spin", "prop": "C08", "file": _IX, "old": "            spins = tuple(spin for _ in range(n))\n            ret.update(self.get_indices(idx, spins))", "new": "            ret.update(self.get_indices(idx))"},
 {"id": "reg-generic-takes-from-the-end", "prop": "C08", "file": _IX, "old": "            idx = self._generic_indices[space][spin][:n]\n", "new": "            idx = self._generic_indices[space][spin][:n - 1]\n"},
]
MUTANTS += [
 {"id": "c08-lowest-required-ignores-used", "prop": "C08", "file": _IX, "old": "    required = len(used) + n  # the number of indices present in the term", "new": "    required = n  # the number of indices present in the term"},
 {"id": "c08-lowest-suffix-starts-at-two", "prop": "C08", "file": _IX, "old": "    required = len(used) + n  # the number of indices present in the term\n    suffix = 1", "new": "    required = len(used) + n  # the number of indices present in the term\n    suffix = 2"},
 {"id": "c08-lowest-one-too-many", "prop": "C08", "file": _IX, "old": "    return [s for s in idx if s not in used][:n]", "new": "    return [s for s in idx if s not in used][:n + 1]"},
 {"id": "c08-lowest-reversed-letters", "prop": "C08", "file": _IX, "old": "        idx.extend(s + str(suffix) for s in base)\n        suffix += 1", "new": "        idx.extend(s + str(suffix) for s in reversed(base))\n        suffix += 1"},
]
MUTANTS += [
 {"id": "c06-makereal-and-instead-of-or", "prop": "C06", "file": _EC, "old": "        if tensor_names.fock not in sym_tensors or \\\n                tensor_names.eri not in sym_tensors:", "new": "        if tensor_names.fock not in sym_tensors and \\\n                tensor_names.eri not in sym_tensors:"},
 {"id": "c06-setsym-not-applied", "prop": "C06", "file": _EC, "old": "        if sym_tensors != self._sym_tensors:\n            self._sym_tensors = sym_tensors\n            self._apply_tensor_braket_sym()", "new": "        if sym_tensors != self._sym_tensors:\n            self._sym_tensors = sym_tensors"},
 {"id": "c06-setsym-forgets-real", "prop": "C06", "file": _EC, "old": "        sym_tensors: set = set(sym_tensors)\n        if self.real:\n            sym_tensors.update([tensor_names.fock, tensor_names.eri])", "new": "        sym_tensors: set = set(sym_tensors)"},
]
MUTANTS += [
 {"id": "c13-diagfock-drops-exponent", "prop": "C13", "file": _EC, "old": "        diag = Pow(\n            NonSymmetricTensor(tensor_names.orb_energy, (remaining_idx,)),\n            self.exponent\n        )", "new": "        diag = NonSymmetricTensor(tensor_names.orb_energy, (remaining_idx,))"},
 {"id": "c13-diagfock-substitution-reversed", "prop": "C13", "file": _EC, "old": "        if p is remaining_idx:  # p survived\n            sub[q] = p", "new": "        if p is remaining_idx:  # p survived\n            sub[p] = q"},
 {"id": "c13-diagfock-energy-of-removed-index", "prop": "C13", "file": _EC, "old": "            NonSymmetricTensor(tensor_names.orb_energy, (remaining_idx,)),\n            self.exponent", "new": "            NonSymmetricTensor(tensor_names.orb_energy, (q,)),\n            self.exponent"},
 {"id": "c13-diagfock-ignores-given-target", "prop": "C13", "file": _EC, "old": "        result = evaluate_deltas(self.sympy * delta, target_idx=target)\n        if isinstance(result, Mul):  # could not evaluate", "new": "        result = evaluate_deltas(self.sympy * delta)\n        if isinstance(result, Mul):  # could not evaluate"},
]
MUTANTS += [
 {"id": "c13-blockdiag-general-index-dropped", "prop": "C13", "file": _EC, "old": "            if space[0] == space[1] or \"g\" in space:", "new": "            if space[0] == space[1]:"},
 {"id": "c13-blockdiag-keeps-off-diagonal", "prop": "C13", "file": _EC, "old": "            else:  # off diagonal block\n                bl_diag = 0", "new": "            else:  # off diagonal block\n                bl_diag = self.sympy"},
 {"id": "c13-blockdiag-any-tensor", "prop": "C13", "file": _EC, "old": "        if self.name == tensor_names.fock:\n            space = self.space\n            assert len(space) == 2", "new": "        if len(self.space) == 2:\n            space = self.space\n            assert len(space) == 2"},
]
MUTANTS += [
 {"id": "c07-group-matched-not-recorded", "prop": "C07", "file": _SI, "old": "                    compatible_terms[term_i][other_term_i] = sub\n                    matched.add(other_term_i)", "new": "                    compatible_terms[term_i][other_term_i] = sub"},
]
# (equivalent mutant: the index patterns of Term.pattern() already carry the target index names, different
#  target indices never have equal patterns)
HARMLESS += [
 {"id": "h-c07-group-target-filter-redundant", "prop": "C07", "file": _SI, "old": "                    if is_target != other_is_target or \\\n                            (is_target and other_is_target and\n                             idx is not other_idx):\n                        continue", "new": "                    if is_target != other_is_target:\n                        continue"},
]
MUTANTS += [
 {"id": "c04-taylor-float-exponent", "prop": "C04", "file": "adcgen/intermediate_states.py", "old": "        f = (1 + x) ** Rational(-1, 2)\n", "new": "        f = (1 + x) ** -0.5\n"},
]
MUTANTS += [
 {"id": "c07-compare-keeps-annihilating-sub", "prop": "C07", "file": _SI, "old": "            if sub_other_term is S.Zero and other_term.sympy is not S.Zero:\n                continue\n", "new": ""},
 {"id": "c07-compare-accepts-sums", "prop": "C07", "file": _SI, "old": "            if not isinstance(term.sympy - sub_other_term, Add):\n                return sub", "new": "            if isinstance(term.sympy - sub_other_term, Add):\n                return sub"},
]
MUTANTS += [
 {"id": "c15-eri-block-table-misses-abba", "prop": "C15", "file": _EC, "old": "                return (\"aaaa\", \"abab\", \"abba\", \"baab\", \"baba\", \"bbbb\")", "new": "                return (\"aaaa\", \"abab\", \"baba\", \"bbbb\")"},
 {"id": "c15-amplitude-blocks-upper-equals-lower", "prop": "C15", "file": _EC, "old": "                     if block[:n].count(\"a\") == block[n:].count(\"a\")]", "new": "                     if block[:n] == block[n:]]"},
]
MUTANTS += [
 {"id": "c13-explicit-denom-lower-added", "prop": "C13", "file": _EC, "old": "            for s in tensor.lower:\n                explicit_denom -= NonSymmetricTensor(", "new": "            for s in tensor.lower:\n                explicit_denom += NonSymmetricTensor("},
 {"id": "c13-explicit-denom-positive-exponent", "prop": "C13", "file": _EC, "old": "            explicit_denom = Pow(explicit_denom, -exponent)\n        else:\n            explicit_denom = self.sympy", "new": "            explicit_denom = Pow(explicit_denom, exponent)\n        else:\n            explicit_denom = self.sympy"},
 {"id": "c13-explicit-denom-keeps-assumption", "prop": "C13", "file": "adcgen/expr_container.py", "old": "            explicit_denom = self.sympy\n        if return_sympy:\n            return explicit_denom\n        assumptions = self.assumptions\n        # remove the symbolic denom from the assumptions if necessary\n        if tensor_names.sym_orb_denom in self.antisym_tensors:\n            assumptions[\"antisym_tensors\"] = tuple(\n                n for n in assumptions[\"antisym_tensors\"]\n                if n != tensor_names.sym_orb_denom\n            )\n        return Expr(explicit_denom, **assumptions)", "new": "            explicit_denom = self.sympy\n        if return_sympy:\n            return explicit_denom\n        assumptions = self.assumptions\n        return Expr(explicit_denom, **assumptions)"},
]

# format_prefactor under contract (C17)
MUTANTS += [
 {"id": "c17-pref-sign-swapped", "prop": "C17", "file": _GC,
  "old": "    if number_pref < 0:\n        sign = \"-\"\n        number_pref *= -1\n    else:\n        sign = \"+\"",
  "new": "    if number_pref > 0:\n        sign = \"-\"\n    else:\n        sign = \"+\"\n        number_pref *= -1"},
 {"id": "c17-pref-symbol-multiplicity", "prop": "C17", "file": _GC,
  "old": "        [obj.base.name for obj in term.objects\n         if isinstance(obj.base, Symbol) for _ in range(obj.exponent)]",
  "new": "        [obj.base.name for obj in term.objects\n         if isinstance(obj.base, Symbol)]"},
 {"id": "c17-pref-symbol-name-from-obj", "prop": "C17", "file": _GC,
  "old": "        [obj.base.name for obj in term.objects\n         if isinstance(obj.base, Symbol) for _ in range(obj.exponent)]",
  "new": "        [obj.name for obj in term.objects\n         if isinstance(obj.base, Symbol) for _ in range(obj.exponent)]"},
 {"id": "c17-pref-backend-formatter-swapped", "prop": "C17", "file": _GC,
  "old": "    elif backend == \"libtensor\":  # C++\n        number_pref = _format_cpp_prefactor(number_pref)",
  "new": "    elif backend == \"libtensor\":  # C++\n        number_pref = _format_python_prefactor(number_pref)"},
 {"id": "c17-pref-symbols-dropped-for-unit", "prop": "C17", "file": _GC,
  "old": "    if symbol_pref:\n        return f\"{sign} {number_pref} * {symbol_pref}\"",
  "new": "    if symbol_pref and number_pref != \"1\":\n        return f\"{sign} {number_pref} * {symbol_pref}\""},
]
HARMLESS += [
 # the sign of a vanishing prefactor is unobservable
 {"id": "c17-h-pref-sign-of-zero", "prop": "C17", "file": _GC,
  "old": "    if number_pref < 0:\n        sign = \"-\"\n        number_pref *= -1\n    else:\n        sign = \"+\"",
  "new": "    if number_pref <= 0:\n        sign = \"-\"\n        number_pref *= -1\n    else:\n        sign = \"+\""},
]

# gen_term_orders under contract (C02; shared by C03, C04, C05)
_FN = "adcgen/func.py"
MUTANTS += [
 {"id": "c02-gto-range-excludes-order", "prop": "C02", "file": _FN,
  "old": "    orders = (o for o in range(min_order, order + 1))", "new": "    orders = (o for o in range(min_order, order))"},
 {"id": "c02-gto-range-from-zero", "prop": "C02", "file": _FN,
  "old": "    orders = (o for o in range(min_order, order + 1))", "new": "    orders = (o for o in range(order + 1))"},
 {"id": "c02-gto-filter-at-most", "prop": "C02", "file": _FN,
  "old": "    return [comb for comb in combinations if sum(comb) == order]",
  "new": "    return [comb for comb in combinations if sum(comb) <= order]"},
 {"id": "c02-gto-filter-drops-first-part", "prop": "C02", "file": _FN,
  "old": "    return [comb for comb in combinations if sum(comb) == order]",
  "new": "    return [comb for comb in combinations if sum(comb[1:]) + min_order == order]"},
 {"id": "c02-gto-reversed-tuples", "prop": "C02", "file": _FN,
  "old": "    return [comb for comb in combinations if sum(comb) == order]",
  "new": "    return [comb[::-1] for comb in combinations if sum(comb) == order and comb[0] <= comb[-1]]"},
 {"id": "c02-gto-zero-refused", "prop": "C02", "file": _FN,
  "old": "    if not all(isinstance(n, int) and n >= 0\n               for n in [order, term_length, min_order]):",
  "new": "    if not all(isinstance(n, int) and n >= 0\n               for n in [order, term_length]) or min_order < 1:"},
 {"id": "c02-gto-rebinding-before-consumption", "prop": "C02", "file": _FN,
  "old": "    orders = (o for o in range(min_order, order + 1))\n    combinations = product(orders, repeat=term_length)",
  "new": "    orders = (o for o in range(min_order, order + 1))\n    min_order = 0\n    combinations = product(orders, repeat=term_length)"},
]
HARMLESS += [
 {"id": "c02-h-gto-list-instead-of-generator", "prop": "C02", "file": _FN,
  "old": "    orders = (o for o in range(min_order, order + 1))", "new": "    orders = list(range(min_order, order + 1))"},
 {"id": "c02-h-gto-range-direct", "prop": "C02", "file": _FN,
  "old": "    orders = (o for o in range(min_order, order + 1))", "new": "    orders = range(min_order, order + 1)"},
]
