"""Executable contracts for C15 on the real code (bounded stand-in, replay
search): spin integration against an explicit sum over spin assignments."""
import itertools
import random
from fractions import Fraction

from sympy import Mul, S, Rational

from adcgen.indices import get_symbols
from adcgen.sympy_objects import (NonSymmetricTensor, AntiSymmetricTensor, Amplitude,
                                  KroneckerDelta)
from adcgen.expr_container import Expr
from adcgen.spatial_orbitals import (integrate_spin, transform_to_spatial_orbitals,
                                     allowed_spin_blocks)
from runtime.tensor_model import Model, orbital_space, evaluate, index_range, all_assignments

BUDGET_S = {"quick": 100, "thorough": 1500}
OCC, VIRT = ["i", "j", "k", "l"], ["a", "b", "c", "d"]
ORBS = orbital_space(1, 1)
SPATIAL = sorted({(o[0], o[1]) for o in ORBS})


class SpinModel(Model):
    """V and the amplitudes vanish on non spin conserving blocks; tensors
    without a block table (f, X) are arbitrary"""

    def __init__(self, seed):
        super().__init__(ORBS, seed=seed, braket={"V": 1, "f": 1},
                         spin_conserving={"V", "t1", "t2", "f"})


class SpinFreeModel(Model):
    """restricted reference: V from spin free Coulomb integrals,
    f spin diagonal and spin free"""

    def coulomb(self, p, r, q, s):
        a, b = tuple(sorted([p, r])), tuple(sorted([q, s]))
        if b < a:
            a, b = b, a
        return self.rnd("coul", a, b)

    def antisym(self, name, upper, lower, symmetric=False):
        if name == "V":
            (p, q), (r, s) = upper, lower
            sp = lambda o: (o[0], o[1])    # noqa: E731
            v = Fraction(0)
            if p[2] == r[2] and q[2] == s[2]:
                v += self.coulomb(sp(p), sp(r), sp(q), sp(s))
            if p[2] == s[2] and q[2] == r[2]:
                v -= self.coulomb(sp(p), sp(s), sp(q), sp(r))
            return v
        if name == "v":
            (p, r), (q, s) = upper, lower
            sp = lambda o: (o[0], o[1])    # noqa: E731
            return self.coulomb(sp(p), sp(r), sp(q), sp(s))
        if name == "f":
            p, q = upper[0], lower[0]
            if p[2] != q[2]:
                return Fraction(0)
            a, b = sorted([(p[0], p[1]), (q[0], q[1])])
            return self.rnd("fock", a, b)
        return super().antisym(name, upper, lower, symmetric)


def build(case):
    idx = {n: get_symbols(n)[0] for n in OCC + VIRT}
    fs = []
    for kind, names, *rest in case["objs"]:
        t = tuple(idx[n] for n in names)
        h = len(t) // 2
        if kind == "V":
            # (exponent 2: <ij||ab> and <ab||ij> merge in a real orbital basis)
            fs.append(AntiSymmetricTensor("V", t[:2], t[2:], 1) ** (rest[0] if rest else 1))
        elif kind == "t":
            fs.append(Amplitude(f"t{1 if len(t) == 4 else 2}", t[:h], t[h:]))
        elif kind == "f":
            fs.append(AntiSymmetricTensor("f", t[:1], t[1:], 1))
        elif kind == "d":
            fs.append(KroneckerDelta(*t))
        else:
            fs.append(NonSymmetricTensor("X" + str(len(t)), t))
    return idx, Rational(*case.get("pref", [1, 1])) * Mul(*fs)


def gen_cases(tier, seed):
    rng = random.Random(seed)
    # tensors without a spin block table only (F5) and mixed
    yield {"objs": [["t", ["a", "b", "i", "j"]], ["X", ["k", "c"]], ["X", ["c", "k"]]], "target": "ijab", "spin": "aaaa"}
    yield {"objs": [["f", ["i", "i"]]], "target": "", "spin": ""}
    yield {"objs": [["X", ["i", "a"]]], "target": "ia", "spin": "ab"}
    yield {"objs": [["V", ["i", "j", "a", "b"]], ["t", ["a", "b", "i", "j"]]], "target": "", "spin": ""}
    # the search for the allowed spin blocks has to backtrack: the first tensor has several
    # blocks that are compatible with the target spins, the later ones pin its contracted indices
    for spin in ("abab", "baba", "aaaa", "abba"):
        yield {"objs": [["V", ["i", "k", "c", "d"]], ["f", ["k", "j"]], ["f", ["c", "a"]], ["f", ["d", "b"]]],
               "target": "ijab", "spin": spin}
    yield {"objs": [["V", ["i", "j", "a", "b"], 2]], "target": "", "spin": "", "expand": True}
    yield {"objs": [["V", ["i", "j", "a", "b"], 2]], "target": "ia", "spin": "ab", "expand": True}
    for _ in range(120 if tier == "quick" else 2500):
        names = rng.sample(OCC, 3) + rng.sample(VIRT, 3)
        i, j, k, a, b, c = names
        objs = []
        for _o in range(rng.randint(1, 3)):
            kind = rng.choice(["V", "t", "f", "X", "X", "d"])
            if kind == "V":
                objs.append(["V", rng.sample(names, 4), rng.choice([1, 1, 1, 2])])
            elif kind == "t":
                objs.append(["t", rng.sample([a, b, c], 2) + rng.sample([i, j, k], 2)]
                            if rng.random() < 0.6 else ["t", [rng.choice([a, b]), rng.choice([i, j])]])
            elif kind == "f":
                objs.append(["f", rng.sample(names, 2)])
            elif kind == "d":
                objs.append(["d", rng.sample([i, j, k], 2) if rng.random() < 0.5 else rng.sample([a, b, c], 2)])
            else:
                objs.append(["X", rng.sample(names, rng.randint(1, 2))])
        yield {"objs": objs, "tseed": rng.randint(0, 10 ** 6),
               "pref": [rng.choice([1, -1, 2]), rng.choice([1, 2])],
               # also through transform_to_spatial_orbitals with expanded ERI
               "expand": rng.random() < 0.4}


def targets_of(case, idx, term):
    if "target" in case:
        return [idx[n] for n in case["target"]], case["spin"]
    t = list(term.target)
    rng = random.Random(case["tseed"])
    rng.shuffle(t)
    return t, "".join(rng.choice("ab") for _ in t)


def spin_orbital(sp, spin):
    return (sp[0], sp[1], spin)


def check(case):
    idx, sym = build(case)
    if sym is S.Zero:
        return True, "vanishes"
    e = Expr(sym, real=True)
    if len(e.terms) != 1:
        return True, "not a single term"
    targets, spins = targets_of(case, idx, e.terms[0])
    if "target" in case:
        e.set_target_idx(targets)
    tstr = "".join(s.name for s in targets)
    if sorted(s.name for s in e.terms[0].target) != sorted(tstr):
        return True, "targets do not match the term"
    # with expanded ERI the antisymmetric integrals have to be the
    # antisymmetrised Coulomb integrals
    model = SpinFreeModel(ORBS, seed=12, spin_conserving={"t1", "t2"}) if case.get("expand") else SpinModel(3)
    if case.get("expand"):
        res = transform_to_spatial_orbitals(e, tstr, spins, restricted=False, expand_eri=True)
    else:
        res = integrate_spin(e, tstr, spins)
    res_targets = get_symbols(tstr, spins) if tstr else []
    for combo in itertools.product(SPATIAL, repeat=len(targets)):
        if any(c[0] != ("o" if s.space == "occ" else "v") for c, s in zip(combo, targets)):
            continue
        asg0 = {s: spin_orbital(c, sp) for s, c, sp in zip(targets, combo, spins)}
        asg1 = {s: spin_orbital(c, sp) for s, c, sp in zip(res_targets, combo, spins)}
        if len(set(targets)) != len(targets):
            return True, "repeated target"
        v0 = evaluate(e.sympy, asg0, model)
        v1 = evaluate(res.sympy, asg1, model)
        if v0 != v1:
            return False, (f"integrate_spin({e}, '{tstr}', '{spins}') = {res}: value {v1}, "
                           f"spin orbital expression on the requested spins {v0} at {combo}")
    # allowed spin blocks of the expression: unreported blocks vanish
    tabulated = all(o[0] in ("V", "t", "d", "f") for o in case["objs"])
    if tstr and tabulated:
        allowed = allowed_spin_blocks(e, tstr)
        for block in ("".join(b) for b in itertools.product("ab", repeat=len(targets))):
            if block in allowed:
                continue
            for combo in itertools.product(SPATIAL, repeat=len(targets)):
                if any(c[0] != ("o" if s.space == "occ" else "v") for c, s in zip(combo, targets)):
                    continue
                asg = {s: spin_orbital(c, sp) for s, c, sp in zip(targets, combo, block)}
                v = evaluate(e.sympy, asg, model)
                if v != 0:
                    return False, (f"allowed_spin_blocks({e}, '{tstr}') = {allowed} but block {block} "
                                   f"has value {v} at {combo}")
    return True, ""


def restricted_cases(tier, seed):
    rng = random.Random(seed + 5)
    for _ in range(40 if tier == "quick" else 600):
        names = rng.sample(OCC, 3) + rng.sample(VIRT, 3)
        objs = [["V", rng.sample(names, 4), rng.choice([1, 1, 2])]]
        if rng.random() < 0.6:
            objs.append(rng.choice([["V", rng.sample(names, 4)], ["f", rng.sample(names, 2)]]))
        # (without expansion the antisymmetric ERI has spin dependent blocks:
        #  the premise "alpha and beta tensors coincide" only holds after it)
        yield {"objs": objs, "tseed": rng.randint(0, 10 ** 6), "expand": True}


def restricted_check(case):
    idx, sym = build(case)
    if sym is S.Zero:
        return True, "vanishes"
    e = Expr(sym, real=True)
    if len(e.terms) != 1:
        return True, "not a single term"
    targets = list(e.terms[0].target)
    random.Random(case["tseed"]).shuffle(targets)
    tstr = "".join(s.name for s in targets)
    spins = "a" * len(targets)
    model = SpinFreeModel(ORBS, seed=12)
    try:
        res = transform_to_spatial_orbitals(e, tstr, spins, restricted=True,
                                            expand_eri=case["expand"])
    except RuntimeError as ex:
        return True, f"refused: {ex}"
    res_targets = get_symbols(tstr, spins) if tstr else []
    for combo in itertools.product(SPATIAL, repeat=len(targets)):
        if any(c[0] != ("o" if s.space == "occ" else "v") for c, s in zip(combo, targets)):
            continue
        asg0 = {s: spin_orbital(c, "a") for s, c in zip(targets, combo)}
        asg1 = {s: spin_orbital(c, "a") for s, c in zip(res_targets, combo)}
        v0 = evaluate(e.sympy, asg0, model)
        v1 = evaluate(res.sympy, asg1, model)
        if v0 != v1:
            return False, (f"restricted transform of {e} (expand_eri={case['expand']}) = {res}: "
                           f"{v1} != {v0} at {combo}")
    return True, ""


CHECKS = {
    "integrate_spin.value": {
        "function": "adcgen.spatial_orbitals:integrate_spin", "cases": gen_cases, "check": check,
        "bound": "products of <= 3 objects (ERI, t amplitudes, Fock, untabulated tensors, deltas) over 3 occ + 3 virt index names, random target order and all-random target spin strings; 2 spatial orbitals per space; also: blocks not reported by allowed_spin_blocks vanish"},
    "restricted.all_alpha": {
        "function": "adcgen.spatial_orbitals:transform_to_spatial_orbitals", "cases": restricted_cases,
        "check": restricted_check,
        "bound": "products of 1-2 ERI / Fock objects, restricted reference with spin free Coulomb integrals, expand_eri on/off"},
}


# --- spin blocks that are not reported as allowed vanish -----------------------------------------------
class SpinConservingHF(Model):
    """2 occupied + 2 virtual spatial orbitals; antisymmetrised integrals that vanish on non spin
    conserving blocks, non vanishing orbital energy denominators"""

    def __init__(self, seed):
        super().__init__(orbital_space(2, 2), seed=seed, braket={"V": 1, "f": 1}, spin_conserving={"V", "f"})

    def nonsym(self, name, idx):
        if name == "e":
            o = idx[0]
            return Fraction((-20 if o[0] == "o" else 20) + 3 * o[1])     # spin independent
        return super().nonsym(name, idx)


def block_cases(tier, seed):
    # plain tensors with a spin block table of their own (premise of the property: they vanish on non
    # spin conserving blocks)
    for t in ("V", "f", "t1_singles", "t1_doubles", "delta"):
        yield {"tensor": t}
    names = ["t2_1", "t2sq", "p0_2_oo", "p0_2_vv", "t2eri_1", "t2eri_2"]
    if tier != "quick":
        names += ["t1_2", "t2eri_3", "t2eri_4", "t2eri_5", "t2eri_6", "t2eri_7", "t2eri_A", "t2eri_B"]
    for n in names:
        yield {"itmd": n}


def tensor_block_check(case):
    i, j, a, b = get_symbols("ijab")
    obj = {"V": AntiSymmetricTensor("V", (i, j), (a, b), 1), "f": AntiSymmetricTensor("f", (i,), (a,), 1),
           "t1_singles": Amplitude("t1", (a,), (i,)), "t1_doubles": Amplitude("t1", (a, b), (i, j)),
           "delta": KroneckerDelta(i, j)}[case["tensor"]]
    o = Expr(obj).terms[0].objects[0]
    allowed = set(o.allowed_spin_blocks)
    targets = list(o.idx)
    model = Model(orbital_space(2, 2), seed=4, braket={"V": 1, "f": 1}, spin_conserving={"V", "f", "t1"})
    nonzero = set()
    for asg in all_assignments(targets, model.orbs):
        block = "".join(asg[s_][2] for s_ in targets)
        v = evaluate(obj, asg, model)
        if v != 0:
            nonzero.add(block)
            if block not in allowed:
                return False, (f"{case['tensor']}: the spin block {block} of {obj} is not reported as allowed "
                               f"{sorted(allowed)} although a spin conserving tensor does not vanish there")
    if not nonzero:
        return False, f"{case['tensor']}: the model does not exercise any block"
    return True, ""


def block_check(case):
    if "tensor" in case:
        return tensor_block_check(case)
    from adcgen.intermediates import Intermediates
    itmd = Intermediates().available[case["itmd"]]
    idx = itmd.default_idx
    targets = get_symbols(idx)
    allowed = set(itmd.allowed_spin_blocks)
    full = itmd.expand_itmd(indices="".join(idx), fully_expand=True).make_real().expand()
    model = SpinConservingHF(4)
    seen_allowed_nonzero = set()
    for asg in all_assignments(targets, model.orbs):
        block = "".join(asg[s][2] for s in targets)
        v = evaluate(full.sympy, asg, model)
        if block not in allowed:
            if v != 0:
                return False, (f"{case['itmd']}: the spin block {block} (indices {idx}) is not reported as allowed "
                               f"{sorted(allowed)} but the definition has the value {v} at "
                               f"{dict((str(k), o) for k, o in asg.items())}")
        elif v != 0:
            seen_allowed_nonzero.add(block)
    if not seen_allowed_nonzero:
        return False, f"{case['itmd']}: the model does not exercise any block (all values vanish)"
    return True, ""


CHECKS["allowed_spin_blocks.complete"] = {
    "function": "adcgen.intermediates:RegisteredIntermediate.allowed_spin_blocks",
    "cases": block_cases, "check": block_check,
    "bound": "the tensors V, f, t1 (singles, doubles), delta and the registered intermediates t2_1, t2sq, p0_2_oo/vv, t2eri_1/2 (thorough: + t1_2, t2eri_3..7, A, B): definition evaluated on all spin orbital assignments of 2 occ + 2 virt spatial orbitals with spin conserving integrals; every block that is not reported vanishes",
}
