"""C15 - spin integration.  Contract on the backtracking search
adcgen.spatial_orbitals:_has_valid_combination (used by allowed_spin_blocks)."""
import itertools
import z3
from pyvc import contract as C
from pyvc.contract import Contract, register
from pyvc.values import (Struct, Sym, PList, PDict, PSet, term, wrap, zand, zor, znot, zeq,
                         Unsupported)
from spec.idx import new_index

ASSUMPTIONS = [
    "concrete-shape proof: 1-3 tensors with 1-2 candidate spin maps each, every map assigning <= 2 indices (index identities symbolic); Python set semantics (update, difference_update, &)",
    "integrate_spin / transform_to_spatial_orbitals / allowed_spin_blocks themselves and the hard coded block tables are only covered by the bounded stand-ins integrate_spin.value and restricted.all_alpha",
]
TRUSTED = []
KEY = "adcgen.spatial_orbitals:_has_valid_combination"
# shape: per tensor the list of (n_alpha, n_beta) of its candidate maps
SHAPES = [
    [[(1, 0)]], [[(1, 1)]], [[(1, 0), (0, 1)]],
    [[(1, 0)], [(0, 1)]], [[(1, 1)], [(1, 0), (0, 1)]], [[(1, 0), (0, 1)], [(1, 0), (0, 1)]],
    [[(1, 1), (1, 1)], [(1, 1)]], [[(1, 0), (0, 1)], [(1, 0)], [(0, 1)]],
]


def mem(x, items):
    return zor(*[x.t == y.t for y in items])


def clash(m, va, vb):
    """map m contradicts the assignment (va: alpha set, vb: beta set)"""
    return zor(*([mem(x, vb) for x in m["a"]] + [mem(x, va) for x in m["b"]]))


def exists_selection(maps, pos, va, vb):
    """there is a choice of one map per tensor >= pos that is free of
    alpha/beta contradictions with (va, vb) and with each other"""
    if pos == len(maps):
        return True
    alts = []
    for m in maps[pos]:
        ok = znot(clash(m, va, vb))
        alts.append(zand(ok, exists_selection(maps, pos + 1, va + m["a"], vb + m["b"])))
    return zor(*alts)


def same_set(a, b):
    return zand(*([mem(x, b) for x in a] + [mem(y, a) for y in b]))


@register
class HasValidCombination(Contract):
    key = KEY
    props = ["C15"]
    split_first_choice = len(SHAPES)

    def setup(self, vc):
        shape = SHAPES[vc.choose(len(SHAPES), "shape")]
        maps_spec, maps_val = [], []
        n = 0
        for t, cands in enumerate(shape):
            row_s, row_v = [], []
            for c, (na, nb) in enumerate(cands):
                a = [new_index(vc, f"t{t}m{c}a{k}") for k in range(na)]
                b = [new_index(vc, f"t{t}m{c}b{k}") for k in range(nb)]
                # an allowed block never maps one index to both spins
                vc.assume(znot(zor(*[x.t == y.t for x in a for y in b])))
                row_s.append({"a": a, "b": b})
                row_v.append(PDict({"a": PSet(a), "b": PSet(b)}))
                n += 1
            maps_spec.append(row_s)
            maps_val.append(PList(row_v))
        pos = vc.choose(len(shape), "current_pos")
        # the variant built so far: one index of each spin at most
        va = [new_index(vc, "va")] if vc.choose(2, "va") else []
        vb = [new_index(vc, "vb")] if vc.choose(2, "vb") else []
        if va and vb:
            vc.assume(va[0].t != vb[0].t)
        variant = PDict({"a": PSet(va), "b": PSet(vb)})
        return {"tensor_idx_maps": PList(maps_val), "current_pos": pos, "variant": variant,
                "_maps": maps_spec, "_va": va, "_vb": vb}

    def apply(self, vc, a):
        # recursive call: contract instead of the body
        maps = [[{"a": list(m.d["a"].items), "b": list(m.d["b"].items)} for m in row.items]
                for row in a["tensor_idx_maps"].items]
        pos = a["current_pos"]
        var = a["variant"]
        va, vb = list(var.d["a"].items), list(var.d["b"].items)
        ex = exists_selection(maps, pos, va, vb)
        if vc.decide(ex):
            # success: the variant is extended by a contradiction free selection
            sel = self._witness(vc, maps, pos, va, vb)
            for m in sel:
                for x in m["a"]:
                    if not vc.decide(mem(x, var.d["a"].items)):
                        var.d["a"].items.append(x)
                for x in m["b"]:
                    if not vc.decide(mem(x, var.d["b"].items)):
                        var.d["b"].items.append(x)
            return True
        return False        # and the variant is untouched (frame)

    def _witness(self, vc, maps, pos, va, vb):
        if pos == len(maps):
            return []
        for m in maps[pos]:
            ok = zand(znot(clash(m, va, vb)),
                      exists_selection(maps, pos + 1, va + m["a"], vb + m["b"]))
            if vc.decide(ok):
                return [m] + self._witness(vc, maps, pos + 1, va + m["a"], vb + m["b"])
        raise Unsupported("no witness although a selection exists")

    def post(self, vc, a, result):
        maps, pos = a["_maps"], a["current_pos"]
        va0, vb0 = a["_va"], a["_vb"]
        ex = exists_selection(maps, pos, va0, vb0)
        var = a["variant"]
        va1, vb1 = list(var.d["a"].items), list(var.d["b"].items)
        out = [("true-iff-a-contradiction-free-selection-exists", zeq(result, ex))]
        if result is False or (isinstance(result, Sym)):
            pass
        if result is False:
            out.append(("variant-is-restored-exactly-on-failure",
                        zand(same_set(va0, va1), same_set(vb0, vb1))))
        elif result is True:
            out.append(("variant-keeps-the-previous-assignment",
                        zand(*([mem(x, va1) for x in va0] + [mem(x, vb1) for x in vb0]))))
            out.append(("variant-is-free-of-alpha-beta-contradictions",
                        znot(zor(*[x.t == y.t for x in va1 for y in vb1]))))
            # every tensor >= pos has one of its maps contained in the variant
            per = []
            for row in maps[pos:]:
                per.append(zor(*[zand(*([mem(x, va1) for x in m["a"]] + [mem(x, vb1) for x in m["b"]]))
                                 for m in row]))
            out.append(("variant-contains-one-map-of-every-remaining-tensor", zand(*per)))
        return out
