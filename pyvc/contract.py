"""Contract objects and their registry.

A contract is a Python class (sidecar, in /verif/contracts) deriving from
`Contract`:

    class C(Contract):
        key = "adcgen.func:_contraction"       # function of /repo it is for
        props = ["C01"]
        def setup(self, vc):            -> dict param name -> Value (symbolic
                                           inputs; may `vc.assume` the type /
                                           validity invariants of the inputs)
        def pre(self, vc, a):           -> [(name, formula)]  (requires)
        def raises(self, vc, a):        -> [(ExcName, when-formula)]  exact:
                                           the function raises Exc iff `when`
        def post(self, vc, a, result):  -> [(name, formula)]  (ensures)
        def fresh_result(self, vc, a):  -> Value  (shape of an arbitrary result,
                                           used at call sites)
        loops = {ordinal: LoopContract}
        assumed = False                 # True: contract of a dependency that
                                        # is *not* verified (listed in evidence)

At a call site only `pre` (as obligations), `raises`, `fresh_result` and
`post` (as assumptions) are used - never the callee's body.
"""

REGISTRY = {}       # function key -> Contract instance
EXTERNALS = {}      # dotted external name -> model (PyFunc-like callable / value)
SCHEMAS = {}        # abstract class schema name -> Schema
CLASS_MODELS = {}   # adcgen class key -> model for constructor calls
INLINE = set()      # adcgen function keys that may be interpreted inline
ASSUMPTIONS = []    # global textual assumptions (encoding level)
# hooks through which contract/spec files give meaning to abstract `Struct`
# objects (abstract views of sympy / adcgen objects)
SUBCLASS = {}           # class short name -> tuple of base class short names
STRUCT_ARITH = {}       # cls -> fn(ip, opname, a, b)
STRUCT_INPLACE = {}     # cls -> fn(ip, opname, cur, rhs) -> (handled, value)
STRUCT_IS = {}          # cls -> fn(ip, a, b) -> bool/z3
STRUCT_EQ = {}          # cls -> fn(ip, a, b) -> bool/z3
STRUCT_LESS = {}        # cls -> fn(ip, a, b, strict) -> bool/z3
STRUCT_TRUTH = {}       # cls -> fn(ip, v) -> bool/z3
STRUCT_METHODS = {}     # (cls, name) -> fn(ip, obj, args, kwargs)
STRUCT_ATTR = {}        # (cls, name) -> fn(ip, obj)
STRUCT_ITER = {}        # cls -> fn(ip, obj) -> list   (concrete iteration)
STRUCT_SYMITER = {}     # cls -> fn(ip, obj) -> SymIter (symbolic iteration)
STRUCT_LEN = {}         # cls -> fn(ip, obj)
STRUCT_SUBSCRIPT = {}   # cls -> fn(ip, obj, idx)
STRUCT_STORE = {}       # cls -> fn(ip, obj, idx, v)
STRUCT_CONTAINS = {}    # cls -> fn(ip, obj, x)
STRUCT_ISINSTANCE = {}  # cls -> fn(ip, obj, classref)
CLASS_ATTR = {}         # (class key, attr) -> value
SYMBOLIC_ITERABLES = set()
LEMMAS = {}             # prop -> {name: fn() -> [(subname, z3 formula)]}


def lemma(prop, name):
    def deco(fn):
        LEMMAS.setdefault(prop, {})[name] = fn
        return fn
    return deco


class LoopContract:
    """Loop contract for the n-th loop (document order, 0-based) of a function.

    invariant(vc, frame, k, seq) -> [(name, formula)]
        k: iteration index (python int or z3 Int), seq: the iterated value
        (None for while loops)
    havoc(vc, frame, k, seq): replaces everything the loop modifies by
        fresh values (the `modifies` frame - all other variables and heap
        objects are left untouched, i.e. framed out)
    header: optional text that must occur in the unparsed loop header, so that
        a contract is never silently applied to a different loop.
    """
    header = None
    decreases = None

    def invariant(self, vc, frame, k, seq):
        return []

    def havoc(self, vc, frame, k, seq):
        pass

    def iter_spec(self, vc, frame, seq):
        """obligations on the iterated collection itself (length, items),
        checked at loop entry; preferred over the textual `header` match"""
        return []

    def at_break(self, vc, frame, k, seq):
        """obligations checked when the body leaves through `break`."""
        return []


class Contract:
    key = None
    props = []
    assumed = False
    inline = False
    loops = {}
    note = ""

    def setup(self, vc):
        raise NotImplementedError

    def bind(self, vc, args, kwargs, interp):
        """Map call-site arguments to parameter names using the real
        signature."""
        node = interp.src.get(self.key)
        return interp.bind_args(node, args, kwargs, None, self.key)

    def pre(self, vc, a):
        return []

    def raises(self, vc, a):
        return []

    def post(self, vc, a, result):
        return []

    def fresh_result(self, vc, a):
        raise NotImplementedError(f"{self.key}: fresh_result")

    def apply(self, vc, a):
        """Use of the contract at a call site."""
        from .vc import RaiseEx
        a = dict(a)
        a["_callsite"] = True
        for name, f in self.pre(vc, a):
            vc.check(f"pre@{self.key.split(':')[1]}#{name}", f)
        for exc, when in self.raises(vc, a):
            if vc.decide(when):
                raise RaiseEx(exc, f"(contract of {self.key})")
        for exc, cond in getattr(self, "may_raise", lambda v, x: [])(vc, a):
            if vc.choose(2, "may-raise") == 1:
                vc.assume(cond)
                if not vc.feasible():
                    from .vc import PathEnd
                    raise PathEnd()
                raise RaiseEx(exc, f"(contract of {self.key})")
        res = self.fresh_result(vc, a)
        for _name, f in self.post(vc, a, res):
            vc.assume(f)
        return res


def register(cls):
    inst = cls()
    assert inst.key, cls
    REGISTRY[inst.key] = inst
    return cls


def extern(dotted):
    def deco(fn):
        EXTERNALS[dotted] = fn
        return fn
    return deco


def class_model(key):
    def deco(fn):
        CLASS_MODELS[key] = fn
        return fn
    return deco


class Schema:
    """Abstract class whose instances are z3 constants of an uninterpreted
    sort; attributes are z3 functions of the instance.

    attrs: name -> ("enum", z3func, [values]) | ("sym", z3func, schema|None)
                   | ("py", callable(vc, sym) -> Value)
    methods: name -> callable(vc, self, args, kwargs) -> Value
    pyclass: names of Python classes an instance is an `isinstance` of
    """

    def __init__(self, name, sort, attrs=None, methods=None, classes=(),
                 invariant=None):
        self.invariant = invariant   # fn(term) -> z3 Bool: type invariant
        self.name = name
        self.sort = sort
        self.attrs = attrs or {}
        self.methods = methods or {}
        self.classes = set(classes)
        SCHEMAS[name] = self


def reset():
    REGISTRY.clear()
    EXTERNALS.clear()
    SCHEMAS.clear()
    CLASS_MODELS.clear()
    INLINE.clear()
    del ASSUMPTIONS[:]
    for d in (SUBCLASS, STRUCT_LESS, STRUCT_ARITH, STRUCT_INPLACE, STRUCT_IS, STRUCT_EQ,
              STRUCT_TRUTH, STRUCT_METHODS, STRUCT_ATTR, STRUCT_ITER,
              STRUCT_SYMITER, STRUCT_LEN, STRUCT_SUBSCRIPT, STRUCT_STORE,
              STRUCT_CONTAINS, STRUCT_ISINSTANCE, CLASS_ATTR, LEMMAS):
        d.clear()
