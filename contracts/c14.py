"""C14 - removing a tensor.  Contract on the nested function
adcgen.simplify:remove_tensor.process_term (occurrence and exponent
bookkeeping, block keys)."""
import itertools
import z3
from pyvc import contract as C
from pyvc.contract import Contract, register
from pyvc.values import (Struct, Sym, PList, PDict, FuncRef, ExtRef, term, wrap, zand, zor,
                         znot, zeq, Unsupported)
from spec import termmodel as T
import contracts.c08 as c08        # noqa: F401  Container.permute (props C08, C14)

# remove_tensor / derivative apply the permutations found by minimize_tensor_indices and by the
# tensor symmetry to the remaining term through Container.permute: its contract (composition of
# the transpositions in the given order) is listed under C14 as well
c08.Permute.props = c08.Permute.props + ["C14"]

ASSUMPTIONS = [
    "abstract view of Term/Obj (kernel K0); Expr(1, **assumptions) is the empty product, Expr *= x multiplies, Pow(b, n) is b^n",
    "remove_tensor.remove (deltas for target / repeated indices, index minimisation, 1/2 and 1/sqrt factors, symmetrisation) and derivative are only covered by the bounded stand-ins remove_tensor.recontraction and derivative.first_order_change; the group averaging lemma and completeness of Term.symmetry are assumed there",
    "concrete-shape proof: 0-2 occurrences of the tensor with exponents in {-1, 0, 1, 2, 3}, 0-1 other objects",
]
TRUSTED = []
KEY = "adcgen.simplify:remove_tensor.process_term"


def model_expr(ip, args, kwargs):
    v = args[0]
    if v == 1:
        return Struct("ProdV", factors=[], asm=dict(kwargs))
    if isinstance(v, Struct) and v.cls == "BaseV":
        return Struct("ProdV", factors=[("factor", v)], asm=dict(kwargs), single_base=v)
    raise Unsupported("Expr(...) of this argument")


def prod_inplace(ip, opn, cur, rhs):
    if opn != "Mult":
        raise Unsupported("operator on the remaining term")
    cur.f["factors"].append(("factor", rhs))
    return True, cur


def model_pow(ip, args, kwargs):
    return Struct("PowV", base=args[0], exp=args[1])


C.STRUCT_INPLACE["ProdV"] = prod_inplace
C.STRUCT_LEN["ProdV"] = lambda ip, v: 1
C.STRUCT_ATTR[("ProdV", "terms")] = lambda ip, p: (Struct("TermOfProd", prod=p),)
C.STRUCT_ATTR[("TermOfProd", "objects")] = lambda ip, t: tuple(
    Struct("ObjV", name=f.f["name"], exponent=1, idx=f.f["idx"], base=f, pos=f.f["uid"][1],
           space=f.f.get("space", "oo"), spin=f.f.get("spin", "nn"), from_base=True)
    for _k, f in t.f["prod"].f["factors"] if isinstance(f, Struct) and f.cls == "BaseV")
C.STRUCT_ATTR[("ObjV", "assumptions")] = lambda ip, o: PDict({})
C.STRUCT_ATTR[("TermV", "target")] = lambda ip, t: ()


@register
class ProcessTerm(Contract):
    key = KEY
    props = ["C14"]
    SHAPES = []
    for exps in ([], [1], [2], [3], [0], [-1], [1, 1], [2, 1]):
        for nx in (0, 1):
            SHAPES.append((exps, nx))
    split_first_choice = len(SHAPES)

    def setup(self, vc):
        exps, nx = self.SHAPES[vc.choose(len(self.SHAPES), "shape")]
        objs = []
        for n in range(nx):
            objs.append(T.new_obj(vc, "X", 2, 1, pos=len(objs)))
        for e in exps:
            o = T.new_obj(vc, "T", 2, e, pos=len(objs))
            o.f["space"], o.f["spin"] = "ov", "nn"
            o.f["base"].f["space"], o.f["base"].f["spin"] = "ov", "nn"
            objs.append(o)
        t = T.new_term(vc, objs)
        t.f["target"] = ()          # closed term: no target indices
        C.CLASS_MODELS["adcgen.expr_container:Expr"] = model_expr
        C.EXTERNALS["sympy.Pow"] = model_pow
        return {"term": t, "t_name": "T", "_exps": exps}

    def closure(self, vc, a):
        return {"remove": Struct("RemoveFn"), "process_term": FuncRef(KEY),
                "e": ExtRef("adcgen.expr_container")}

    def raises(self, vc, a):
        exps = a["_exps"]
        return [("NotImplementedError", bool(exps) and exps[0] < 1)]

    def apply(self, vc, a):
        # recursive call on a term of the intermediate result
        return PDict({("ov",): Struct("Recursed", of=a["term"])})

    def post(self, vc, a, result):
        exps = a["_exps"]
        term_ = a["term"]
        objs = term_.f["objs"]
        if not exps:
            ok = isinstance(result, PDict) and list(result.d) == [("none",)] and \
                result.d[("none",)] is term_
            return [("term-without-the-tensor-is-returned-under-the-key-none", ok)]
        if not isinstance(result, PDict):
            return [("returns-a-dict-of-blocks", False)]
        tensors = [o for o in objs if o.f["name"] == "T"]
        others = [o for o in objs if o.f["name"] != "T"]
        out = []
        rem = vc.ghost.get("_removed")
        if rem is None:
            return [("remove-was-called", False)]
        rterm, rtensor = rem
        factors = rterm.f["prod"].f["factors"] if (isinstance(rterm, Struct) and rterm.cls == "TermOfProd") else None
        if factors is None:
            return [("remaining-term-is-a-product", False)]
        kept_objs = sorted(f.f["pos"] for _k, f in factors if isinstance(f, Struct) and f.cls == "ObjV")
        pows = [(f.f["base"], f.f["exp"]) for _k, f in factors if isinstance(f, Struct) and f.cls == "PowV"]
        first = tensors[0]
        expect_objs = sorted(o.f["pos"] for o in others + tensors[1:])
        out.append(("remaining-term-keeps-every-other-object-and-later-occurrence-once",
                    kept_objs == expect_objs))
        e0 = first.f["exponent"]
        if e0 > 1:
            out.append(("one-factor-of-the-power-is-removed-the-rest-stays",
                        len(pows) == 1 and pows[0][0] is first.f["base"] and pows[0][1] == e0 - 1))
            out.append(("removed-tensor-has-exponent-one",
                        isinstance(rtensor, Struct) and rtensor.f.get("from_base") is True
                        and rtensor.f["base"] is first.f["base"]))
        else:
            out.append(("no-power-left-for-exponent-one", pows == []))
            out.append(("removed-tensor-is-the-first-occurrence", rtensor is first))
        if len(tensors) == 1:
            out.append(("single-occurrence:one-block-keyed-by-the-tensor-block",
                        list(result.d) == [("ov",)]))
        else:
            out.append(("several-occurrences:block-keys-are-merged-and-sorted",
                        list(result.d) == [("ov", "ov")]))
        return out


def call_remove(ip, obj, args, kwargs):
    ip.vc.ghost["_removed"] = (args[0], args[1])
    t = Struct("TermV", objs=[], target=Struct("IdxSetView", mem=None), assumptions=PDict({}))
    return Struct("RemovedExpr", termlist=(t,))


C.STRUCT_METHODS[("RemoveFn", "__call__")] = call_remove
C.STRUCT_ATTR[("RemovedExpr", "terms")] = lambda ip, o: o.f["termlist"]


def recursed_arith(ip, opn, a, b):
    if opn == "Add":
        return Struct("Recursed", of=None)
    raise Unsupported("operator on a recursive contribution")


C.STRUCT_ARITH["Recursed"] = recursed_arith
