"""C15 - spin integration.  Contract on the backtracking search
adcgen.spatial_orbitals:_has_valid_combination (used by allowed_spin_blocks)."""
import itertools
import z3
from pyvc import contract as C
from pyvc.contract import Contract, register
from pyvc.values import (Struct, Sym, PList, PDict, PSet, term, wrap, zand, zor, znot, zeq,
                         Unsupported)
from spec.idx import new_index

ASSUMPTIONS = [
    "Obj.allowed_spin_blocks: spin conservation of a tensor with n upper and n lower indices = as many alpha spins above as below; Coulomb integrals in chemist notation: the two orbitals of one electron (upper, respectively lower pair) carry the same spin; objects enumerated (ERI, t-amplitudes of rank 2/4/6, Fock matrix, Coulomb integral, delta, operator, number); intermediates are looked up (their tables: bounded stand-in allowed_spin_blocks.complete)",
    "concrete-shape proof: 1-3 tensors with 1-2 candidate spin maps each, every map assigning <= 2 indices (index identities symbolic); Python set semantics (update, difference_update, &)",
    "integrate_spin / transform_to_spatial_orbitals / allowed_spin_blocks themselves and the hard coded block tables are only covered by the bounded stand-ins integrate_spin.value and restricted.all_alpha",
]
TRUSTED = []
KEY = "adcgen.spatial_orbitals:_has_valid_combination"
# shape: per tensor the list of (n_alpha, n_beta) of its candidate maps
SHAPES = [
    [[(1, 0)]], [[(1, 1)]], [[(1, 0), (0, 1)]],
    [[(1, 0)], [(0, 1)]], [[(1, 1)], [(1, 0), (0, 1)]], [[(1, 0), (0, 1)], [(1, 0), (0, 1)]],
    [[(1, 1), (1, 1)], [(1, 1)]], [[(1, 0), (0, 1)], [(1, 0)], [(0, 1)]],
]


def mem(x, items):
    return zor(*[x.t == y.t for y in items])


def clash(m, va, vb):
    """map m contradicts the assignment (va: alpha set, vb: beta set)"""
    return zor(*([mem(x, vb) for x in m["a"]] + [mem(x, va) for x in m["b"]]))


def exists_selection(maps, pos, va, vb):
    """there is a choice of one map per tensor >= pos that is free of
    alpha/beta contradictions with (va, vb) and with each other"""
    if pos == len(maps):
        return True
    alts = []
    for m in maps[pos]:
        ok = znot(clash(m, va, vb))
        alts.append(zand(ok, exists_selection(maps, pos + 1, va + m["a"], vb + m["b"])))
    return zor(*alts)


def same_set(a, b):
    return zand(*([mem(x, b) for x in a] + [mem(y, a) for y in b]))


@register
class HasValidCombination(Contract):
    key = KEY
    props = ["C15"]
    split_first_choice = len(SHAPES)

    def setup(self, vc):
        shape = SHAPES[vc.choose(len(SHAPES), "shape")]
        maps_spec, maps_val = [], []
        n = 0
        for t, cands in enumerate(shape):
            row_s, row_v = [], []
            for c, (na, nb) in enumerate(cands):
                a = [new_index(vc, f"t{t}m{c}a{k}") for k in range(na)]
                b = [new_index(vc, f"t{t}m{c}b{k}") for k in range(nb)]
                # an allowed block never maps one index to both spins
                vc.assume(znot(zor(*[x.t == y.t for x in a for y in b])))
                row_s.append({"a": a, "b": b})
                row_v.append(PDict({"a": PSet(a), "b": PSet(b)}))
                n += 1
            maps_spec.append(row_s)
            maps_val.append(PList(row_v))
        pos = vc.choose(len(shape), "current_pos")
        # the variant built so far: one index of each spin at most
        va = [new_index(vc, "va")] if vc.choose(2, "va") else []
        vb = [new_index(vc, "vb")] if vc.choose(2, "vb") else []
        if va and vb:
            vc.assume(va[0].t != vb[0].t)
        variant = PDict({"a": PSet(va), "b": PSet(vb)})
        return {"tensor_idx_maps": PList(maps_val), "current_pos": pos, "variant": variant,
                "_maps": maps_spec, "_va": va, "_vb": vb}

    def apply(self, vc, a):
        # recursive call: contract instead of the body
        maps = [[{"a": list(m.d["a"].items), "b": list(m.d["b"].items)} for m in row.items]
                for row in a["tensor_idx_maps"].items]
        pos = a["current_pos"]
        var = a["variant"]
        va, vb = list(var.d["a"].items), list(var.d["b"].items)
        ex = exists_selection(maps, pos, va, vb)
        if vc.decide(ex):
            # success: the variant is extended by a contradiction free selection
            sel = self._witness(vc, maps, pos, va, vb)
            for m in sel:
                for x in m["a"]:
                    if not vc.decide(mem(x, var.d["a"].items)):
                        var.d["a"].items.append(x)
                for x in m["b"]:
                    if not vc.decide(mem(x, var.d["b"].items)):
                        var.d["b"].items.append(x)
            return True
        return False        # and the variant is untouched (frame)

    def _witness(self, vc, maps, pos, va, vb):
        if pos == len(maps):
            return []
        for m in maps[pos]:
            ok = zand(znot(clash(m, va, vb)),
                      exists_selection(maps, pos + 1, va + m["a"], vb + m["b"]))
            if vc.decide(ok):
                return [m] + self._witness(vc, maps, pos + 1, va + m["a"], vb + m["b"])
        raise Unsupported("no witness although a selection exists")

    def post(self, vc, a, result):
        maps, pos = a["_maps"], a["current_pos"]
        va0, vb0 = a["_va"], a["_vb"]
        ex = exists_selection(maps, pos, va0, vb0)
        var = a["variant"]
        va1, vb1 = list(var.d["a"].items), list(var.d["b"].items)
        out = [("true-iff-a-contradiction-free-selection-exists", zeq(result, ex))]
        if result is False or (isinstance(result, Sym)):
            pass
        if result is False:
            out.append(("variant-is-restored-exactly-on-failure",
                        zand(same_set(va0, va1), same_set(vb0, vb1))))
        elif result is True:
            out.append(("variant-keeps-the-previous-assignment",
                        zand(*([mem(x, va1) for x in va0] + [mem(x, vb1) for x in vb0]))))
            out.append(("variant-is-free-of-alpha-beta-contradictions",
                        znot(zor(*[x.t == y.t for x in va1 for y in vb1]))))
            # every tensor >= pos has one of its maps contained in the variant
            per = []
            for row in maps[pos:]:
                per.append(zor(*[zand(*([mem(x, va1) for x in m["a"]] + [mem(x, vb1) for x in m["b"]]))
                                 for m in row]))
            out.append(("variant-contains-one-map-of-every-remaining-tensor", zand(*per)))
        return out


# --- Obj.allowed_spin_blocks: the table of a tensor holds every spin conserving block -------------------
# (second clause of the property: a block that is NOT reported is identically zero for tensors that
#  vanish on non spin conserving blocks - so every spin conserving block has to be reported)
def _product_model(ip, args, kwargs):
    rep = kwargs.get("repeat", 1)
    pools = [list(a) if isinstance(a, (str, tuple)) else list(a.items) for a in args]
    if not isinstance(rep, int):
        raise Unsupported("itertools.product with symbolic repeat")
    return PList([tuple(t) for t in itertools.product(*pools, repeat=rep)])


class _IsTAmplitude(Contract):
    key = "adcgen.tensor_names:is_t_amplitude"
    props = []
    assumed = True
    note = "name classification (C19): the abstract amplitude is called t1"

    def apply(self, vc, a):
        return a["name"] == "t1"


if _IsTAmplitude.key not in C.REGISTRY:
    register(_IsTAmplitude)


@register
class ObjAllowedSpinBlocks(Contract):
    key = "adcgen.expr_container:Obj.allowed_spin_blocks"
    props = ["C15"]
    # (kind, number of upper indices, number of lower indices)
    KINDS = [("eri", 2, 2), ("amplitude", 1, 1), ("amplitude", 2, 2), ("amplitude", 3, 3), ("fock", 1, 1),
             ("coulomb", 2, 2), ("delta", 1, 1), ("operator", 1, 0), ("number", 0, 0)]

    def setup(self, vc):
        kind, nu, nl = self.KINDS[vc.choose(len(self.KINDS), "object")]
        C.EXTERNALS["adcgen.tensor_names:tensor_names"] = Struct("TensorNames", eri="V", coulomb="v", fock="f")
        C.EXTERNALS["itertools.product"] = _product_model
        idx = tuple(Struct("IdxTok3", pos=k) for k in range(nu + nl))
        name = {"eri": "V", "amplitude": "t1", "fock": "f", "coulomb": "v"}.get(kind)
        base = Struct("BaseObj", kind=kind, name=name, idx=idx)
        C.STRUCT_ATTR[("BaseObj", "name")] = lambda ip, o: o.f["name"]
        C.STRUCT_ATTR[("BaseObj", "idx")] = lambda ip, o: o.f["idx"]

        def isinst(ip, v, cls):
            names = {(c.key if hasattr(c, "key") else getattr(c, "dotted", str(c))).split(":")[-1].split(".")[-1]
                     for c in (cls if isinstance(cls, tuple) else (cls,))}
            k = v.f["kind"]
            return ("SymbolicTensor" in names and k in ("eri", "amplitude", "fock", "coulomb")) or \
                ("KroneckerDelta" in names and k == "delta") or ("FermionicOperator" in names and k == "operator")
        C.STRUCT_ISINSTANCE["BaseObj"] = isinst
        me = Struct("ObjSelf3", base=base, idx=idx)
        C.STRUCT_ATTR[("ObjSelf3", "base")] = lambda ip, o: o.f["base"]
        C.STRUCT_ATTR[("ObjSelf3", "idx")] = lambda ip, o: o.f["idx"]

        vc.ghost["_kind"] = (kind, nu, nl)
        return {"self": me}

    def post(self, vc, a, result):
        kind, nu, nl = vc.ghost["_kind"]
        if kind == "number":
            return [("objects-without-indices-have-no-spin-blocks", result is None)]
        blocks = list(result) if isinstance(result, tuple) else list(result.items) if isinstance(result, PList) else None
        if blocks is None:
            return [("a-tuple-of-spin-blocks-is-returned", False)]
        n = nu + nl
        allb = ["".join(t) for t in itertools.product("ab", repeat=n)]
        if kind in ("eri", "amplitude", "fock"):
            # spin conserving: as many alpha spins above as below
            need = [b for b in allb if b[:nu].count("a") == b[nu:].count("a")]
        elif kind == "coulomb":
            # (pq|rs): p, q of one electron and r, s of the other carry the same spin
            need = [b for b in allb if b[0] == b[1] and b[2] == b[3]]
        elif kind == "delta":
            need = ["aa", "bb"]
        else:
            need = ["a", "b"]
        return [("every-spin-conserving-block-is-reported", set(need) <= set(blocks)),
                ("only-blocks-of-the-right-length-are-reported", all(len(b) == n for b in blocks))]
