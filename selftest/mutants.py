"""Seeded breaks: small semantic changes of the real source that must fail a
named obligation."""
MUTANTS = [
 {"id": "c09-pk-swap", "prop": "C09", "file": "adcgen/sympy_objects.py",
  "old": "            else:  # go / gv\n                return (j, i)\n        elif spin2:",
  "new": "            else:  # go / gv\n                return (i, j)\n        elif spin2:"},
 {"id": "c09-pk-none", "prop": "C09", "file": "adcgen/sympy_objects.py",
  "old": "            else:  # og / vg  -> 1 holds more space information\n                return None",
  "new": "            else:  # og / vg  -> 1 holds more space information\n                return (j, i)"},
 {"id": "c09-eqinfo", "prop": "C09", "file": "adcgen/sympy_objects.py",
  "old": "return i.space == j.space and i.spin == j.spin",
  "new": "return i.space == j.space"},
 {"id": "c01-contraction-table", "prop": "C01", "file": "adcgen/func.py",
  "old": "        if space_p == \"o\" or space_q == \"o\":\n            return S.Zero\n        elif space_p == \"v\"",
  "new": "        if space_p == \"v\" or space_q == \"v\":\n            return S.Zero\n        elif space_p == \"o\""},
 {"id": "c01-sign", "prop": "C01", "file": "adcgen/func.py",
  "old": "if not i % 2:  # introduce -1", "new": "if i % 2:  # introduce -1"},
 {"id": "c01-slice", "prop": "C01", "file": "adcgen/func.py",
  "old": "remaining = op_string[1:i] + op_string[i+1:]", "new": "remaining = op_string[1:i] + op_string[i:]"},
 {"id": "c01-prefilter-general", "prop": "C01", "file": "adcgen/func.py",
  "old": "n_annihilate = annihilate[space] + annihilate[\"general\"]", "new": "n_annihilate = annihilate[space]"},
 {"id": "c01-fresh-space", "prop": "C01", "file": "adcgen/func.py",
  "old": "KroneckerDelta(q_idx, Index('a', above_fermi=True))", "new": "KroneckerDelta(q_idx, Index('i', below_fermi=True))"},
]
