"""C10 - lossless decompositions.  Contracts on the sorters of
adcgen.sort_expr (by_delta_types, by_delta_indices, by_tensor_block,
by_tensor_target_block, by_tensor_target_indices): every term of the
expression is added to exactly one bucket, nothing else is added."""
import z3
from pyvc import contract as C
from pyvc.contract import Contract, LoopContract, register, lemma
from pyvc.values import (Struct, Sym, SymSeq, PList, PDict, term, wrap, zand, zor, znot, zeq,
                         mk_enum, Unsupported)
from spec.idx import IdxSort, new_index

ASSUMPTIONS = [
    "Expr += term adds the term's value; Expr(0, **assumptions) is the empty sum (sympy Add homomorphism)",
    "exchange of summation: if every bucket is the sum of the terms whose computed key equals the bucket's key, the buckets sum to the expression (math)",
    "abstract view of a term: Term.deltas / Term.tensors as short lists (0-2 objects) of objects with symbolic name / space / spin / exponent (<= 2) / index tuples; Term.target an arbitrary index set",
    "the computed key is compared with an independent key computation only in the bounded stand-in sorters.keys; Permutation/PermutationProduct, exploit_perm_sym and filter_tensor are only covered by bounded stand-ins (symmetry.true, exploit_perm_sym.lossless, filter_tensor.predicate)",
    "Term.symmetry (soundness): sympy's S.Zero as result of term +- permuted term implies that the two values cancel for every assignment (the converse is not assumed); Container.permute (contract under C08) returns the term with the transpositions of the candidate applied; the candidate enumeration (itertools combinations / permutations, the nested helpers permute_str and get_perms) runs on opaque values - completeness of the enumeration is not claimed; Obj.symmetry delegates to it (contract above)",
]
TRUSTED = []
TermS = z3.DeclareSort("TermS")
TVAL = z3.Function("term_value", TermS, z3.RealSort())
KeyArrV = z3.ArraySort(z3.IntSort(), z3.RealSort())
KeyArrB = z3.ArraySort(z3.IntSort(), z3.BoolSort())
TermArr = z3.ArraySort(z3.IntSort(), TermS)
KEYOF = z3.Function("computed_key", TermArr, z3.IntSort(), z3.IntSort())
VALSPEC = z3.Function("bucket_values_after", TermArr, z3.IntSort(), KeyArrV)
DOMSPEC = z3.Function("bucket_keys_after", TermArr, z3.IntSort(), KeyArrB)

SPACES2 = ["oo", "ov"]
SPINS2 = ["nn", "ab"]
NAMES = ["V", "X"]


_KEYCODES = {}


def keystr(k):
    """bucket keys (tuples of strings) are coded as integers (injective)"""
    return z3.IntVal(_KEYCODES.setdefault(repr(k), len(_KEYCODES)))


def mk_obj(vc, tag):
    """abstract delta / tensor object with enumerated attributes"""
    sp = mk_enum(vc.fresh_int(tag + "_space"), SPACES2)
    sn = mk_enum(vc.fresh_int(tag + "_spin"), SPINS2)
    nm = mk_enum(vc.fresh_int(tag + "_name"), NAMES)
    for v, dom in ((sp, SPACES2), (sn, SPINS2), (nm, NAMES)):
        if isinstance(v, Sym):
            vc.assume(z3.And(v.t >= 0, v.t < len(dom)))
    exp = 1 + vc.choose(2, "exponent")
    idx = tuple(idx_token(vc, n) for n in ("i", "a"))
    return Struct("SObj", space=sp, spin=sn, name=nm, exponent=exp, idx=idx)


def idx_token(vc, name):
    from spec.idx import idx_space, idx_spin, SPACES
    s = new_index(vc, name)
    vc.assume(idx_space(s.t) == (0 if name in "ijkl" else 1))
    vc.assume(idx_spin(s.t) == 0)
    vc.ghost.setdefault("_tok", {})[s.t.get_id()] = name
    return s


def _name_of(ip, s):
    return ip.vc.ghost.get("_tok", {}).get(s.t.get_id(), "x")


C.SCHEMAS["Index"].attrs["name"] = ("py", _name_of)
C.SCHEMAS["Index"].methods["__str__"] = lambda ip, s, a, k: _name_of(ip, s)
_orig_to_str = None


def term_attr(kind):
    def f(ip, s):
        vc = ip.vc
        n = vc.choose(3, kind)          # 0, 1 or 2 objects
        objs = [mk_obj(vc, f"{kind}{k}") for k in range(n)]
        vc.ghost.setdefault("_term_objs", {})[kind] = objs      # (for the documented key, see _key_spec)
        return PList(objs)
    return f


# --- the documented key of a term (what "every term lands in the part its key describes" means) ------
def _conc(ip, v):
    return ip.vc.concretize(v) if isinstance(v, Sym) else v


def _block(ip, o):
    sp, sn = _conc(ip, o.f["space"]), _conc(ip, o.f["spin"])
    return sp if all(c == "n" for c in sn) else f"{sp}_{sn}"


def _key_spec(ip, sorter, t_name, frame_target):
    objs = ip.vc.ghost.get("_term_objs", {})
    if sorter == "by_delta_types":
        # one entry per delta occurrence (a squared delta counts twice): its space / spin block
        key = sorted(_block(ip, d) for d in objs.get("delta", []) for _ in range(d.f["exponent"]))
        return tuple(key) or ("none",)
    if sorter == "by_delta_indices":
        key = sorted("".join(_name_of(ip, s_) for s_ in d.f["idx"]) for d in objs.get("delta", [])
                     for _ in range(d.f["exponent"]))
        return tuple(key) or ("none",)
    if sorter == "by_tensor_block":
        key = sorted(_block(ip, o) for o in objs.get("tensor", []) if _conc(ip, o.f["name"]) == t_name
                     for _ in range(o.f["exponent"]))
        return tuple(key) or ("none",)
    return None     # target index sorters: key meaning only in the bounded stand-in


def term_target(ip, s):
    return Struct("IdxSetView", mem=ip.vc.fresh("target", z3.ArraySort(IdxSort, z3.BoolSort())))


C.STRUCT_CONTAINS["IdxSetView"] = lambda ip, o, x: z3.Select(o.f["mem"], x.t)
C.Schema("TermS", TermS, attrs={
    "deltas": ("py", term_attr("delta")),
    "tensors": ("py", term_attr("tensor")),
    "target": ("py", term_target),
    "assumptions": ("py", lambda ip, s: PDict({})),
})


# --- buckets ------------------------------------------------------------------
def bm_contains(ip, obj, key):
    return z3.Select(obj.f["dom"], keystr(ip.hashable(key)))


def bm_store(ip, obj, key, v):
    k = keystr(ip.hashable(key))
    if isinstance(v, Struct) and v.cls == "BucketRef":
        return              # result of `ret[key] += term` stored back
    val = z3.RealVal(0) if (isinstance(v, int) and v == 0) or \
        (isinstance(v, Struct) and v.cls == "EmptyExpr") else None
    if val is None:
        raise Unsupported("store of a non empty expression into a bucket")
    obj.f["dom"] = z3.Store(obj.f["dom"], k, True)
    obj.f["val"] = z3.Store(obj.f["val"], k, val)


def bm_subscript(ip, obj, key):
    from pyvc.vc import RaiseEx
    k = keystr(ip.hashable(key))
    if not ip.vc.decide(z3.Select(obj.f["dom"], k)):
        raise RaiseEx("KeyError", "bucket")
    return Struct("BucketRef", map=obj, key=k)


def bucket_inplace(ip, opn, cur, rhs):
    if opn == "Add" and isinstance(rhs, Sym) and rhs.schema == "TermS":
        m, k = cur.f["map"], cur.f["key"]
        m.f["val"] = z3.Store(m.f["val"], k, z3.Select(m.f["val"], k) + TVAL(rhs.t))
        m.f["added"] = m.f.get("added", 0) + 1
        return True, cur
    raise Unsupported("in place operation on a bucket")


C.STRUCT_CONTAINS["BucketMap"] = bm_contains
C.STRUCT_STORE["BucketMap"] = bm_store
C.STRUCT_SUBSCRIPT["BucketMap"] = bm_subscript
C.STRUCT_INPLACE["BucketRef"] = bucket_inplace


def _capture(ip, key):
    """ghost: the key the code computes in iteration k *is* KEYOF(k)"""
    k = ip.vc.ghost.get("_sort_k")
    arr = ip.vc.ghost.get("_sort_arr")
    if k is not None and arr is not None:
        ip.vc.assume(KEYOF(arr, k) == keystr(ip.hashable(key)))
    who = ip.vc.ghost.get("_sorter")
    if who is not None and not ip.vc.ghost.get("_key_checked"):
        spec = _key_spec(ip, who[0], who[1], None)
        if spec is not None:
            ip.vc.ghost["_key_checked"] = True
            ip.vc.check("key#the-bucket-key-lists-the-block-of-every-occurrence-with-its-multiplicity",
                        ip.hashable(key) == spec)


def _wrap_capture(fn):
    def g(ip, obj, key, *rest):
        _capture(ip, key)
        return fn(ip, obj, key, *rest)
    return g


for _reg_ in (C.STRUCT_STORE, C.STRUCT_SUBSCRIPT, C.STRUCT_CONTAINS):
    _reg_["BucketMap"] = _wrap_capture(_reg_["BucketMap"])


def to_bucketmap(v):
    if isinstance(v, Struct) and v.cls == "BucketMap":
        return v
    if isinstance(v, PDict) and not v.d:
        return Struct("BucketMap", dom=z3.K(z3.IntSort(), False), val=z3.K(z3.IntSort(), z3.RealVal(0)))
    raise Unsupported("bucket dictionary")


class SortLoop(LoopContract):
    def iter_spec(self, vc, frame, seq):
        return [("runs-over-the-terms-of-the-expression", seq.obj is frame["expr"].f["termseq"])]

    def havoc(self, vc, frame, k, seq):
        frame["ret"] = Struct("BucketMap", dom=vc.fresh("dom", KeyArrB), val=vc.fresh("val", KeyArrV))
        for nm in ("term", "d_blocks", "d_idx", "t_blocks", "key", "target", "delta", "tensor",
                   "obj", "spin", "block"):
            frame.locals.pop(nm, None)
        vc.ghost["_sort_k"] = term(k)

    def invariant(self, vc, frame, k, seq):
        arr = frame["expr"].f["termseq"].arrs[0]
        kk = term(k)
        ret = to_bucketmap(frame["ret"])
        frame["ret"] = ret
        vc.assume(VALSPEC(arr, 0) == z3.K(z3.IntSort(), z3.RealVal(0)))
        vc.assume(DOMSPEC(arr, 0) == z3.K(z3.IntSort(), False))
        key = KEYOF(arr, kk)
        vc.assume(z3.Implies(kk >= 0, z3.And(
            VALSPEC(arr, kk + 1) == z3.Store(VALSPEC(arr, kk), key,
                                             z3.If(DOMSPEC(arr, kk)[key], VALSPEC(arr, kk)[key], 0) + TVAL(arr[kk])),
            DOMSPEC(arr, kk + 1) == z3.Store(DOMSPEC(arr, kk), key, True))))
        return [("buckets-hold-exactly-the-processed-terms-each-in-one-bucket",
                 z3.And(ret.f["val"] == VALSPEC(arr, kk), ret.f["dom"] == DOMSPEC(arr, kk)))]


class _Sorter(Contract):
    props = ["C10"]
    loops = {}
    needs_name = False

    def setup(self, vc):
        n = vc.fresh_int("nterms")
        vc.assume(n >= 0)
        terms = SymSeq(Sym(n), [vc.fresh("terms", TermArr)], ("sym", TermS, "TermS"), mutable=False)
        expr = Struct("ExprArg", termseq=terms)
        C.STRUCT_ATTR[("ExprArg", "terms")] = lambda ip, o: o.f["termseq"]
        C.STRUCT_METHODS[("ExprArg", "expand")] = lambda ip, o, a, k: o
        C.STRUCT_ISINSTANCE["ExprArg"] = lambda ip, v, cls: True
        C.CLASS_MODELS["adcgen.expr_container:Expr"] = lambda ip, a, k: Struct("EmptyExpr") \
            if a[0] == 0 else (_ for _ in ()).throw(Unsupported("Expr(...)"))
        a = {"expr": expr}
        if self.needs_name:
            a["t_name"] = "V"
        # ghost: the key the code computes in iteration k *is* KEYOF(k)
        vc.ghost["_sort_arr"] = terms.arrs[0]
        vc.ghost["_sorter"] = (self.key.split(":")[1], a.get("t_name"))
        return a

    def raises(self, vc, a):
        return []

    def post(self, vc, a, result):
        seq = a["expr"].f["termseq"]
        arr, n = seq.arrs[0], term(seq.len)
        ret = to_bucketmap(result)
        return [("every-term-is-in-exactly-one-bucket-and-nothing-else",
                 z3.And(ret.f["val"] == VALSPEC(arr, n), ret.f["dom"] == DOMSPEC(arr, n)))]


def _reg(name, needs_name):
    cls = type("Sorter_" + name, (_Sorter,), {
        "key": f"adcgen.sort_expr:{name}", "needs_name": needs_name, "loops": {0: SortLoop()}})
    register(cls)


_reg("by_delta_types", False)
_reg("by_delta_indices", False)
_reg("by_tensor_block", True)
_reg("by_tensor_target_block", True)
_reg("by_tensor_target_indices", True)


@lemma("C10", "buckets-sum-to-expression")
def buckets_sum():
    """one step of the exchange-of-summation argument: adding the term to the
    bucket of its key raises the sum over all buckets by the term's value -
    stated for two arbitrary keys (the touched one and any other)"""
    v = z3.Const("v", KeyArrV)
    k1, k2 = z3.Int("k1"), z3.Int("k2")
    t = z3.Real("t")
    v2 = z3.Store(v, k1, v[k1] + t)
    return [("only-the-bucket-of-the-key-changes", z3.Implies(k1 != k2, v2[k2] == v[k2])),
            ("it-changes-by-the-term", v2[k1] == v[k1] + t)]


# --- Obj.symmetry -------------------------------------------------------------------
# The symmetry of a single object is the symmetry of the one-term expression made of
# the WHOLE object (base and exponent: an even power of a bra-ket antisymmetric tensor
# is bra-ket symmetric) in which the selected indices are the target indices.
@register
class ObjSymmetry(Contract):
    key = "adcgen.expr_container:Obj.symmetry"
    props = ["C10"]
    loops = {}

    def setup(self, vc):
        oc = vc.choose(2, "only_contracted")
        ot = vc.choose(2, "only_target")
        kind = vc.choose(3, "object")    # tensor with indices / number / NonSymmetricTensor
        whole = Struct("SympyTok", what="object-with-exponent", number=kind == 1, nonsym=kind == 2)
        base = Struct("SympyTok", what="base", number=kind == 1, nonsym=kind == 2)
        C.STRUCT_ATTR[("SympyTok", "is_number")] = lambda ip, o: o.f["number"]
        C.STRUCT_ISINSTANCE["SympyTok"] = lambda ip, v, cls: v.f["nonsym"]
        term_ = Struct("TermOfObj", contracted=Struct("IdxSel", which="contracted indices of the term"),
                       target=Struct("IdxSel", which="target indices of the term"))
        C.STRUCT_ATTR[("TermOfObj", "contracted")] = lambda ip, o: o.f["contracted"]
        C.STRUCT_ATTR[("TermOfObj", "target")] = lambda ip, o: o.f["target"]
        me = Struct("ObjArg", sympy=whole, base=base, term=term_,
                    idx=Struct("IdxSel", which="indices of the object"))
        for f in ("sympy", "base", "term", "idx"):
            C.STRUCT_ATTR[("ObjArg", f)] = (lambda f: lambda ip, o: o.f[f])(f)
        # a fresh dict on every access, like Container.assumptions
        C.STRUCT_ATTR[("ObjArg", "assumptions")] = lambda ip, o: PDict({"real": vc.ghost["_real"],
                                                                         "sym_tensors": "SYM", "antisym_tensors": "ANTI"})
        vc.ghost["_real"] = bool(vc.choose(2, "real"))

        def expr_model(ip, a, k):
            if len(a) != 1:
                raise Unsupported("Expr(...) with other than one positional argument")
            return Struct("ProbeExpr", of=a[0], kw=dict(k))
        C.CLASS_MODELS["adcgen.expr_container:Expr"] = expr_model
        C.STRUCT_ATTR[("ProbeExpr", "terms")] = lambda ip, o: PList([Struct("ProbeTerm", of=o.f["of"], kw=o.f["kw"])])
        C.STRUCT_METHODS[("ProbeTerm", "symmetry")] = lambda ip, o, a, k: Struct(
            "SymmetryOf", of=o.f["of"], kw=o.f["kw"], args=tuple(a), flags=dict(k))
        return {"self": me, "only_contracted": bool(oc), "only_target": bool(ot)}

    def raises(self, vc, a):
        return [("Inputerror", a["only_contracted"] and a["only_target"])]

    def post(self, vc, a, result):
        me = a["self"].f
        if me["sympy"].f["number"] or me["sympy"].f["nonsym"]:
            return [("numbers-and-non-symmetric-tensors-have-no-symmetry",
                     isinstance(result, PDict) and len(result.d) == 0)]
        sel = me["term"].f["contracted"] if a["only_contracted"] else \
            me["term"].f["target"] if a["only_target"] else me["idx"]
        ok = isinstance(result, Struct) and result.cls == "SymmetryOf"
        return [("symmetry-of-the-whole-object-including-its-exponent", ok and result.f["of"] is me["sympy"]),
                ("the-selected-indices-are-the-target-indices-of-the-probe",
                 ok and result.f["kw"].get("target_idx") is sel),
                ("the-probe-keeps-the-assumptions-of-the-object",
                 ok and {k: v for k, v in result.f["kw"].items() if k != "target_idx"}
                 == {"real": vc.ghost["_real"], "sym_tensors": "SYM", "antisym_tensors": "ANTI"}),
                ("only-the-target-indices-of-the-probe-are-permuted",
                 ok and result.f["args"] == () and result.f["flags"] == {"only_target": True})]


# --- Term.symmetry: every reported permutation is a true symmetry ---------------------------------
# Soundness only (which permutations are tried is irrelevant for it): a permutation product is
# stored with -1 / +1 only if  term + permuted term  /  term - permuted term  is sympy's zero, i.e. the
# permuted term has the value -/+ of the term for every assignment.  The enumeration of the candidate
# permutations (first half of the function) is executed on opaque values.
TS = "adcgen.expr_container:Term.symmetry"
PermSort = z3.DeclareSort("PermProduct")
PERM_AT = z3.Function("candidate", z3.IntSort(), PermSort)
PVAL = z3.Function("value_of_the_permuted_term", PermSort, z3.RealSort())
VAL0 = z3.Real("value_of_the_term")
PermB = z3.ArraySort(PermSort, z3.BoolSort())
PermI = z3.ArraySort(PermSort, z3.IntSort())


def _symv(vc, val):
    """sympy expression with value `val` (arbitrary fixed assignment); `zero`: it is sympy's S.Zero,
    which implies that the value vanishes"""
    z = vc.fresh_bool("is_S_Zero")
    vc.assume(z3.Implies(z, val == 0))
    return Struct("SymV", val=val, zero=z)


def _ts_install(vc):
    from pyvc.builtins import SymIter
    from spec.exprval import ZERO
    C.EXTERNALS["sympy.S.Zero"] = ZERO

    def arith(ip, opn, a, b):
        if opn in ("Add", "Sub") and all(isinstance(x, Struct) and x.cls == "SymV" for x in (a, b)):
            return _symv(ip.vc, a.f["val"] + b.f["val"] if opn == "Add" else a.f["val"] - b.f["val"])
        raise Unsupported("arithmetic on an abstract sympy term")
    C.STRUCT_ARITH["SymV"] = arith

    def is_(ip, a, b):
        x, o = (a, b) if isinstance(a, Struct) and a.cls == "SymV" else (b, a)
        if isinstance(o, Struct) and o.f.get("singleton") == "Zero":
            return x.f["zero"]
        return a is b
    C.STRUCT_IS["SymV"] = is_
    C.STRUCT_ATTR[("SymV", "is_number")] = lambda ip, o: o.f.get("number", False)
    C.STRUCT_ISINSTANCE["SymV"] = lambda ip, v, cls: v.f.get("nonsym", False)
    # the term
    for f in ("sympy", "contracted", "target", "idx"):
        C.STRUCT_ATTR[("TermSelf", f)] = (lambda f: lambda ip, o: o.f[f])(f)
    def permute(ip, o, a, k):
        # Container.permute (contract under C08): the term with the given transpositions applied
        if len(a) == 1 and not k and isinstance(a[0], tuple) and len(a[0]) == 2 and a[0][0] == "*":
            a = [a[0][1]]       # permute(*perms): the transpositions of the product `perms`
        if len(a) == 1 and not k and isinstance(a[0], Struct) and a[0].cls in ("PermV", "PermsTuple") \
                and a[0].f["id"] is not None:
            return Struct("PermutedTerm", of=a[0].f["id"])
        raise Unsupported(f"permute{a} of other than the transpositions of one candidate")
    C.STRUCT_METHODS[("TermSelf", "permute")] = permute
    C.STRUCT_ATTR[("PermutedTerm", "sympy")] = lambda ip, o: _symv(ip.vc, PVAL(o.f["of"]))
    # opaque index lists
    C.STRUCT_LEN["IdxList"] = lambda ip, o: o.f["n"]
    C.STRUCT_SYMITER["IdxList"] = lambda ip, o: SymIter(
        "indices", o, o.f["n"], lambda ip_, k: Struct("IdxTok", key=Struct("SpaceSpinKey")))
    C.STRUCT_ATTR[("IdxTok", "space_and_spin")] = lambda ip, o: o.f["key"]
    C.STRUCT_ATTR[("IdxTok", "name")] = lambda ip, o: Sym(ip.vc.fresh("index_name", z3.StringSort()))
    C.SYMBOLIC_ITERABLES.add("IdxList")
    # sorted_idx: {space_and_spin: [indices]}
    C.STRUCT_CONTAINS["SortedIdx"] = lambda ip, o, x: ip.vc.fresh_bool("key_known")
    C.STRUCT_STORE["SortedIdx"] = lambda ip, o, k, v: None
    C.STRUCT_SUBSCRIPT["SortedIdx"] = lambda ip, o, k: Struct("OpaqueList")
    C.STRUCT_METHODS[("OpaqueList", "append")] = lambda ip, o, a, k: None
    C.STRUCT_METHODS[("SortedIdx", "values")] = lambda ip, o, a, k: Struct("IdxLists")
    C.STRUCT_SYMITER["IdxLists"] = lambda ip, o: SymIter(
        "index-lists", o, Sym(_fresh_nat(ip.vc, "n_spaces")),
        lambda ip_, k: Struct("IdxList", n=Sym(_fresh_nat(ip_.vc, "n_indices_of_the_space"))))
    # candidate enumeration
    C.EXTERNALS["math.factorial"] = lambda ip, a, k: Sym(_fresh_nat(ip.vc, "factorial"))
    C.EXTERNALS["itertools.chain.from_iterable"] = lambda ip, a, k: a[0]
    C.STRUCT_SYMITER["CombsGen"] = lambda ip, o: SymIter(
        "combinations", o, Sym(_fresh_nat(ip.vc, "n_combinations")), lambda ip_, k: Struct("PermsTuple", id=None))
    C.STRUCT_ITER["PermsTuple"] = lambda ip, o: [Struct("PermV", id=o.f["id"])]
    C.STRUCT_LEN["StrList"] = lambda ip, o: Sym(_fresh_nat(ip.vc, "n_strings"))
    C.STRUCT_CONTAINS["StrList"] = lambda ip, o, x: ip.vc.fresh_bool("string_known")
    C.STRUCT_METHODS[("StrList", "append")] = lambda ip, o, a, k: None
    C.STRUCT_METHODS[("TempList", "append")] = lambda ip, o, a, k: None
    C.STRUCT_METHODS[("SpacePerms", "append")] = lambda ip, o, a, k: None
    C.STRUCT_ITER["SpacePerms"] = lambda ip, o: [Struct("TempList")]
    C.STRUCT_SYMITER["PermsGen"] = lambda ip, o: SymIter(
        "candidates", o, Sym(o.f["n"]), lambda ip_, k: Struct("PermsTuple", id=PERM_AT(term(k))))
    # the result dict
    def store(ip, o, key, v):
        if not (isinstance(key, Struct) and key.cls == "PermsTuple" and key.f["id"] is not None):
            raise Unsupported("symmetry[...] with another key")
        o.f["dom"] = z3.Store(o.f["dom"], key.f["id"], True)
        o.f["sgn"] = z3.Store(o.f["sgn"], key.f["id"], term(v))
    C.STRUCT_STORE["SymDict"] = store


def _fresh_nat(vc, name):
    n = vc.fresh_int(name)
    vc.assume(n >= 0)
    return n


def _sym_inv(d):
    p = z3.Const("p!sym", PermSort)
    return z3.ForAll([p], z3.Implies(d.f["dom"][p], z3.And(
        z3.Or(d.f["sgn"][p] == 1, d.f["sgn"][p] == -1),
        PVAL(p) == z3.ToReal(d.f["sgn"][p]) * VAL0)))


def _as_symdict(v):
    if isinstance(v, Struct) and v.cls == "SymDict":
        return v
    if isinstance(v, PDict) and not v.d:
        return Struct("SymDict", dom=z3.K(PermSort, False), sgn=z3.K(PermSort, z3.IntVal(0)))
    raise Unsupported("symmetry dictionary")


class _TsSortLoop(LoopContract):
    header = "indices"
    modifies = ("s", "key", "sorted_idx")

    def havoc(self, vc, frame, k, seq):
        frame["sorted_idx"] = Struct("SortedIdx")
        for nm in ("s", "key"):
            frame.locals.pop(nm, None)

    def invariant(self, vc, frame, k, seq):
        v = frame["sorted_idx"]
        if isinstance(v, PDict) and not v.d:
            frame["sorted_idx"] = Struct("SortedIdx")
        return []


class _TsSpaceLoop(LoopContract):
    header = "sorted_idx.values()"
    modifies = ("idx_list", "max_n_perms", "idx_string", "permuted_str", "pairs", "combs", "temp", "perms",
                "perm_str", "space_perms")

    def havoc(self, vc, frame, k, seq):
        frame["space_perms"] = Struct("SpacePerms")
        for nm in ("idx_list", "max_n_perms", "idx_string", "permuted_str", "pairs", "combs", "temp", "perms",
                   "perm_str"):
            frame.locals.pop(nm, None)

    def invariant(self, vc, frame, k, seq):
        v = frame["space_perms"]
        if isinstance(v, PList) and not v.items:
            frame["space_perms"] = Struct("SpacePerms")
        return []


class _TsCombLoop(LoopContract):
    header = "combs"
    modifies = ("perms", "perm_str", "permuted_str", "temp")

    def havoc(self, vc, frame, k, seq):
        frame["permuted_str"], frame["temp"] = Struct("StrList"), Struct("TempList")
        for nm in ("perms", "perm_str"):
            frame.locals.pop(nm, None)

    def invariant(self, vc, frame, k, seq):
        for nm, cls in (("permuted_str", "StrList"), ("temp", "TempList")):
            if isinstance(frame[nm], PList):
                frame[nm] = Struct(cls)
        return []


class _TsTestLoop(LoopContract):
    header = "get_perms(*space_perms)"
    modifies = ("perms", "permuted", "symmetry")

    def iter_spec(self, vc, frame, seq):
        return [("runs-over-the-candidate-permutation-products", isinstance(seq.obj, Struct) and seq.obj.cls == "PermsGen")]

    def havoc(self, vc, frame, k, seq):
        frame["symmetry"] = Struct("SymDict", dom=vc.fresh("reported", PermB), sgn=vc.fresh("factor", PermI))
        for nm in ("perms", "permuted"):
            frame.locals.pop(nm, None)

    def invariant(self, vc, frame, k, seq):
        d = _as_symdict(frame["symmetry"])
        frame["symmetry"] = d
        return [("every-stored-permutation-maps-the-term-onto-its-stored-factor-times-itself", _sym_inv(d))]


class _TsGetPerms(Contract):
    key = TS + ".get_perms"
    props = []
    assumed = True
    note = "nested generator: which permutation products are tried does not matter for soundness (arbitrary sequence)"

    def bind(self, vc, args, kwargs, interp):
        return {}

    def apply(self, vc, a):
        return Struct("PermsGen", n=_fresh_nat(vc, "n_candidates"))


class _TsPermuteStr(Contract):
    key = TS + ".permute_str"
    props = []
    assumed = True
    note = "nested helper of the candidate enumeration (an arbitrary string)"

    def bind(self, vc, args, kwargs, interp):
        return {}

    def apply(self, vc, a):
        return Sym(vc.fresh("permuted_names", z3.StringSort()))


register(_TsGetPerms)
register(_TsPermuteStr)


def _comp_names(ip, frame, node):
    return PList([Sym(ip.vc.fresh("names_of_the_space", z3.StringSort()))])


@register
class TermSymmetry(Contract):
    key = TS
    props = ["C10"]
    loops = {0: _TsSortLoop(), 1: _TsSpaceLoop(), 2: _TsCombLoop(), 3: _TsTestLoop()}
    comprehensions = {"s.name for s in idx_list": _comp_names,
                      "for pair in combinations(idx_list, 2)": lambda ip, frame, node: Struct("PairsList"),
                      "permutations(pairs, n) for n in range": lambda ip, frame, node: Struct("CombsGen")}

    def setup(self, vc):
        _ts_install(vc)
        kind = vc.choose(3, "term")     # tensors / number / single NonSymmetricTensor
        me = Struct("TermSelf", sympy=Struct("SymV", val=VAL0, zero=z3.BoolVal(False), number=kind == 1, nonsym=kind == 2),
                    contracted=Struct("IdxList", n=Sym(_fresh_nat(vc, "n_contracted"))),
                    target=Struct("IdxList", n=Sym(_fresh_nat(vc, "n_target"))),
                    idx=Struct("IdxList", n=Sym(_fresh_nat(vc, "n_idx"))))
        return {"self": me, "only_contracted": vc.choose(2, "only_contracted") == 1,
                "only_target": vc.choose(2, "only_target") == 1}

    def raises(self, vc, a):
        return [("Inputerror", a["only_contracted"] and a["only_target"])]

    def post(self, vc, a, result):
        d = _as_symdict(result)
        return [("every-reported-permutation-maps-the-term-onto-plus-or-minus-itself-in-value", _sym_inv(d))]
