TECH = "contract-based deductive verification: VCs generated from the real function ASTs against sidecar contracts, discharged by z3 (bounded run-time contracts only as labelled stand-ins / replay search)"
PENDING = "contracts not completed in this work yet (see DESIGN section 5.%s); no weaker technique is substituted"
CLAIMED = {
 "C09": {"text": "Every path of KroneckerDelta.preferred_and_killable / indices_contain_equal_information of the real source is executed symbolically over the full abstract index domain (space x spin of both indices) and the range-lattice postconditions (preferred carries at least as much information; None only for incomparable ranges; equal information iff equal ranges) are discharged by z3 - complete for the finite domain. evaluate_deltas' substitution side conditions are obligations of its contract.",
         "design_ref": "5.C09", "technique": TECH,
         "note": "assumed: sympy subs/atoms contracts, delta-elimination lemma (math), Index.space/spin reflect the sympy assumptions; bounded stand-in evaluate_deltas.value labelled bounded"},
}
NOT_APPLICABLE = {
 "C12": "identity between ~25 hand-typed closed formulas and derived quantities: a property of data decided by computation, not a pre/postcondition of any function within the verifier's reach (DESIGN section 6)",
}
for n in range(1, 21):
    pid = f"C{n:02d}"
    if pid not in CLAIMED and pid not in NOT_APPLICABLE:
        NOT_APPLICABLE[pid] = PENDING % pid
NOTES = "Technique family: contract-based deductive verification of the real code. Exit codes of every check: 0 held, 1 violation (+VIOLATION line), 2 undecided, 3 engine error. Known findings: /verif/known_findings.json."
