"""Executable contract for C17 on the real code (bounded stand-in): the emitted
contraction code is executed by an independent mini interpreter (einsum and
libtensor syntax) and compared with the value of the expression."""
import itertools
import random
import re
from fractions import Fraction

from sympy import Mul, S, Rational, Symbol, sqrt

from adcgen.indices import get_symbols
from adcgen.sympy_objects import (NonSymmetricTensor, AntiSymmetricTensor, KroneckerDelta,
                                  Amplitude)
from adcgen.expr_container import Expr
from adcgen.generate_code.generate_code import generate_code
from runtime.tensor_model import (Model, orbital_space, evaluate, index_range, eval_factor,
                                  all_assignments)

BUDGET_S = {"quick": 120, "thorough": 1800}
ORBS = orbital_space(1, 1)
NAMES = ["i", "j", "k", "a", "b", "c", "p"]


SPIN = [None]     # spin of all indices of the current case (None: spin orbitals)


def letter_range(ch):
    sp = "o" if ch in "ijklmno" else ("v" if ch in "abcdefgh" else "g")
    return [o for o in ORBS if (sp == "g" or o[0] == sp) and (SPIN[0] is None or o[2] == SPIN[0])]


class NT:
    """tensor with named free indices: value for an assignment letter -> orbital"""

    def __init__(self, free, fn):
        self.free = tuple(free)
        self.fn = fn

    def __call__(self, asg):
        return self.fn(asg)

    def __mul__(self, other):
        if not isinstance(other, NT):
            other = NT((), lambda a, v=Fraction(other): v)
        free = tuple(dict.fromkeys(self.free + other.free))
        return NT(free, lambda a: self(a) * other(a))

    __rmul__ = __mul__

    def __truediv__(self, other):
        return NT(self.free, lambda a: self(a) / Fraction(other))


def summed(t, letters):
    letters = [c for c in letters]
    free = tuple(c for c in t.free if c not in letters)

    def fn(a):
        tot = Fraction(0)
        for combo in itertools.product(*[letter_range(c) for c in letters]):
            b = dict(a)
            b.update(zip(letters, combo))
            tot += t(b)
        return tot
    return NT(free, fn)


class Raw:
    """tensor block without index annotation (einsum operand)"""

    def __init__(self, fn, rank):
        self.fn, self.rank = fn, rank

    def __mul__(self, other):
        if isinstance(other, (int, float, Fraction)):
            return Raw(lambda orbs, f=self.fn, c=Fraction(other): c * f(orbs), self.rank)
        if isinstance(other, EinsumResult) and other.out == "":
            return other * self
        return NotImplemented

    __rmul__ = __mul__

    def __truediv__(self, other):
        return self * (Fraction(1) / Fraction(other))


def einsum(spec, *ops):
    ins, out = spec.split("->")
    ins = ins.split(",")
    assert len(ins) == len(ops), (spec, len(ops))
    factors = []
    for letters, op in zip(ins, ops):
        if isinstance(op, Raw):
            assert len(letters) == op.rank, (letters, op.rank)
            factors.append(NT(tuple(dict.fromkeys(letters)),
                              lambda a, letters=letters, op=op: op.fn(tuple(a[c] for c in letters))))
        else:   # result of an inner einsum: positional
            assert len(letters) == len(op.out), (letters, op.out)
            factors.append(NT(tuple(dict.fromkeys(letters)),
                              lambda a, letters=letters, op=op: op.at(tuple(a[c] for c in letters))))
    prod = factors[0]
    for f in factors[1:]:
        prod = prod * f
    contracted = [c for c in dict.fromkeys("".join(ins)) if c not in out]
    res = summed(prod, contracted)
    return EinsumResult(res, out)


class EinsumResult:
    def __init__(self, nt, out):
        self.nt, self.out = nt, out
        self.cache = {}

    def at(self, orbs):
        if orbs not in self.cache:
            self.cache[orbs] = self.nt(dict(zip(self.out, orbs)))
        return self.cache[orbs]

    def __mul__(self, other):
        if isinstance(other, (int, float, Fraction)):
            return EinsumResult(self.nt * Fraction(other), self.out)
        if self.out == "" and isinstance(other, Raw):       # number times tensor
            return Raw(lambda orbs, me=self, o=other: me.at(()) * o.fn(orbs), other.rank)
        if self.out == "" and isinstance(other, EinsumResult):
            return EinsumResult(NT(other.nt.free, lambda a, me=self, o=other: me.at(()) * o.nt(a)), other.out)
        return NotImplemented

    __rmul__ = __mul__

    def __truediv__(self, other):
        return self * (Fraction(1) / Fraction(other))


class HF:
    pass


def tensor_table(expr):
    """emitted name -> Raw block, built from the objects of the expression"""
    table = {}
    for term in expr.terms:
        for obj in term.objects:
            base = obj.base
            if not obj.idx or isinstance(base, Symbol):
                continue
            name = obj.longname()
            idx = obj.idx

            def fn(orbs, base=base, idx=idx):
                return ("obj", base, idx, orbs)
            table.setdefault(name, (base, idx))
    return table


def make_env(expr, model, backend):
    env = {"einsum": einsum, "sqrt": lambda x: SqrtTok(x)}
    hf = HF()
    env["hf"] = hf
    for term in expr.terms:
        for obj in term.objects:
            if isinstance(obj.base, Symbol):     # scalar symbols of the prefactor
                env[obj.base.name] = model.symbol(obj.base.name)
    for name, (base, idx) in tensor_table(expr).items():
        raw = Raw(lambda orbs, base=base, idx=idx: eval_factor(base, dict(zip(idx, orbs)), model), len(idx))
        if name.startswith("V_"):
            setattr(hf, name[2:], raw)
            env["i_" + name[2:]] = raw
        elif name.startswith("f_"):
            setattr(hf, "f" + name[2:], raw)
            env[name] = raw
        env[name] = raw
    return env


class SqrtTok:
    def __init__(self, x):
        self.x = x


def eval_einsum_line(line, env, target):
    body = line.split("  #")[0].strip()
    sign = -1 if body.startswith("-") else 1
    body = body[1:].strip()
    # exact arithmetic: numeric literals become Fractions (names such as
    # hf.oovv or Z_o contain no free standing numbers)
    parts = body.split('"')
    for n in range(0, len(parts), 2):
        parts[n] = re.sub(r"(?<![\w.])(\d+(?:\.\d+)?)(?![\w.])", r'FR("\1")', parts[n])
    body = '"'.join(parts)
    env = dict(env, FR=Fraction)
    val = eval(body, {"__builtins__": {}}, env)     # noqa: S307 (our own generated text)
    if isinstance(val, Raw):
        res = NT(tuple(target), lambda a: val.fn(tuple(a[c] for c in target)))
        if val.rank != len(target):
            raise ValueError("bare tensor with wrong rank")
    elif isinstance(val, EinsumResult):
        if val.out != target:
            raise ValueError(f"einsum result {val.out} instead of {target}")
        res = val.nt
    else:
        res = NT((), lambda a, v=Fraction(val): v)
    return NT(tuple(target), lambda a: sign * res(a))


# --- libtensor mini grammar ---------------------------------------------------------
def parse_libtensor(text, env):
    pos = [0]

    def peek():
        return text[pos[0]:pos[0] + 1]

    def expr_():
        f = factor()
        while text[pos[0]:pos[0] + 3] == " * ":
            pos[0] += 3
            f = f * factor()
        return f

    def ident():
        m = re.match(r"[A-Za-z_][A-Za-z_0-9:.]*", text[pos[0]:])
        pos[0] += m.end()
        return m.group(0)

    def arglist():
        args = [expr_()]
        while text[pos[0]:pos[0] + 2] == ", ":
            pos[0] += 2
            args.append(expr_())
        return args

    def factor():
        m = re.match(r"\d+\.\d+|\d+", text[pos[0]:])
        if m:
            pos[0] += m.end()
            v = Fraction(m.group(0))
            if text[pos[0]:pos[0] + 3] == " / ":
                m2 = re.match(r" / (\d+\.\d+|\d+)", text[pos[0]:])
                pos[0] += m2.end()
                v = v / Fraction(m2.group(1))
            return NT((), lambda a, v=v: v)
        name = ident()
        if name == "contract":
            assert peek() == "("
            pos[0] += 1
            m = re.match(r"([a-z](\|[a-z])*), ", text[pos[0]:])
            pos[0] += m.end()
            letters = m.group(1).split("|")
            args = arglist()
            assert peek() == ")"
            pos[0] += 1
            prod = args[0]
            for x in args[1:]:
                prod = prod * x
            return summed(prod, letters)
        if name == "dot_product":
            pos[0] += 1
            args = arglist()
            pos[0] += 1
            prod = args[0]
            for x in args[1:]:
                prod = prod * x
            return summed(prod, prod.free)
        if peek() != "(" and isinstance(env.get(name), (int, Fraction)):    # scalar symbol
            return NT((), lambda a, v=Fraction(env[name]): v)
        if peek() == "(":
            pos[0] += 1
            m = re.match(r"([a-z](\|[a-z])*)?\)", text[pos[0]:])
            pos[0] += m.end()
            letters = m.group(1).split("|") if m.group(1) else []
            raw = env[name]
            return NT(tuple(dict.fromkeys(letters)),
                      lambda a, raw=raw, letters=letters: raw.fn(tuple(a[c] for c in letters)))
        raise ValueError(f"cannot parse {text[pos[0] - len(name):]!r}")
    res = expr_()
    if pos[0] != len(text):
        raise ValueError(f"trailing text {text[pos[0]:]!r}")
    return res


def eval_libtensor_line(line, env, target):
    body = line.split("  //")[0].strip()
    sign = -1 if body.startswith("-") else 1
    res = parse_libtensor(body[1:].strip(), env)
    if set(res.free) != set(target):
        raise ValueError(f"free indices {res.free}, requested {target}")
    return NT(tuple(target), lambda a: sign * res(a))


def run_code(code, env, target, backend):
    """value tensor of the whole emitted program"""
    total = []
    for block in code.split("\n\n"):
        lines = block.split("\n")
        assert lines[0].startswith("The scaling comment"), lines[0]
        m = re.fullmatch(r"Apply (.*) to:", lines[1])
        perm = m.group(1)
        ops = [(1, [])]
        if perm != "1":
            for tok in re.findall(r"([+-]) ((?:P_[a-z][a-z])+)", perm):
                sgn = 1 if tok[0] == "+" else -1
                pairs = re.findall(r"P_([a-z])([a-z])", tok[1])
                ops.append((sgn, pairs))
        parts = []
        for ln in lines[2:]:
            parts.append(eval_einsum_line(ln, env, target) if backend == "einsum"
                         else eval_libtensor_line(ln, env, target))
        total.append((ops, parts))

    def value(asg):
        tot = Fraction(0)
        for ops, parts in total:
            for sgn, pairs in ops:
                a = dict(asg)
                for x, y in pairs:       # transpositions applied one after another
                    a[x], a[y] = a[y], a[x]
                for p in parts:
                    tot += sgn * p(a)
        return tot
    return value


def build(case):
    spin = case.get("spin")
    idx = {n: get_symbols(n, spin)[0] for n in NAMES + ["l"]}
    fs = []
    for kind, names, exp in case["objs"]:
        t = tuple(idx[n] for n in names) if kind != "S" else ()
        h = len(t) // 2
        if kind == "V":
            o = AntiSymmetricTensor("V", t[:h], t[h:], 1)
        elif kind == "f":
            o = AntiSymmetricTensor("f", t[:1], t[1:], 1)
        elif kind == "A":
            o = AntiSymmetricTensor("A", t[:h], t[h:])
        elif kind == "d":
            o = KroneckerDelta(*t)
        elif kind == "S":
            o = Symbol(names[0])
        else:
            o = NonSymmetricTensor("Z", t)
        fs.append(o ** exp)
    return idx, Rational(*case["pref"]) * Mul(*fs)


def gen_cases(tier, seed):
    rng = random.Random(seed)
    yield {"objs": [["f", ["i", "j"], 1]], "pref": [1, 1], "target": "ij", "backend": "einsum"}
    yield {"objs": [["X", ["i", "i"], 1]], "pref": [1, 2], "target": "", "backend": "einsum"}
    yield {"objs": [["X", ["i", "j"], 1]], "pref": [1, 1], "target": "ji", "backend": "libtensor"}
    # hyper-contractions of tensors that share their name and block
    yield {"objs": [["X", ["i", "k"], 1], ["X", ["k", "l"], 1], ["A", ["l", "k"], 1], ["X", ["l", "j"], 1]],
           "pref": [1, 1], "target": "ij", "backend": "einsum"}
    yield {"objs": [["X", ["i", "k"], 1], ["X", ["k", "l"], 1], ["A", ["l", "k"], 1], ["X", ["l", "j"], 1],
                    ["X", ["l", "c"], 1]], "pref": [3, 2], "target": "ijc", "backend": "einsum"}
    # scalar symbols in the prefactor (with multiplicity), alone and with tensors
    yield {"objs": [["S", ["w"], 1], ["X", ["i", "a"], 1]], "pref": [1, 2], "target": "ia", "backend": "einsum"}
    yield {"objs": [["S", ["w"], 2], ["S", ["y"], 1], ["X", ["i", "a"], 1], ["A", ["a", "i"], 1]],
           "pref": [-3, 2], "target": "", "backend": "libtensor"}
    yield {"objs": [["S", ["w"], 2], ["X", ["i", "a"], 1], ["V", ["j", "a", "b", "i"], 1]],
           "pref": [-3, 4], "target": "jb", "backend": "einsum"}
    yield {"objs": [["S", ["y"], 3], ["X", ["j", "i"], 1], ["X", ["i", "i"], 1]],
           "pref": [1, 3], "target": "j", "backend": "libtensor", "optimize": False}
    for _ in range(80 if tier == "quick" else 1500):
        objs = []
        if rng.random() < 0.25:
            objs.append(["S", [rng.choice(["w", "y"])], rng.choice([1, 1, 2])])
        for _o in range(rng.randint(1, 3)):
            kind = rng.choice(["V", "f", "A", "X", "X", "d"])
            if kind == "V":
                names = rng.sample(["i", "j", "k"], 2) + rng.sample(["a", "b", "c"], 2)
                rng.shuffle(names)
            elif kind == "A":
                names = rng.sample(NAMES[:6], 2)
            elif kind == "f":
                names = rng.sample(NAMES[:6], 2)
            elif kind == "d":
                names = rng.sample(["i", "j", "k"], 2) if rng.random() < 0.5 else rng.sample(["a", "b", "c"], 2)
            else:
                names = [rng.choice(NAMES) for _ in range(rng.randint(1, 3))]
            objs.append([kind, names, rng.choice([1, 1, 1, 2])])
        yield {"objs": objs, "pref": [rng.choice([1, -1, 3]), rng.choice([1, 2, 4, 3])],
               "tseed": rng.randint(0, 10 ** 6), "backend": rng.choice(["einsum", "einsum", "libtensor"]),
               "optimize": rng.random() < 0.7, "comma": rng.random() < 0.3,
               # spatial orbitals of one spin with an explicit target spin string
               "spin": rng.choice([None, None, "a", "b"])}


def check(case):
    idx, sym = build(case)
    if sym is S.Zero or sym.is_number:
        return True, "trivial"
    e = Expr(sym, real=True)
    if len(e.terms) != 1:
        return True, "not a single term"
    term = e.terms[0]
    if "target" in case:
        tnames = list(case["target"])
    else:
        tnames = [s.name for s in term.target]
        random.Random(case["tseed"]).shuffle(tnames)
    target = [idx[n] for n in tnames]
    if sorted(s.name for s in term.target) != sorted(tnames):
        return True, "targets do not match"
    tstr = "".join(tnames)
    if case.get("comma") and len(tnames) >= 2:
        tstr = tstr[:len(tstr) // 2] + "," + tstr[len(tstr) // 2:]
    model = Model(ORBS, seed=17, braket={"V": 1, "f": 1})
    backend = case["backend"]
    SPIN[0] = case.get("spin")
    tspin = case["spin"] * len(tnames) if case.get("spin") else None
    try:
        code = generate_code(e, tstr, target_spin=tspin, backend=backend,
                             optimize_contraction_scheme=case.get("optimize", True))
    except NotImplementedError as ex:
        return True, f"refused: {ex}"
    env = make_env(e, model, backend)
    try:
        value = run_code(code, env, "".join(tnames), backend)
        for asg in all_assignments(target, ORBS):
            exp = evaluate(e.sympy, asg, model)
            got = value({s.name: o for s, o in asg.items()})
            if got != exp:
                return False, (f"generated {backend} code for {e} (target {tstr}) evaluates to {got}, "
                               f"expression {exp} at {asg}:\n{code}")
    except Exception as ex:
        return False, f"emitted {backend} code cannot be executed ({type(ex).__name__}: {ex}):\n{code}"
    return True, ""


CHECKS = {
    "generated_code.execute": {
        "function": "adcgen.generate_code.generate_code:generate_code", "cases": gen_cases,
        "check": check,
        "bound": "single terms of <= 3 objects (ERI, Fock, antisymmetric / non symmetric tensors, deltas, exponents <= 2, traces), optionally times a scalar Symbol with exponent <= 3 over 7 single letter index names, random target order with / without bra-ket separator, rational prefactors, einsum and libtensor backends, optimised / unoptimised schemes, spin orbital indices or indices of one spin with an explicit target spin string; emitted text executed by an independent interpreter, 2 occ + 2 virt spin orbitals",
    },
}
