"""Property check driver.

    python3-vt -m pyvc.check <PROP> [--tier quick|thorough] [--replay PATH]

exit 0: every obligation discharged (and no bounded stand-in failed)
exit 1: VIOLATION (refuted obligation, or failing concrete input)
exit 2: undecided (unknown / unsupported construct / missing function)
exit 3: engine error
"""
import argparse
import hashlib
import importlib
import json
import multiprocessing as mp
import os
import re
import subprocess
import sys
import time
import traceback

VERIF = os.path.dirname(os.path.dirname(os.path.abspath(__file__)))
if VERIF not in sys.path:
    sys.path.insert(0, VERIF)

from pyvc import contract as C            # noqa: E402
from pyvc.source import SourceTable, repo_root   # noqa: E402

ALL_PROPS = [f"C{n:02d}" for n in range(1, 21)]


def load_contracts(prop):
    """imports contracts/<prop>.py; it imports whatever else it needs."""
    mod = importlib.import_module(f"contracts.{prop.lower()}")
    return mod


def _verify_worker(args):
    prop, key, first = args
    try:
        from pyvc.driver import verify_function
        src = _verify_worker.src
        return verify_function(src, key, prop, first)
    except Exception as e:
        return {"key": key, "prop": prop, "paths": 0, "obligations": [],
                "raw_obligations": 0, "undecided": ["engine error: " + repr(e) + traceback.format_exc()],
                "engine_error": True, "missing": False, "covers": {}, "sha1": None,
                "wall_s": 0.0}


def _lemma_worker(args):
    prop, name = args
    import z3
    fn = C.LEMMAS[prop][name]
    t0 = time.time()
    try:
        res = fn()
        # a lemma function returns a list of (subname, z3 formula to be valid)
        out = []
        for sub, f in res:
            s = z3.Solver()
            s.set("timeout", 20000)
            s.add(z3.Not(f))
            t1 = time.time()
            r = s.check()
            ms = (time.time() - t1) * 1000
            o = {"name": f"{prop}/lemma.{name}/{sub}", "paths": 1,
                 "result": "unsat" if r == z3.unsat else ("sat" if r == z3.sat else "unknown"),
                 "solver_ms": ms, "backend": "z3", "kind": "vc", "model": None,
                 "smt2": None, "info": {}}
            if r == z3.sat:
                m = s.model()
                o["model"] = {str(d): str(m[d]) for d in m.decls()}
                o["smt2"] = s.to_smt2()
            out.append(o)
        return {"key": f"lemma.{name}", "prop": prop, "paths": 1, "obligations": out,
                "raw_obligations": len(out), "undecided": [], "engine_error": False,
                "missing": False, "covers": {}, "sha1": None, "wall_s": time.time() - t0}
    except Exception as e:
        return {"key": f"lemma.{name}", "prop": prop, "paths": 0, "obligations": [],
                "raw_obligations": 0, "undecided": ["engine error: " + repr(e) + traceback.format_exc()],
                "engine_error": True, "missing": False, "covers": {}, "sha1": None,
                "wall_s": time.time() - t0}


def run_runtime(prop, tier, seed, only=None, timeout=None):
    """bounded stand-ins / replay search: runs runtime/<prop>.py in a separate
    interpreter (the real adcgen is imported there)."""
    path = os.path.join(VERIF, "runtime", f"{prop.lower()}.py")
    if not os.path.exists(path):
        return {"checks": [], "error": None}
    env = dict(os.environ)
    env["PYTHONPATH"] = VERIF + os.pathsep + repo_root()
    env.setdefault("PYTHONHASHSEED", "0")
    cmd = [sys.executable, "-m", "runtime.runner", prop, "--tier", tier,
           "--seed", str(seed)]
    if only:
        cmd += ["--only", only]
    try:
        p = subprocess.run(cmd, cwd=VERIF, env=env, capture_output=True,
                           text=True, timeout=timeout or (9000 if tier == "thorough" else 900))
    except subprocess.TimeoutExpired:
        return {"checks": [], "error": "runtime checks timed out"}
    lines = [ln for ln in p.stdout.splitlines() if ln.startswith("RUNTIME-JSON ")]
    if not lines:
        return {"checks": [], "error": "runtime runner produced no result: " +
                p.stderr[-2000:]}
    return json.loads(lines[-1][len("RUNTIME-JSON "):])


def merge_split(results):
    """results of one function explored in several processes are merged"""
    out, by_key = [], {}
    rank = {"unsat": 0, "unknown": 1, "sat": 2}
    for r in results:
        k = r["key"]
        if k not in by_key:
            by_key[k] = r
            r["_obs"] = {o["name"]: o for o in r["obligations"]}
            out.append(r)
            continue
        m = by_key[k]
        m["paths"] += r["paths"]
        m["wall_s"] = max(m["wall_s"], r["wall_s"])
        m["undecided"] = sorted(set(m["undecided"]) | set(r["undecided"]))
        m["engine_error"] |= r["engine_error"]
        for c, n in r["covers"].items():
            m["covers"][c] = m["covers"].get(c, 0) + n
        for o in r["obligations"]:
            e = m["_obs"].get(o["name"])
            if e is None:
                m["_obs"][o["name"]] = o
            else:
                e["paths"] += o["paths"]
                e["solver_ms"] += o["solver_ms"]
                if rank[o["result"]] > rank[e["result"]]:
                    e.update({x: o[x] for x in ("result", "model", "smt2", "info")})
    for r in out:
        r["obligations"] = list(r.pop("_obs").values())
    return out


def slug(s):
    return re.sub(r"[^A-Za-z0-9_.#-]+", "_", s)[:150]


def write_replay_runtime(prop, check_name, case, detail):
    d = os.path.join(VERIF, "replays", prop)
    os.makedirs(d, exist_ok=True)
    path = os.path.join(d, slug(check_name) + ".py")
    body = f'''#!/usr/bin/env python
"""Replay of a violated contract of property {prop} on the real code.
check: runtime.{prop.lower()}.{check_name}
Run:   /venv/bin/python {path}      (PYVC_REPO selects the tree, default /repo)
"""
import json, os, sys
sys.path.insert(0, {VERIF!r})
sys.path.insert(0, os.environ.get("PYVC_REPO", "/repo"))
CASE = json.loads({json.dumps(json.dumps(case))})
DETAIL_AT_DETECTION = {json.dumps(detail)!r}
from runtime import {prop.lower()} as R
ok, detail = R.CHECKS[{check_name!r}]["check"](CASE)
print("case:", CASE)
print("detail:", detail)
print("contract holds" if ok else "CONTRACT VIOLATED")
sys.exit(0 if ok else 1)
'''
    with open(path, "w") as f:
        f.write(body)
    return path


def write_replay_obligation(prop, ob, found=None):
    d = os.path.join(VERIF, "replays", prop)
    os.makedirs(d, exist_ok=True)
    path = os.path.join(d, slug(ob["name"].split("/", 1)[1]) + ".py")
    body = f'''#!/usr/bin/env python
"""Refuted obligation of property {prop} (no failing concrete input was found
by the replay search: the verifier's output is attached).
obligation: {ob["name"]}
"""
import sys
OBLIGATION = {ob["name"]!r}
RESULT = {ob["result"]!r}
MODEL = {json.dumps(ob.get("model"), indent=1)}
SMT2 = {json.dumps(ob.get("smt2"))}
print("refuted obligation:", OBLIGATION)
print("solver model:", MODEL)
sys.exit(1)
'''
    with open(path, "w") as f:
        f.write(body)
    return path


def load_known():
    p = os.path.join(VERIF, "known_findings.json")
    if not os.path.exists(p):
        return {"known": [], "fixed": []}
    with open(p) as f:
        return json.load(f)


def match_known(known, prop, name, case=None):
    for k in known.get("known", []):
        if k["property"] != prop:
            continue
        if k.get("check") and k["check"] != name:
            continue
        if k.get("obligation") and k["obligation"] not in name:
            continue
        if "case" in k and case is not None and k["case"] != case:
            continue
        if "case" in k and case is None:
            continue
        return k
    return None


def main(argv=None):
    ap = argparse.ArgumentParser()
    ap.add_argument("prop")
    ap.add_argument("--tier", default=os.environ.get("VERIF_TIER", "quick"))
    ap.add_argument("--jobs", type=int, default=min(16, os.cpu_count() or 4))
    ap.add_argument("--no-runtime", action="store_true")
    ap.add_argument("--no-evidence", action="store_true")
    ap.add_argument("--only", default=None, help="only functions whose key contains this")
    args = ap.parse_args(argv)
    prop = args.prop
    tier = args.tier if args.tier in ("quick", "thorough") else "quick"
    seed = int(os.environ.get("VERIF_SEED", "0") or 0)
    t0 = time.time()
    exit_code = 0
    try:
        mod = load_contracts(prop)
    except Exception:
        print("engine error while loading contracts:\n" + traceback.format_exc())
        return 3
    src = SourceTable()
    _verify_worker.src = src
    keys = [k for k, c in C.REGISTRY.items() if prop in c.props and not c.assumed]
    if args.only:
        keys = [k for k in keys if args.only in k]
    lemmas = list(getattr(C, "LEMMAS", {}).get(prop, {}).keys())
    tasks = []
    for k in keys:
        n = getattr(C.REGISTRY[k], "split_first_choice", None)
        if n:
            tasks.extend((prop, k, i) for i in range(n))
        else:
            tasks.append((prop, k, None))
    results = []
    ctx = mp.get_context("fork")
    with ctx.Pool(min(args.jobs, max(1, len(tasks) + len(lemmas)))) as pool:
        r1 = pool.map_async(_verify_worker, tasks, chunksize=1)
        r2 = pool.map_async(_lemma_worker, [(prop, n) for n in lemmas], chunksize=1)
        rt = None
        if not args.no_runtime:
            rt = run_runtime(prop, tier, seed)
        results = r1.get() + r2.get()
    # ---- collect ----------------------------------------------------------
    obligations = []
    undecided = []
    engine_error = False
    functions = []
    results = merge_split(results)
    for r in results:
        obligations.extend(r["obligations"])
        for u in r["undecided"]:
            undecided.append(f"{r['key']}: {u}")
        engine_error |= r["engine_error"]
        if not r["key"].startswith("lemma."):
            functions.append({"function": r["key"], "sha1_of_verified_ast": r["sha1"],
                              "paths": r["paths"], "wall_s": round(r["wall_s"], 3),
                              "covers": r["covers"]})
            if not r["obligations"] and not r["undecided"]:
                undecided.append(f"{r['key']}: zero obligations generated")
    vcs = [o for o in obligations if o["kind"] == "vc"]
    covers = [o for o in obligations if o["kind"] == "cover"]
    refuted = [o for o in vcs if o["result"] == "sat"]
    unknown = [o for o in vcs if o["result"] == "unknown"]
    vacuous = [o for o in covers if o["result"] != "unsat"]
    for o in unknown:
        undecided.append(f"{o['name']}: solver returned unknown ({o['info'].get('reason')})")
    for o in vacuous:
        undecided.append(f"{o['name']}: vacuous (precondition unsatisfiable)")
    known = load_known()
    violations = []
    known_lines = []
    # ---- runtime / bounded --------------------------------------------------
    bounded = []
    if rt is not None:
        if rt.get("error"):
            undecided.append("runtime: " + rt["error"])
        for ch in rt.get("checks", []):
            entry = {k: ch[k] for k in ("name", "function", "cases",
                                        "failures_n", "bound", "wall_s")}
            entry["cases_skipped_on_timeout"] = ch.get("timeouts", 0)
            entry["case_list_exhausted"] = bool(ch.get("exhausted", True))
            bounded.append(entry)
            if ch.get("error"):
                undecided.append(f"runtime check {ch['name']}: {ch['error']}")
            for fail in ch.get("failures", []):
                k = match_known(known, prop, ch["name"], fail["case"])
                if k:
                    known_lines.append(f"KNOWN-FINDING: property={prop} {k['what']}")
                    continue
                path = write_replay_runtime(prop, ch["name"], fail["case"], fail["detail"])
                violations.append({"what": f"bounded/runtime contract {ch['name']} fails on the real code",
                                   "replay": path, "confirmed": True,
                                   "function": ch["function"]})
    # ---- refuted obligations --------------------------------------------------
    for o in refuted:
        k = match_known(known, prop, o["name"])
        if k:
            known_lines.append(f"KNOWN-FINDING: property={prop} {k['what']}")
            continue
        fkey = o["name"].split("/")[1]
        confirmed = [v for v in violations if v.get("function") == fkey and v["confirmed"]]
        if confirmed:
            violations.append({"what": f"refuted obligation {o['name']}",
                               "replay": confirmed[0]["replay"], "confirmed": True,
                               "function": fkey})
        else:
            path = write_replay_obligation(prop, o)
            violations.append({"what": f"refuted obligation {o['name']}",
                               "replay": path, "confirmed": False, "function": fkey})
    # ---- verdict --------------------------------------------------------------
    n_ob = len(vcs)
    n_dis = len([o for o in vcs if o["result"] == "unsat"])
    if n_ob == 0:
        undecided.append("no obligations generated")
        engine_error = True
    for line in sorted(set(known_lines)):
        print(line)
    for v in violations:
        tail = "" if v["confirmed"] else " no-failing-input-found"
        print(f"# {v['what']}")
        print(f"VIOLATION property={prop} replay={v['replay']}{tail}")
    if violations:
        exit_code = 1
    elif engine_error:
        exit_code = 3
    elif undecided:
        exit_code = 2
    for u in undecided:
        print("UNDECIDED:", u[:2000])
    wall = time.time() - t0
    samples = []
    for o in vcs:
        if o.get("smt2") and len(samples) < 3:
            samples.append({"obligation": o["name"], "result": o["result"],
                            "smt2": o["smt2"][:6000]})
    if not samples:
        samples = [{"obligation": o["name"], "result": o["result"]} for o in vcs[:3]]
    assumptions = list(getattr(mod, "ASSUMPTIONS", []))
    assumed_contracts = [f"assumed contract (not verified): {k} - {c.note}"
                         for k, c in C.REGISTRY.items() if c.assumed]
    evidence = {
        "property_id": prop,
        "tier": tier,
        "seed": seed,
        "level": "proof",
        "coverage": {
            "obligations": n_ob,
            "discharged": n_dis,
            "checker_cmd": f"python3-vt -m pyvc.check {prop} --tier {tier}",
            "trusted_base": [
                "pyvc: AST -> VC generator of /verif/pyvc (own implementation; guarded by seeded breaks and CPython differential runs, see DESIGN 2.5)",
                "z3 " + __import__("z3").get_version_string(),
                "Python semantics of the supported subset as stated in DESIGN 2.3",
            ] + list(getattr(mod, "TRUSTED", [])),
            "functions_under_contract": functions,
            "obligation_list": [
                {"name": o["name"], "result": {"unsat": "discharged", "sat": "REFUTED",
                                               "unknown": "unknown"}[o["result"]],
                 "paths": o["paths"], "solver_ms": round(o["solver_ms"], 2),
                 "backend": o["backend"]} for o in vcs],
            "vacuity_checks": [{"name": o["name"], "ok": o["result"] == "unsat"} for o in covers],
            "solver_ms_total": round(sum(o["solver_ms"] for o in vcs), 1),
            "bounded": bounded,
            "bounded_note": "bounded stand-ins run the real function against its executable contract on all inputs up to the stated bound; never counted in obligations/discharged",
            "undecided": undecided,
            "known_findings": sorted(set(known_lines)),
            "samples": samples,
            "repo_root": repo_root(),
        },
        "assumptions": assumptions + assumed_contracts + list(C.ASSUMPTIONS),
        "wall_s": round(wall, 2),
        "violations": len(violations),
    }
    if not args.no_evidence and not args.only:
        os.makedirs(os.path.join(VERIF, "evidence"), exist_ok=True)
        with open(os.path.join(VERIF, "evidence", f"{prop}.json"), "w") as f:
            json.dump(evidence, f, indent=1)
    print(f"{prop} [{tier}]: functions={len(functions)} obligations={n_ob} discharged={n_dis} "
          f"refuted={len(refuted)} unknown={len(unknown)} undecided={len(undecided)} "
          f"bounded_checks={len(bounded)} violations={len(violations)} wall={wall:.1f}s exit={exit_code}")
    return exit_code


if __name__ == "__main__":
    sys.exit(main())
