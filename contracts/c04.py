"""C04 - intermediate states are orthonormal order by order (series level).
Contracts on adcgen.intermediate_states:IntermediateStates.overlap_isr /
overlap_precursor / intermediate_state / expand_S_taylor and
adcgen.groundstate:GroundState.expand_norm_factor."""
import z3
from pyvc import contract as C
from pyvc.contract import Contract, LoopContract, register, lemma
from pyvc.values import (Struct, Sym, SymSeq, PList, PDict, Inst, term, wrap, zand, zor,
                         znot, zeq, mk_enum, Unsupported)
from pyvc.vc import RaiseEx
from spec.exprval import mk_expr, as_expr, real
from spec.series import (AtomSort, RulesSort, NO_RULES, VEV, atom_nc, mk_nc, new_stamp,
                         stamps_of, WORDVAL, ncv_value)
from spec import gsmodel as G
from spec import isrmodel as M
import contracts.c02 as c02

ASSUMPTIONS = c02.ASSUMPTIONS + [
    "symmetric (Loewdin) orthonormalisation as a power series: (1+x)^(-1/2) (1+x) (1+x)^(-1/2) = 1 coefficient-wise, Gram-Schmidt against lower classes (lemmas/loewdin.md) - the orthonormality statement of C04 follows from the proved formulas by this lemma (paper proof), not by the solver",
    "Taylor expansions: sympy.diff / subs / nsimplify on c (1+x)^a with an EXACT exponent a (sympy Rational, int) are mathematical; machine arithmetic treated as mathematical only for the integral float exponent -1.0 of expand_norm_factor (coefficients (-1)^k compared natively up to k = 40); any other float exponent is outside the model (UNDECIDED) - the float -0.5 formerly used by expand_S_taylor lost the exact coefficients beyond 8th order (defect 31b9bd8, found by the thorough tier of expand_S_taylor.binomial_series)",
    "gen_term_orders returns a duplicate free enumeration of the compositions: body verified for term_length 0..4 (contracts/c02.py, listed under this property); for a symbolic term_length (exponents of the Taylor expansions) it stays an assumed contract with the bounded check gen_term_orders.compositions",
    "adcgen.func:evaluate_deltas preserves the value (C09)",
    "sympy diff on c(1+x)^a gives c a (1+x)^(a-1); subs(x, 0) gives c; nsimplify(rational=True) keeps the value",
]
TRUSTED = ["Loewdin orthonormalisation lemma (paper proof)"]

ISR = "adcgen.intermediate_states:IntermediateStates"
BK = ["bra", "ket"]
BLOCKS = [("ph,ph", "ia,jb"), ("ph,pphh", "ia,jkbc"), ("pphh,pphh", "ijab,klcd"),
          ("h,h", "i,j"), ("ph", "ia,jb"), ("ph,ph", "ia")]


VARIANTS = {"pp": ["ph", "hp"], "ea": ["p"], "ip": ["h"], "dip": ["hh"], "dea": ["pp"]}


def new_isr(vc, variant="pp"):
    gs = c02.new_gs(vc)
    return Inst(ISR, {"gs": gs, "indices": Struct("Indices"),
                      "variant": variant, "min_space": PList(list(VARIANTS[variant]))})


class _Assumed(Contract):
    assumed = True
    props = []


@register
class EvaluateDeltas(_Assumed):
    key = "adcgen.func:evaluate_deltas"
    note = "C09 contract: value preserved"

    def apply(self, vc, a):
        return a["expr"]


def bad_order(o):
    return (o < 0) if isinstance(o, int) else o.t < 0


@register
class IntermediateStateCallee(Contract):
    """callers' view + verification of intermediate_state"""
    key = ISR + ".intermediate_state"
    props = ["C04", "C03", "C05"]

    SPACES = [("ph", "ia"), ("pphh", "ijab"), ("h", "i"), ("pph", "iab"), ("ph", "ia,jb")]

    def setup(self, vc):
        space, idx = self.SPACES[vc.choose(len(self.SPACES), "space")]
        bk = BK[vc.choose(2, "braket")]
        return {"self": new_isr(vc), "order": Sym(vc.fresh_int("order")), "space": space,
                "braket": bk, "indices": idx}

    def raises(self, vc, a):
        return [("Inputerror", zor(bad_order(a["order"]), "," in a["indices"],
                                   a["braket"] not in BK))]

    def apply(self, vc, a):
        for exc, when in self.raises(vc, a):
            if vc.decide(when):
                raise RaiseEx(exc)
        idx = a["indices"]
        if isinstance(idx, tuple):
            idx = ",".join(idx)
        key = (a["space"], a["braket"], idx)
        tag = a["self"].attrs.get("_tag") if isinstance(a.get("self"), Inst) else None
        if tag:
            key = (tag,) + key
        at = M.atom_of("ISTATE", *key)(term(a["order"]))
        return atom_nc(at, frozenset([("istate", key + (str(term(a["order"])),), True)]))

    def post(self, vc, a, result):
        fr = vc.ghost.get("_is_frame")
        if fr is None:
            return [("loop-reached", False)]
        n = term(a["order"])
        return [("is-class-factor-times-sum-of-s_root-times-precursor",
                 ncv_value(result) == IS_PREFIX(fr)(n, n + 1))]


def IS_PREFIX(frame):
    return M.fn("IS_PREFIX", z3.IntSort(), z3.IntSort(), z3.RealSort())


class ISLoop(LoopContract):
    def iter_spec(self, vc, frame, seq):
        return c02.iter_is_compositions2(vc, seq, frame["order"], 0)

    def havoc(self, vc, frame, k, seq):
        frame["res"] = Struct("NCV", val=vc.fresh_real("is_acc"), stamps=frozenset())
        for nm in ("term", "i1"):
            frame.locals.pop(nm, None)

    def invariant(self, vc, frame, k, seq):
        vc.ghost["_is_frame"] = frame
        n = term(frame["order"])
        kk = term(k)
        space, bk = frame["space"], frame["braket"]
        idx, pre = frame["indices"], frame["idx_pre"]
        # S^(-1/2) carries (I, J#) for a bra and (J#, I) for a ket state
        pair = f"{idx},{pre}" if bk == "bra" else f"{pre},{idx}"
        sroot = M.real_of("SROOT", f"{space},{space}", pair)
        prec = M.atom_of("PRECURSOR", space, bk, pre)
        P = IS_PREFIX(frame)
        vc.assume(P(n, 0) == 0)
        vc.assume(z3.Implies(kk >= 0, P(n, kk + 1) == P(n, kk) +
                             M.class_factor(space) * sroot(kk) * WORDVAL(prec(n - kk))))
        return [("accumulator-is-prefix", ncv_value(frame["res"]) == P(n, kk))]


IntermediateStateCallee.loops = {0: ISLoop()}


# --- s_root: n-th order coefficient of S^(-1/2) ---------------------------------------------------
#   (S^-1/2)^(n)_{I,I'} = sum_{k=1}^{n//2} binom(-1/2, k) sum_{compositions c of n into k parts >= 2}
#                         (1/(n_o! n_v!))^(k-1)  S^(c_1)_{I,X1} S^(c_2)_{X1,X2} ... S^(c_k)_{X(k-1),I'}
# the intermediate index sets X_j are summed without restriction: every such sum carries the
# weight 1/(n_o! n_v!) of the excitation class (the documented convention, cf. intermediate_state
# and the lower-class projector of precursor).
from spec.exprval import POW, pow_axioms

SR_OVL = z3.Function("precursor_overlap_along_the_chain", z3.IntSort(), z3.IntSort(), z3.IntSort(), z3.RealSort())
SR_PROD = z3.Function("sroot_prefix_product", z3.IntSort(), z3.IntSort(), z3.IntSort(), z3.IntSort(), z3.RealSort())
SR_INNER = z3.Function("sroot_prefix_sum_over_compositions", z3.IntSort(), z3.IntSort(), z3.IntSort(), z3.RealSort())
SR_OUTER = z3.Function("sroot_prefix_sum_over_powers", z3.IntSort(), z3.IntSort(), z3.RealSort())
HALF = z3.RealVal("-1/2")


def _chain_code(pos, L):
    """identity of the pos-th index string of a chain of L factors: I (0), the generic index
    sets X_1 .. X_(L-1), and I' (coded -1) at position L"""
    return z3.If(pos == L, z3.IntVal(-1), pos)


def _taylor_pref(vc, k):
    """binom(-1/2, k) as delivered by expand_S_taylor"""
    vc.assume(TAYC(HALF, 0) == 1)
    vc.assume(z3.Implies(k >= 0, TAYC(HALF, k + 1) == TAYC(HALF, k) * (HALF - z3.ToReal(k))))
    vc.assume(G.FACT(k) >= 1)
    return TAYC(HALF, k) / z3.ToReal(G.FACT(k))


def _cf_weight(vc, space, L):
    cf = M.class_factor(space)
    pow_axioms(vc, cf, L - 1)
    return POW(cf, L - 1)


def _expand_s_taylor_callers_view(self, vc, a):
    """callers' view of expand_S_taylor (the function is verified below)"""
    n, m = a["order"], a.get("min_order", 2)
    if vc.decide(zor(term(n) < 0, term(m) <= 0)):
        raise RaiseEx("Inputerror")
    if vc.decide(term(n) < term(m)):
        return PList([(1, PList([(n,)]))])
    return Struct("STaylorListV", n=term(n), m=term(m))


def _staylor_symiter(ip, obj):
    from pyvc.builtins import SymIter
    n, m = obj.f["n"], obj.f["m"]

    def item(ip_, e):
        k = term(e) + 1
        pref = mk_expr(_taylor_pref(ip_.vc, k), False)
        pref.f["stamps"] = frozenset()
        return (pref, Struct("Compositions", n=n, L=k, m=m))
    return SymIter("taylor-list", obj, Sym(n / m), item)


C.STRUCT_SYMITER["STaylorListV"] = _staylor_symiter
C.STRUCT_LEN["STaylorListV"] = lambda ip, v: Sym(v.f["n"] / v.f["m"])
C.STRUCT_LEN["CompTuple"] = lambda ip, v: Sym(v.f["L"])

# the list of index strings [I, X1, .., X(K-1), I']
C.STRUCT_METHODS[("IdxChain", "insert")] = lambda ip, o, a, k: None


def _chain_subscript(ip, obj, idx):
    if isinstance(idx, int) and idx == -1:
        return Struct("ChainIdx", pos=z3.IntVal(-1), L=z3.IntVal(-1))
    if isinstance(idx, tuple) and idx and idx[0] == "slice" and idx[1] in (None, 0) and idx[3] is None:
        L = term(idx[2])
        ip.vc.check("chain#prefix-of-the-index-list-has-enough-generic-index-sets", L <= obj.f["K"])
        return Struct("ChainPrefix", L=L)
    raise Unsupported("this access to the list of index strings")


C.STRUCT_SUBSCRIPT["IdxChain"] = _chain_subscript


def _prefix_arith(ip, opn, a, b):
    if opn == "Add" and isinstance(a, Struct) and a.cls == "ChainPrefix" and isinstance(b, PList) and \
            len(b.items) == 1 and isinstance(b.items[0], Struct) and b.items[0].cls == "ChainIdx":
        return Struct("RelIdx", start=z3.IntVal(0), L=a.f["L"])
    raise Unsupported("arithmetic on the list of index strings")


C.STRUCT_ARITH["ChainPrefix"] = _prefix_arith


def _rel_subscript(ip, obj, idx):
    st, L = obj.f["start"], obj.f["L"]
    if isinstance(idx, int) and idx == 0:
        return Struct("ChainIdx", pos=st, L=L)
    if isinstance(idx, tuple) and idx and idx[0] == "slice" and idx[1] in (None, 0) and idx[2] == 2:
        ip.vc.check("chain#two-index-strings-are-left-for-the-factor", st + 1 <= L)
        return (Struct("ChainIdx", pos=st, L=L), Struct("ChainIdx", pos=st + 1, L=L))
    raise Unsupported("this access to the remaining index strings")


def _rel_del(ip, obj, args, kwargs):
    if args[0] != 0:
        raise Unsupported("del of another position")
    obj.f["start"] = obj.f["start"] + 1


C.STRUCT_SUBSCRIPT["RelIdx"] = _rel_subscript
C.STRUCT_METHODS[("RelIdx", "__delitem__")] = _rel_del
C.STRUCT_LEN["RelIdx"] = lambda ip, v: Sym(v.f["L"] + 1 - v.f["start"])


def _chainidx_eq(ip, a, b):
    for x, y in ((a, b), (b, a)):
        if isinstance(x, Struct) and x.cls == "ChainIdx" and isinstance(y, str):
            st = ip.vc.ghost["_sr"]
            code = _chain_code(x.f["pos"], x.f["L"]) if not z3.eq(x.f["L"], z3.IntVal(-1)) else z3.IntVal(-1)
            if y == st["last"]:
                return code == -1
            if y == st["first"]:
                return code == 0
            return False
    return a is b


C.STRUCT_EQ["ChainIdx"] = _chainidx_eq


class _SrChainLoop(LoopContract):
    """for _ in range(len(taylor_expansion) - 1): idx.insert(-1, <fresh generic index string>)"""
    modifies = ("new_idx",)

    def havoc(self, vc, frame, k, seq):
        t = frame["taylor_expansion"]
        K = (t.f["n"] / t.f["m"]) if isinstance(t, Struct) else z3.IntVal(1)
        frame["idx"] = Struct("IdxChain", K=K)
        for nm in ("_", "new_idx"):
            frame.locals.pop(nm, None)


class _SrPowerLoop(LoopContract):
    def havoc(self, vc, frame, k, seq):
        e = mk_expr(vc.fresh_real("s_root"), False)
        e.f["stamps"] = frozenset()
        frame["res"] = e
        for nm in ("pref", "termlist", "term", "i1", "o", "relevant_idx"):
            frame.locals.pop(nm, None)

    def invariant(self, vc, frame, k, seq):
        n = term(frame["order"])
        kk = term(k)
        space = frame["block"][0]
        vc.assume(SR_OUTER(n, 0) == 0)
        vc.assume(z3.Implies(kk >= 0, SR_OUTER(n, kk + 1) == SR_OUTER(n, kk) +
                             _taylor_pref(vc, kk + 1) * _cf_weight(vc, space, kk + 1) *
                             SR_INNER(n, kk + 1, M.NCOMP(n, kk + 1, z3.IntVal(2)))))
        return [("accumulator-is-prefix-of-the-sum-over-the-powers-of-the-overlap-matrix",
                 as_expr(frame["res"]).f["val"] == SR_OUTER(n, kk))]


class _SrCompLoop(LoopContract):
    def havoc(self, vc, frame, k, seq):
        e = mk_expr(vc.fresh_real("s_root"), False)
        e.f["stamps"] = frozenset()
        frame["res"] = e
        for nm in ("term", "i1", "o", "relevant_idx"):
            frame.locals.pop(nm, None)

    def iter_spec(self, vc, frame, seq):
        o = frame["termlist"]
        ok = isinstance(o, Struct) and o.cls == "Compositions"
        return [("runs-over-the-compositions-of-the-order-into-k-parts-of-at-least-2",
                 zand(o.f["n"] == term(frame["order"]), o.f["m"] == 2) if ok else False)]

    def invariant(self, vc, frame, k, seq):
        n = term(frame["order"])
        L = frame["termlist"].f["L"]
        c = term(k)
        space = frame["block"][0]
        vc.assume(SR_INNER(n, L, 0) == 0)
        vc.assume(z3.Implies(c >= 0, SR_INNER(n, L, c + 1) == SR_INNER(n, L, c) + SR_PROD(n, L, c, L)))
        return [("accumulator-is-outer-prefix-plus-coefficient-times-prefix-over-the-compositions",
                 as_expr(frame["res"]).f["val"] == SR_OUTER(n, L - 1) +
                 _taylor_pref(vc, L) * _cf_weight(vc, space, L) * SR_INNER(n, L, c)),
                ("prefactor-is-the-binomial-coefficient", as_expr(frame["pref"]).f["val"] == _taylor_pref(vc, L))]


class _SrProdLoop(LoopContract):
    modifies = ("relevant_idx",)

    def havoc(self, vc, frame, k, seq):
        e = mk_expr(vc.fresh_real("i1"), False)
        z = vc.fresh_bool("i1_zero")
        vc.assume(z3.Implies(z, e.f["val"] == 0))
        e.f["zero"] = Sym(z)
        e.f["stamps"] = frozenset()
        frame["i1"] = e
        t = frame["term"].f
        frame["relevant_idx"] = Struct("RelIdx", start=term(k), L=t["L"])
        frame.locals.pop("o", None)

    def invariant(self, vc, frame, k, seq):
        t = frame["term"].f
        n, L, c = t["n"], t["L"], t["k"]
        j = term(k)
        space = frame["block"][0]
        vc.assume(SR_PROD(n, L, c, 0) == 1)
        vc.assume(z3.Implies(j >= 0, SR_PROD(n, L, c, j + 1) == SR_PROD(n, L, c, j) *
                             SR_OVL(M.COMP(n, L, z3.IntVal(2), c, j), _chain_code(j, L), _chain_code(j + 1, L))))
        rel = frame["relevant_idx"]
        ok = isinstance(rel, Struct) and rel.cls == "RelIdx"
        return [("product-is-coefficient-times-class-weights-times-prefix-of-the-chain-product",
                 as_expr(frame["i1"]).f["val"] ==
                 _taylor_pref(vc, L) * _cf_weight(vc, space, L) * SR_PROD(n, L, c, j)),
                ("remaining-index-strings-start-at-the-current-factor",
                 z3.And(rel.f["start"] == j, rel.f["L"] == L) if ok else False)]

    def at_break(self, vc, frame, k, seq):
        t = frame["term"].f
        n, L, c = t["n"], t["L"], t["k"]
        j = term(k)
        vc.assume(z3.Implies(z3.And(SR_PROD(n, L, c, j + 1) == 0, j + 1 <= L), SR_PROD(n, L, c, L) == 0))
        # (the assert behind the loop expects all index strings to be consumed: it fires
        #  when the product vanishes before the last factor - see may_raise)
        vc.ghost["_sr_left_before_last_factor"] = j + 1 < L
        return [("left-early-only-with-a-vanishing-product", as_expr(frame["i1"]).f["val"] == 0)]


@register
class SRoot(Contract):
    key = ISR + ".s_root"
    props = ["C04", "C03", "C05"]
    note = "n-th order coefficient of (S^-1/2)_{I,I'}"
    loops = {0: _SrChainLoop(), 1: _SrPowerLoop(), 2: _SrCompLoop(), 3: _SrProdLoop()}
    CASES = [("pp", "ph,ph", "ia,jb"), ("pp", "pphh,pphh", "ijab,klcd"), ("ip", "phh,phh", "ija,klb"),
             ("ip", "h,h", "i,j"), ("pp", "ph,pphh", "ia,jkbc"), ("pp", "ph,ph", "ia,ib")]
    split_first_choice = len(CASES)

    def setup(self, vc):
        from pyvc.builtins import b_tuple
        from pyvc.values import PyFunc

        def tuple_model(ip, args, kwargs):
            if args and isinstance(args[0], tuple) and args[0] and isinstance(args[0][0], Struct) \
                    and args[0][0].cls == "ChainIdx":
                return args[0]
            return b_tuple(ip, args, kwargs)
        vc.ip.builtins = dict(vc.ip.builtins, tuple=PyFunc(tuple_model, "tuple"))
        variant, block, idx = self.CASES[vc.choose(len(self.CASES), "case")]
        parts = idx.split(",")
        vc.ghost["_sr"] = {"first": parts[0], "last": parts[-1]}
        return {"self": new_isr(vc, variant), "order": Sym(vc.fresh_int("order")), "block": block,
                "indices": idx}

    def raises(self, vc, a):
        b, i = a["block"].split(","), a["indices"].split(",")
        rep = len(i) == 2 and bool(set(G.split_names(i[0])) & set(G.split_names(i[1])))
        return [("Inputerror", zor(bad_order(a["order"]), len(i) != 2, rep)),
                ("NotImplementedError", zand(znot(bad_order(a["order"])), len(i) == 2, not rep,
                                             len(b) == 2 and b[0] != b[1]))]

    def may_raise(self, vc, a):
        # latent: a structurally vanishing overlap in front of the last factor of a chain trips
        # the consistency assert of the index bookkeeping (no such overlap is known)
        cond = vc.ghost.get("_sr_left_before_last_factor")
        return [("AssertionError", cond if cond is not None else z3.BoolVal(False))]

    def apply(self, vc, a):
        block, idx = a["block"], a["indices"]
        block = ",".join(block) if isinstance(block, tuple) else block
        idx = ",".join(idx) if isinstance(idx, tuple) else idx
        if vc.decide(bad_order(a["order"])):
            raise RaiseEx("Inputerror")
        e = mk_expr(M.real_of("SROOT", block, idx)(term(a["order"])), False)
        e.f["stamps"] = frozenset([("s_root", (block, idx, str(term(a["order"]))), True)])
        return e

    def post(self, vc, a, result):
        n = term(a["order"])
        val = z3.RealVal(result) if isinstance(result, int) else as_expr(result).f["val"]
        below = SR_OVL(n, z3.IntVal(0), z3.IntVal(-1))
        return [("is-the-series-coefficient-of-the-inverse-square-root-with-class-weights",
                 val == z3.If(n < 2, below, SR_OUTER(n, n / 2)))]


# --- precursor states ------------------------------------------------------------------
# |I#>^(n) = C_I |Psi>^(n)
#            - [PP] sum_{k+a+b+c=n} N^(k) |Psi^(a)> <Psi^(b)| C_I |Psi^(c)>
#            - sum_{lower classes L} 1/(n_o! n_v!)_L sum_{k+a+b+c=n} N^(k) |J_L^(a)> <J_L^(b)| C_I |Psi^(c)>
# (Gram-Schmidt orthogonalisation against the ground state and the intermediate states of
# the lower excitation classes; unrestricted sum over the indices of J_L), and the adjoint
# formula for bra states.  Values are taken under an arbitrary linear functional on the
# formal sums of states (spec/series.py: word_value).
from spec.series import word_value, nc_linear_value


def _psi_word(order_t, bkcode):
    """([] if order == 0 else [PSI]) as a pair (is_zero, atom)"""
    return (order_t == 0, c02.PSI(order_t, bkcode))


def _vev_optional(parts):
    """VEV of a word whose entries (zero_cond, atom) are dropped when
    zero_cond holds (Psi^(0) = 1); zero_cond None: always present"""
    def rec(i, word):
        if i == len(parts):
            return VEV(NO_RULES, tuple(word))
        cond, atom = parts[i]
        if cond is None:
            return rec(i + 1, word + [atom])
        return z3.If(cond, rec(i + 1, word), rec(i + 1, word + [atom]))
    return rec(0, [])


def _state_value(cond, atom):
    return WORDVAL(atom) if cond is None else z3.If(cond, z3.RealVal(1), WORDVAL(atom))


def prec_operator_atom(vc, indices, braket):
    """NO(C_I) resp. NO(C_I^dagger) for the target indices of the state"""
    names = G.split_names(indices)
    occ = tuple(G.registry_index(vc, n) for n in names if n[0] in "ijklmno")
    virt = tuple(G.registry_index(vc, n) for n in names if n[0] in "abcdefgh")
    op = G.XOP(G.tuple_id(virt), G.tuple_id(occ), z3.BoolVal(False))
    if braket == "bra":
        op = G.DAGGER(op)
    return G.NORMAL(op)


def prec_gs_term(op, braket, parts):
    a, b, c = parts
    if braket == "ket":     # |Psi^(a)> <Psi^(b)| C |Psi^(c)>
        st = _state_value(*_psi_word(a, 1))
        v = _vev_optional([_psi_word(b, 0), (None, op), _psi_word(c, 1)])
    else:                   # <Psi^(a)| C+ |Psi^(b)> <Psi^(c)|
        st = _state_value(*_psi_word(c, 0))
        v = _vev_optional([_psi_word(a, 0), (None, op), _psi_word(b, 1)])
    return st * v


def prec_lower_term(op, braket, lower, idx_l, parts):
    a, b, c = parts
    J = lambda bk: M.atom_of("ISTATE", lower, bk, idx_l)
    if braket == "ket":     # |J^(a)> <J^(b)| C |Psi^(c)>
        st = WORDVAL(J("ket")(a))
        v = _vev_optional([(None, J("bra")(b)), (None, op), _psi_word(c, 1)])
    else:                   # <Psi^(a)| C+ |J^(b)> <J^(c)|
        st = WORDVAL(J("bra")(c))
        v = _vev_optional([_psi_word(a, 0), (None, op), (None, J("ket")(b))])
    return M.class_factor(lower) * st * v


class _PrecOuter(M.NormOuterLoop):
    """res -= (norm * projection).expand() over the splittings (k, n - k)"""
    inner_len = 3
    scratch = ("norm_term", "norm", "orders_projection", "projection", "term", "i1", "state")

    def tagname(self, frame):
        raise NotImplementedError

    def outer(self, frame):
        return M.fn(f"OUTER[{self.tagname(frame)}]", z3.IntSort(), z3.IntSort(), z3.RealSort())

    def inner_total(self, vc, frame, r):
        inner = M.fn(f"INNER[{self.tagname(frame)}]", z3.IntSort(), z3.IntSort(), z3.RealSort())
        return inner(r, M.NCOMP(r, z3.IntVal(self.inner_len), z3.IntVal(0)))

    def havoc(self, vc, frame, k, seq):
        frame["res"] = Struct("NCV", val=vc.fresh_real("res"), stamps=frozenset())
        for nm in self.scratch:
            frame.locals.pop(nm, None)

    def invariant(self, vc, frame, k, seq):
        key = "_prec_base:" + self.tagname(frame)
        if isinstance(k, int) and k == 0:
            # loop entry: the value accumulated so far
            vc.ghost[key] = ncv_value(frame["res"])
        base = vc.ghost[key]
        n = term(frame["order"])
        kk = term(k)
        O = self.outer(frame)
        vc.assume(O(n, 0) == 0)
        vc.assume(z3.Implies(kk >= 0, O(n, kk + 1) == O(n, kk) +
                             c02.NORM(kk) * self.inner_total(vc, frame, n - kk)))
        return [("state-is-what-was-there-minus-the-prefix-of-norm-times-projector",
                 ncv_value(frame["res"]) == base - O(n, kk))]


class _PrecInner(M.InnerSumLoop):
    acc_var = "projection"
    inner_len = 3
    scratch = ("term", "i1", "state")

    def tagname(self, frame):
        raise NotImplementedError

    def rest(self, frame):
        return frame["norm_term"][1]

    def havoc(self, vc, frame, k, seq):
        frame["projection"] = Struct("NCV", val=vc.fresh_real("projection"), stamps=frozenset())
        for nm in self.scratch:
            frame.locals.pop(nm, None)

    def invariant(self, vc, frame, k, seq):
        r = term(self.rest(frame))
        kk = term(k)
        inner = M.fn(f"INNER[{self.tagname(frame)}]", z3.IntSort(), z3.IntSort(), z3.RealSort())
        parts = self.parts_at(vc, frame, kk)
        vc.assume(inner(r, 0) == 0)
        vc.assume(z3.Implies(kk >= 0, inner(r, kk + 1) == inner(r, kk) +
                             self.term_spec(vc, frame, [p.t if isinstance(p, Sym) else z3.IntVal(p)
                                                        for p in parts])))
        return [("projector-is-prefix-of-the-sum-over-order-splittings",
                 ncv_value(frame["projection"]) == inner(r, kk))]


def _gs_tag(frame):
    return f"prec_gs|{frame['space']}|{frame['braket']}|{frame['indices']}"


def _low_tag(frame):
    return f"prec_low|{frame['space']}|{frame['braket']}|{frame['indices']}|{frame['lower_space']}"


class _GsOuter(_PrecOuter):
    def tagname(self, frame):
        return _gs_tag(frame)


class _GsInner(_PrecInner):
    def tagname(self, frame):
        return _gs_tag(frame)

    def term_spec(self, vc, frame, parts):
        op = prec_operator_atom(vc, frame["indices"], frame["braket"])
        return prec_gs_term(op, frame["braket"], parts)


class _LowOuter(_PrecOuter):
    def tagname(self, frame):
        return _low_tag(frame)


class _LowInner(_PrecInner):
    def tagname(self, frame):
        return _low_tag(frame)

    def term_spec(self, vc, frame, parts):
        op = prec_operator_atom(vc, frame["indices"], frame["braket"])
        # the documented weight of the unrestricted sum over the lower class
        return prec_lower_term(op, frame["braket"], frame["lower_space"], frame["idx_isr"], parts)


class _PsiCacheLoop(LoopContract):
    """fills the table of ground state wave functions of order > n // 2 (each
    requested once, so that a wave function never meets itself in a product)"""

    def havoc(self, vc, frame, k, seq):
        n = term(frame["order"])
        frame["gs_psi"] = PDict({"bra": Struct("PsiCache", bk="bra", n=n),
                                 "ket": Struct("PsiCache", bk="ket", n=n)})
        frame.locals.pop("o", None)

    def iter_spec(self, vc, frame, seq):
        n = term(frame["order"])
        return c02.iter_is_int_range(vc, seq, n / 2 + 1, n + 1)


def _psicache_get(ip, obj, args, kwargs):
    # present or not: both continuations are explored
    if ip.vc.choose(2, "cached") == 0:
        return None
    return _psicache_item(ip, obj, args[0], check=False)


def _psicache_item(ip, obj, o, check=True):
    vc = ip.vc
    n = obj.f["n"]
    ot = term(o)
    if check:
        vc.check("cache#requested-order-is-in-the-table", z3.And(ot > n / 2, ot <= n))
    bk = BK.index(obj.f["bk"])
    # one object per (braket, order): a symbolic stamp, compared semantically
    return atom_nc(c02.PSI(ot, bk), frozenset([("sym:psi-cache", (bk, ot), True)]))


C.INLINE.add(ISR + ".validate_space")
C.INLINE.add(ISR + "._generate_lower_spaces")
C.STRUCT_METHODS[("PsiCache", "get")] = _psicache_get
C.STRUCT_SUBSCRIPT["PsiCache"] = lambda ip, obj, idx: _psicache_item(ip, obj, idx)
C.STRUCT_STORE["PsiCache"] = lambda ip, obj, idx, v: None


@register
class Precursor(Contract):
    key = ISR + ".precursor"
    props = ["C04", "C03", "C05"]
    note = "n-th order precursor state"
    loops = {0: _PsiCacheLoop(), 1: _GsOuter(), 2: _GsInner(), 4: _LowOuter(), 5: _LowInner()}
    CASES = [("pp", "ph", "ia"), ("pp", "pphh", "ijab"), ("ip", "h", "i"), ("ip", "phh", "ija"),
             ("ea", "pph", "iab"), ("dip", "phhh", "ijka"), ("ip", "pphhh", "ijkab"), ("pp", "ph", "ia,jb"),
             ("pp", "ph", "ijab"), ("ip", "ph", "ia")]
    split_first_choice = len(CASES)

    def setup(self, vc):
        variant, space, idx = self.CASES[vc.choose(len(self.CASES), "case")]
        bk = BK[vc.choose(2, "braket")]
        return {"self": new_isr(vc, variant), "order": Sym(vc.fresh_int("order")), "space": space,
                "braket": bk, "indices": idx}

    @staticmethod
    def _valid_space(variant, space):
        mins = VARIANTS[variant]
        sp, lower = space, []
        for _ in range(min(sp.count("p"), sp.count("h"))):
            sp = sp.replace("p", "", 1).replace("h", "", 1)
            if not sp:
                break
            lower.append(sp)
        return space in mins or any(x in mins for x in lower), lower

    def raises(self, vc, a):
        variant = a["self"].attrs["variant"]
        idx = a["indices"]
        names = G.split_names(idx.replace(",", ""))
        n_o = sum(1 for c in names if c[0] in "ijklmno")
        n_v = sum(1 for c in names if c[0] in "abcdefgh")
        bad = ("," in idx) or not self._valid_space(variant, a["space"])[0] or \
            n_o != a["space"].count("h") or n_v != a["space"].count("p") or len(names) != n_o + n_v
        return [("Inputerror", zor(bad_order(a["order"]), a["braket"] not in BK, bad))]

    def apply(self, vc, a):
        if vc.decide(zor(bad_order(a["order"]), a["braket"] not in BK)):
            raise RaiseEx("Inputerror")
        key = (a["space"], a["braket"], a["indices"])
        at = M.atom_of("PRECURSOR", *key)(term(a["order"]))
        return atom_nc(at, frozenset([("precursor", key + (str(term(a["order"])),), True)]))

    def post(self, vc, a, result):
        n = term(a["order"])
        variant, space, bk, idx = a["self"].attrs["variant"], a["space"], a["braket"], a["indices"]
        op = prec_operator_atom(vc, idx, bk)
        lead = z3.If(n == 0, word_value((op,)), word_value((op, c02.PSI(n, BK.index(bk)))))
        frame = {"space": space, "braket": bk, "indices": idx}
        total = lead
        real_fn = lambda tag: M.fn(f"OUTER[{tag}]", z3.IntSort(), z3.IntSort(), z3.RealSort())
        if variant == "pp":
            total = total - real_fn(_gs_tag(frame))(n, n + 1)
        for lower in self._valid_space(variant, space)[1]:
            total = total - real_fn(_low_tag(dict(frame, lower_space=lower)))(n, n + 1)
        return [("is-the-gram-schmidt-orthogonalised-excited-wavefunction",
                 ncv_value(result) == total)]


# --- overlap matrices --------------------------------------------------------------
class _OvlOuter(M.NormOuterLoop):
    inner_len = 2
    scratch = ("norm_term", "norm", "orders_overlap", "overlap", "term", "i1")


class _OvlInner(M.InnerSumLoop):
    acc_var = "overlap"
    inner_len = 2
    scratch = ("term", "i1")
    kind = "ISTATE"

    def rest(self, frame):
        return frame["norm_term"][1]

    def term_spec(self, vc, frame, parts):
        block, indices = frame["block"], frame["indices"]
        bra = M.atom_of(self.kind, block[0], "bra", indices[0])(parts[0])
        ket = M.atom_of(self.kind, block[1], "ket", indices[1])(parts[1])
        return VEV(NO_RULES, (bra, ket))


class _OverlapBase(Contract):
    props = ["C04"]
    tag = None

    def setup(self, vc):
        block, idx = BLOCKS[vc.choose(len(BLOCKS), "block")]
        return {"self": new_isr(vc), "order": Sym(vc.fresh_int("order")),
                "block": block, "indices": idx}

    def raises(self, vc, a):
        return [("Inputerror", zor(bad_order(a["order"]), len(a["block"].split(",")) != 2,
                                   len(a["indices"].split(",")) != 2))]

    def fresh_result(self, vc, a):
        return mk_expr(vc.fresh_real("ovl"), False)

    def post(self, vc, a, result):
        n = term(a["order"])
        O = M.fn(f"OUTER[{self.tag}]", z3.IntSort(), z3.IntSort(), z3.RealSort())
        return [("is-sum-over-norm-factor-and-order-splittings",
                 as_expr(result).f["val"] == O(n, n + 1))]


def _mk_loops(tag, kind):
    outer = type(f"Outer{tag}", (_OvlOuter,), {"tag": tag})()
    inner = type(f"Inner{tag}", (_OvlInner,), {"tag": tag, "kind": kind})()
    return {0: outer, 1: inner}


@register
class OverlapIsr(_OverlapBase):
    key = ISR + ".overlap_isr"
    tag = "overlap_isr"
    loops = _mk_loops("overlap_isr", "ISTATE")


@register
class OverlapPrecursor(_OverlapBase):
    key = ISR + ".overlap_precursor"
    tag = "overlap_precursor"
    loops = _mk_loops("overlap_precursor", "PRECURSOR")

    def apply(self, vc, a):
        ind = a.get("indices")
        if isinstance(ind, tuple) and len(ind) == 2 and all(isinstance(x, Struct) and x.cls == "ChainIdx"
                                                            for x in ind):
            # callers' view inside s_root: element of the n-th order precursor overlap matrix
            # between two index strings of the chain [I, X1, .., I']
            if vc.decide(bad_order(a["order"])):
                raise RaiseEx("Inputerror")
            ca, cb = (_chain_code(x.f["pos"], x.f["L"]) for x in ind)
            e = mk_expr(SR_OVL(term(a["order"]), ca, cb), False)
            z = vc.fresh_bool("ovl_zero")
            vc.assume(z3.Implies(z, e.f["val"] == 0))
            e.f["zero"] = Sym(z)
            e.f["stamps"] = new_stamp(vc, "overlap_precursor")
            return e
        st = vc.ghost.get("_sr")
        if st and isinstance(ind, tuple) and ind == (st["first"], st["last"]):
            # below second order the list of index strings is just [I, I']
            if vc.decide(bad_order(a["order"])):
                raise RaiseEx("Inputerror")
            e = mk_expr(SR_OVL(term(a["order"]), z3.IntVal(0), z3.IntVal(-1)), False)
            z = vc.fresh_bool("ovl_zero")
            vc.assume(z3.Implies(z, e.f["val"] == 0))
            e.f["zero"] = Sym(z)
            e.f["stamps"] = new_stamp(vc, "overlap_precursor")
            return e
        return Contract.apply(self, vc, a)

    def raises(self, vc, a):
        base = super().raises(vc, a)[0][1]
        parts = a["indices"].split(",")
        rep = len(parts) == 2 and bool(set(G.split_names(parts[0])) & set(G.split_names(parts[1])))
        return [("Inputerror", zor(base, rep))]


# --- Taylor expansions ----------------------------------------------------------------
TAYC = z3.Function("taylor_falling_factorial", z3.RealSort(), z3.IntSort(), z3.RealSort())


def var_arith(ip, opn, a, b):
    if opn == "Add" and (a == 1 or b == 1):
        return Struct("OnePlusX")
    raise Unsupported("arithmetic on the Taylor variable")


def opx_arith(ip, opn, a, b):
    if opn == "Pow" and isinstance(a, Struct) and a.cls == "OnePlusX":
        if isinstance(b, int) and not isinstance(b, bool):
            return Struct("Taylor", c=z3.RealVal(1), a=z3.RealVal(b))
        if isinstance(b, Struct) and b.cls == "Expr":       # sympy Rational / exact number
            return Struct("Taylor", c=z3.RealVal(1), a=as_expr(b).f["val"])
        if isinstance(b, float) and b == int(b):
            # integral float exponent (expand_norm_factor: -1.0): treated as the exact integer -
            # ASSUMPTION machine arithmetic = mathematical; the coefficients (-1)^k were compared
            # natively up to k = 40 (beyond any order the bounded checks reach)
            return Struct("Taylor", c=z3.RealVal(1), a=z3.RealVal(int(b)))
        if isinstance(b, float):
            # a float exponent makes every coefficient a 15 digit float (nsimplify does not recover
            # the exact value beyond 8th order - defect 31b9bd8): not modelled as exact arithmetic
            raise Unsupported("float exponent in the Taylor expansion: machine arithmetic is not modelled")
    raise Unsupported("arithmetic on 1 + x")


C.STRUCT_ARITH["Var"] = var_arith
C.STRUCT_ARITH["OnePlusX"] = opx_arith
C.EXTERNALS["sympy.symbols"] = lambda ip, a, k: Struct("Var")


def model_diff(ip, args, kwargs):
    """sympy.diff(c (1+x)^a, x[, n]): n-fold derivative (n = 1, 2 decided;
    larger symbolic n are outside the model)"""
    f = args[0]
    if not (isinstance(f, Struct) and f.cls == "Taylor"):
        raise Unsupported("diff of a non Taylor object")
    if kwargs or len(args) > 3 or (len(args) > 1 and not (isinstance(args[1], Struct) and args[1].cls == "Var")):
        raise Unsupported("diff with these arguments")
    n = args[2] if len(args) == 3 else 1
    if not isinstance(n, int):
        if ip.vc.decide(zeq(n, 1)):
            n = 1
        elif ip.vc.decide(zeq(n, 2)):
            n = 2
        elif ip.vc.decide(zeq(n, 0)):
            n = 0
        else:
            raise Unsupported("derivative of symbolic order > 2")
    if n < 0 or n > 6:
        raise Unsupported("derivative order")
    c, a = f.f["c"], f.f["a"]
    for _ in range(n):
        c, a = c * a, a - 1
    return Struct("Taylor", c=c, a=a)


C.EXTERNALS["sympy.diff"] = model_diff
C.EXTERNALS["sympy.nsimplify"] = lambda ip, a, k: a[0]
C.STRUCT_METHODS[("Taylor", "subs")] = lambda ip, o, a, k: mk_expr(o.f["c"], False) \
    if a[1] == 0 else (_ for _ in ()).throw(Unsupported("subs"))


def tlist_append(ip, obj, args, kwargs):
    obj.f["last"] = args[0]
    obj.f["len"] = obj.f["len"] + 1
    return None


C.STRUCT_METHODS[("TaylorList", "append")] = tlist_append


def tlist_len(v):
    if isinstance(v, PList):
        return z3.IntVal(len(v.items)) if not v.items else None
    return v.f["len"]


class TaylorLoop(LoopContract):
    alpha = None

    def iter_spec(self, vc, frame, seq):
        n, m = term(frame["order"]), term(frame["min_order"])
        return c02.iter_is_int_range(vc, seq, 1, n / m + 1)

    def havoc(self, vc, frame, k, seq):
        frame["f"] = Struct("Taylor", c=vc.fresh_real("tc"), a=vc.fresh_real("ta"))
        frame["ret"] = Struct("TaylorList", len=term(k), last=None)
        for nm in ("exp", "pref", "orders"):
            frame.locals.pop(nm, None)

    def invariant(self, vc, frame, k, seq):
        al = z3.RealVal(self.alpha)
        kk = term(k)
        n, m = term(frame["order"]), term(frame["min_order"])
        vc.assume(TAYC(al, 0) == 1)
        vc.assume(z3.Implies(kk >= 0, TAYC(al, kk + 1) == TAYC(al, kk) * (al - z3.ToReal(kk))))
        ok, f = frame.lookup("f")
        ok2, ret = frame.lookup("ret")
        if not (ok and ok2):
            raise Unsupported("the loop contract of the Taylor expansion is stated over the locals "
                              "`f` (current derivative) and `ret`, which this function no longer has")
        out = []
        if not (isinstance(f, Struct) and f.cls == "Taylor"):
            return [("f-is-c-times-(1+x)^a", False)]
        out.append(("derivative-coefficient-is-falling-factorial", f.f["c"] == TAYC(al, kk)))
        out.append(("derivative-exponent", f.f["a"] == al - z3.ToReal(kk)))
        ln = tlist_len(ret)
        out.append(("one-entry-per-exponent", False if ln is None else ln == kk))
        last = ret.f.get("last") if isinstance(ret, Struct) else None
        if last is not None:
            # entry kk-1: (Taylor coefficient of x^kk, compositions of n into kk parts)
            ok = isinstance(last, tuple) and len(last) == 2 and \
                isinstance(last[1], Struct) and last[1].cls == "Compositions"
            if not ok:
                out.append(("entry-is-(coefficient, compositions)", False))
            else:
                pref, comp = last
                out.append(("entry-prefactor-is-taylor-coefficient",
                            as_expr(pref).f["val"] == TAYC(al, kk) / z3.ToReal(G.FACT(kk))))
                out.append(("entry-orders-are-the-compositions-into-k-parts",
                            zand(comp.f["n"] == n, comp.f["L"] == kk, comp.f["m"] == m)))
        return out


class _TaylorBase(Contract):
    props = ["C04"]
    alpha = None

    def setup(self, vc):
        return {"self": Inst("x", {}), "order": Sym(vc.fresh_int("order")),
                "min_order": Sym(vc.fresh_int("min_order"))}

    def raises(self, vc, a):
        return [("Inputerror", zor(a["order"].t < 0, a["min_order"].t <= 0))]

    def post(self, vc, a, result):
        n, m = a["order"].t, a["min_order"].t
        if isinstance(result, PList):
            ok = len(result.items) == 1 and isinstance(result.items[0], tuple) and \
                result.items[0][0] == 1
            if not ok:
                return [("below-min-order-shape", False)]
            inner = result.items[0][1]
            ok2 = isinstance(inner, PList) and len(inner.items) == 1 and \
                isinstance(inner.items[0], tuple) and len(inner.items[0]) == 1
            return [("below-min-order-is-[(1,[(n,)])]",
                     zand(n < m, ok2 and zeq(inner.items[0][0], n)))]
        if isinstance(result, Struct) and result.cls == "TaylorList":
            return [("one-entry-for-each-exponent-1..n//m",
                     zand(n >= m, result.f["len"] == n / m))]
        return [("result-shape", False)]


@register
class ExpandSTaylor(_TaylorBase):
    key = ISR + ".expand_S_taylor"
    loops = {0: type("L", (TaylorLoop,), {"alpha": "-1/2"})()}


ExpandSTaylor.apply = _expand_s_taylor_callers_view


@register
class ExpandNormFactor(_TaylorBase):
    key = "adcgen.groundstate:GroundState.expand_norm_factor"
    props = ["C04", "C02"]
    loops = {0: type("L", (TaylorLoop,), {"alpha": "-1"})()}


@lemma("C04", "taylor-coefficients")
def taylor_lemma():
    """induction step for the closed forms of the Taylor coefficients:
    (1+x)^-1: c_k = (-1)^k;  the recurrence c_{k+1} = c_k (alpha - k)/(k+1)"""
    k = z3.Int("k")
    c = z3.Real("c_k")
    out = []
    # alpha = -1: c_{k+1} = c_k * (-1 - k)/(k + 1) = -c_k
    out.append(("alpha=-1:step", z3.Implies(k >= 0, c * (-1 - z3.ToReal(k)) / z3.ToReal(k + 1) == -c)))
    # alpha = -1/2: c_{k+1} = -c_k (2k + 1) / (2k + 2)
    out.append(("alpha=-1/2:step",
                z3.Implies(k >= 0, c * (z3.RealVal("-1/2") - z3.ToReal(k)) / z3.ToReal(k + 1) ==
                           -c * z3.ToReal(2 * k + 1) / z3.ToReal(2 * k + 2))))
    return out
