"""Executable contracts for C04 on the real code (bounded stand-in): derived
ISR overlaps are evaluated numerically for random ground-state amplitudes."""
import itertools
from fractions import Fraction

from adcgen.groundstate import GroundState
from adcgen.operators import Operators
from adcgen.intermediate_states import IntermediateStates
from adcgen.indices import get_symbols
from adcgen.expr_container import Expr
from adcgen.simplify import simplify
from runtime.tensor_model import Model, orbital_space, evaluate, all_assignments

BUDGET_S = {"quick": 150, "thorough": 3600}
CASE_TIMEOUT_S = {"quick": 400, "thorough": 2400}
_CACHE = {}


def isr(variant, singles):
    key = (variant, singles)
    if key not in _CACHE:
        _CACHE[key] = IntermediateStates(GroundState(Operators("mp"), singles), variant)
    return _CACHE[key]


def cases(tier, seed):
    quick = [("pp", "ph,ph", "ia,jb", 0), ("pp", "ph,ph", "ia,jb", 1), ("pp", "ph,ph", "ia,jb", 2),
             ("pp", "ph,pphh", "ia,jkbc", 0), ("pp", "ph,pphh", "ia,jkbc", 1),
             ("pp", "ph,pphh", "ia,jkbc", 2), ("pp", "pphh,pphh", "ijab,klcd", 0),
             ("pp", "pphh,pphh", "ijab,klcd", 1),
             ("ip", "h,h", "i,j", 0), ("ip", "h,h", "i,j", 2), ("ea", "p,p", "a,b", 2),
             ("ip", "h,phh", "i,jka", 1), ("ip", "h,phh", "i,jka", 2),
             # lower classes with different numbers of occupied and virtual indices
             ("dip", "hh,phhh", "ij,klma", 2), ("dea", "ppph,pp", "iabc,de", 2)]
    for v, b, i, n in quick:
        yield {"variant": v, "block": b, "indices": i, "order": n, "singles": False, "kind": "isr"}
    yield {"variant": "pp", "block": "ph,ph", "indices": "ia,jb", "order": 2, "singles": True, "kind": "isr"}
    yield {"variant": "pp", "block": "ph,ph", "indices": "ia,jb", "order": 2, "singles": False, "kind": "precursor-sym"}
    # ground state with first order singles: the coupling between different
    # excitation classes starts at first order
    for v, b, i, n in [("pp", "ph,pphh", "ia,jkbc", 1), ("pp", "pphh,ph", "ijab,kc", 1),
                       ("pp", "ph,pphh", "ia,jkbc", 2), ("ip", "h,phh", "i,jka", 1), ("ip", "h,phh", "i,jka", 2)]:
        yield {"variant": v, "block": b, "indices": i, "order": n, "singles": True, "kind": "isr"}
    # target index names of the name generation the generic indices are currently taken from
    yield {"variant": "pp", "block": "ph,ph", "indices": None, "order": 2, "singles": False,
           "kind": "isr-current-generation-names"}
    if tier == "thorough":
        # (ordered by cost; the last one is the fourth order satellite block that exposed the
        #  missing class weights of s_root: about 25 min)
        for v, b, i, n in [("ea", "p,pph", "a,ibc", 2), ("dip", "hh,hh", "ij,kl", 2),
                           ("ip", "phh,phh", "ija,klb", 1), ("ip", "phh,phh", "ija,klb", 2),
                           ("ip", "h,h", "i,j", 4), ("pp", "ph,ph", "ia,jb", 3),
                           ("pp", "pphh,pphh", "ijab,klcd", 2), ("ip", "phh,phh", "ija,klb", 4)]:
            yield {"variant": v, "block": b, "indices": i, "order": n, "singles": False, "kind": "isr"}


def antisym_delta(a, b):
    """antisymmetrised product of deltas between two equally long orbital tuples"""
    from itertools import permutations
    tot = 0
    n = len(a)
    for perm in permutations(range(n)):
        sign = 1
        p = list(perm)
        for x in range(n):
            for y in range(x + 1, n):
                if p[x] > p[y]:
                    sign = -sign
        if all(a[k] == b[perm[k]] for k in range(n)):
            tot += sign
    return tot


def check(case):
    if case["kind"] == "isr-current-generation-names":
        from adcgen.indices import Indices
        # later letters of the current generation have not been handed out yet;
        # which of them the derivation consumes next depends on the request
        for letter in "cdefg":
            cur = Indices().get_generic_indices(virt=1)[("virt", "")][0].name
            ok, d = check(dict(case, kind="isr", indices=f"ia,j{letter}{cur[1:]}"))
            if not ok:
                return ok, d
        for letter in "lmn":
            cur = Indices().get_generic_indices(occ=1)[("occ", "")][0].name
            ok, d = check(dict(case, kind="isr", indices=f"{letter}{cur[1:]}a,jb"))
            if not ok:
                return ok, d
        return True, ""
    obj = isr(case["variant"], case["singles"])
    bra_idx, ket_idx = case["indices"].split(",")
    n = case["order"]
    # enough spin orbitals that no class vanishes identically (Pauli principle)
    need_o = max(sp.count("h") for sp in case["block"].split(","))
    need_v = max(sp.count("p") for sp in case["block"].split(","))
    model = Model(orbital_space(2 if need_o > 2 else 1, 2 if need_v > 2 else 1), seed=11,
                  alias=lambda nm: nm.replace("cc", ""))
    targets = get_symbols(bra_idx) + get_symbols(ket_idx)
    if case["kind"] == "precursor-sym":
        a = obj.overlap_precursor(n, case["block"], case["indices"])
        b = obj.overlap_precursor(n, case["block"], f"{ket_idx},{bra_idx}")
        for asg in all_assignments(targets, model.orbs):
            if evaluate(a, asg, model) != evaluate(b, asg, model):
                return False, f"precursor overlap not symmetric at {asg}"
        return True, ""
    res = obj.overlap_isr(n, case["block"], case["indices"])
    bsp, ksp = case["block"].split(",")
    b_occ = [s for s in get_symbols(bra_idx) if s.space == "occ"]
    b_virt = [s for s in get_symbols(bra_idx) if s.space == "virt"]
    k_occ = [s for s in get_symbols(ket_idx) if s.space == "occ"]
    k_virt = [s for s in get_symbols(ket_idx) if s.space == "virt"]
    for asg in all_assignments(targets, model.orbs):
        got = evaluate(res, asg, model)
        if n == 0 and bsp == ksp:
            exp = antisym_delta([asg[s] for s in b_occ], [asg[s] for s in k_occ]) * \
                antisym_delta([asg[s] for s in b_virt], [asg[s] for s in k_virt])
        else:
            exp = 0
        if got != exp:
            shown = simplify(Expr(res))
            return False, (f"overlap_isr({n}, {case['block']}, {case['indices']}) has value {got} "
                           f"instead of {exp} at {dict((str(k), v) for k, v in asg.items())}; "
                           f"simplified: {str(shown)[:300]}")
    return True, ""


def taylor_cases(tier, seed):
    # (orders >= 9 with min_order 1 need the 9th Taylor coefficient - the first one a 15 digit float
    #  does not determine)
    for n in range(0, 10 if tier == "quick" else 13):
        for m in (1, 2, 3):
            yield {"n": n, "m": m}


def taylor_check(case):
    """expand_S_taylor: coefficients of the binomial series of (1 + x)^(-1/2)
    and the compositions of the order into k parts >= min_order"""
    from fractions import Fraction
    from runtime.c02 import compositions
    n, m = case["n"], case["m"]
    res = isr("pp", False).expand_S_taylor(n, m)
    if n < m:
        return res == [(1, [(n,)])], f"{res}"
    exp = []
    coeff = Fraction(1)
    for k in range(1, n // m + 1):
        coeff = coeff * (Fraction(-1, 2) - (k - 1)) / k        # binomial(-1/2, k)
        exp.append((coeff, compositions(n, k, m)))
    got = [(Fraction(int(p.p), int(p.q)) if hasattr(p, "p") else Fraction(p), list(o)) for p, o in res]
    return got == exp, f"expand_S_taylor({n}, {m}) = {res}, binomial series {exp}"


CHECKS = {
    "expand_S_taylor.binomial_series": {
        "function": "adcgen.intermediate_states:IntermediateStates.expand_S_taylor",
        "cases": taylor_cases, "check": taylor_check,
        "bound": "order < 10 (13), min_order 1..3: [(binomial(-1/2, k), compositions(n, k, m))]"},
    "overlap_isr.orthonormal": {
        "function": "adcgen.intermediate_states:IntermediateStates.precursor",
        "cases": cases, "check": check,
        "bound": "pp/ip/ea/dip/dea blocks singles/doubles, orders 0..2 (thorough: 3 for ph,ph, 4 for h,h and phh,phh), ground states without and (ph/pphh, h/phh blocks, orders 1-2) with first order singles, random amplitudes, 2 occ + 2 virt spin orbitals (4 where a class has three indices of a space), all target assignments",
    },
}
