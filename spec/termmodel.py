"""S7 - concrete-shape abstract view of the container classes Term / Obj / Expr
(kernel K0): a term is a list of objects, an object is (name, exponent, index
tuple, base); index identities, target sets and tensor values are symbolic."""
import z3
from pyvc import contract as C
from pyvc.values import (Struct, Sym, PList, PDict, term, wrap, zand, zor, znot, zeq,
                         Unsupported)
from spec.idx import IdxSort, new_index

IdxSet = z3.ArraySort(IdxSort, z3.BoolSort())


def new_obj(vc, name, rank, exponent=1, pos=0):
    idx = tuple(new_index(vc, f"{name.lower()}{pos}_{k}") for k in range(rank))
    base = Struct("BaseV", name=name, idx=idx, uid=(name, pos))
    return Struct("ObjV", name=name, exponent=exponent, idx=idx, base=base, pos=pos)


def occurrences(obj, x):
    """|exponent| * number of positions of the object that carry index x"""
    t = z3.IntVal(0)
    for s in obj.f["idx"]:
        t = t + z3.If(s.t == x, 1, 0)
    return abs(obj.f["exponent"]) * t


def term_count(objs, x):
    """Term._idx_counter semantics: total number of occurrences of x in the
    term counting exponents"""
    t = z3.IntVal(0)
    for o in objs:
        t = t + occurrences(o, x)
    return t


def new_term(vc, objs, explicit_target=None):
    tt = vc.fresh("target", IdxSet)
    if explicit_target is None:
        # Einstein convention or explicitly provided targets: an arbitrary set
        # of indices of the term (the property quantifies over all target sets)
        pass
    return Struct("TermV", objs=list(objs), target=Struct("IdxSetView", mem=tt),
                  assumptions=PDict({}))


C.STRUCT_ATTR[("TermV", "objects")] = lambda ip, t: tuple(t.f["objs"])
C.STRUCT_ATTR[("TermV", "idx")] = lambda ip, t: Struct("TermIdx", term=t)
C.STRUCT_CONTAINS["IdxSetView"] = lambda ip, o, x: z3.Select(o.f["mem"], x.t)
C.STRUCT_ATTR[("ObjV", "base_and_exponent")] = lambda ip, o: (o.f["base"], o.f["exponent"])


def model_Counter_term(ip, args, kwargs):
    if not args and not kwargs:
        # empty Counter filled by c[idx] += n: total map Index -> Int, default 0
        return Struct("CounterMap", arr=z3.K(IdxSort, z3.IntVal(0)))
    v = args[0]
    if isinstance(v, Struct) and v.cls == "TermIdx":
        return Struct("IdxCounter", term=v.f["term"])
    raise Unsupported("Counter of this iterable")


def counter_subscript(ip, obj, idx):
    return wrap(term_count(obj.f["term"].f["objs"], idx.t))


C.STRUCT_SUBSCRIPT["IdxCounter"] = counter_subscript
C.STRUCT_SUBSCRIPT["CounterMap"] = lambda ip, obj, idx: wrap(z3.Select(obj.f["arr"], idx.t))


def _countermap_store(ip, obj, idx, v):
    obj.f["arr"] = z3.Store(obj.f["arr"], idx.t, term(v))


C.STRUCT_STORE["CounterMap"] = _countermap_store


def model_combinations(ip, args, kwargs):
    import itertools
    items = ip.iterate_concrete(args[0])
    return PList([tuple(c) for c in itertools.combinations(items, args[1])])


C.EXTERNALS["itertools.combinations"] = model_combinations
C.EXTERNALS["collections.Counter"] = model_Counter_term
