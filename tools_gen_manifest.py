#!/usr/bin/env python3
"""Regenerates MANIFEST.json from tools/manifest_data.py (single source)."""
import json, os, sys
sys.path.insert(0, os.path.dirname(os.path.abspath(__file__)))
from manifest_data import CLAIMED, NOT_APPLICABLE, NOTES
BASE = "cd /repo && /venv/bin/python -m pytest -ra -q -p no:cacheprovider --timeout=900 --continue-on-collection-errors"
m = {
 "version": 1,
 "setup_cmd": "cd /verif && python3-vt -m pyvc.selftest --smoke",
 "hooks": {"guard": "ADCGEN_VERIF", "enable": "none needed: contracts are sidecar files in /verif/contracts, the real source is re-read with ast on every run; the guard name is reserved and unused",
           "baseline_off_cmd": BASE, "source_commits": [], "add_only": True},
 "engines": [{"name": "pyvc", "path": "/verif/pyvc", "serves_properties": sorted(CLAIMED),
              "kind_free_text": "own verification-condition generator: symbolic execution of the real adcgen AST against sidecar contracts (pre/post/raises/loop invariants), every obligation discharged by z3 5.1; bounded run-time contracts (labelled bounded) as stand-ins and replay search"}],
 "checks": [], "notes": NOTES, "not_applicable": [],
}
for pid in sorted(CLAIMED):
    c = CLAIMED[pid]
    m["checks"].append({
        "property_id": pid,
        "quick_cmd": f"cd /verif && python3-vt -m pyvc.check {pid} --tier quick",
        "thorough_cmd": f"cd /verif && python3-vt -m pyvc.check {pid} --tier thorough",
        "evidence_file": f"/verif/evidence/{pid}.json",
        "replay_cmd_template": "/venv/bin/python {path}",
        "engine": "pyvc",
        "level_claimed": {"category": "proof", "text": c["text"], "design_ref": c["design_ref"]},
        "level_note": c["note"],
        "technique": c["technique"],
    })
for pid in sorted(NOT_APPLICABLE):
    m["not_applicable"].append({"property_id": pid, "reason": NOT_APPLICABLE[pid]})
json.dump(m, open(os.path.join(os.path.dirname(os.path.abspath(__file__)), "MANIFEST.json"), "w"), indent=1)
print("claimed", sorted(CLAIMED), "n/a", sorted(NOT_APPLICABLE))
