"""Seeded breaks (DESIGN 2.7): each mutant is applied to a scratch copy of the
repository (mktemp, outside /repo and /verif, removed afterwards) and the
property check must report a violation.

    python3-vt -m selftest.mutate [PROP ...] [--id ID] [--no-runtime]
"""
import argparse
import os
import shutil
import subprocess
import sys
import tempfile

VERIF = os.path.dirname(os.path.dirname(os.path.abspath(__file__)))
sys.path.insert(0, VERIF)
from selftest.mutants import MUTANTS, HARMLESS   # noqa: E402


def run_mutant(m, no_runtime=False, keep=False):
    tmp = tempfile.mkdtemp(prefix="pyvc_mut_")
    try:
        shutil.copytree("/repo/adcgen", os.path.join(tmp, "adcgen"))
        path = os.path.join(tmp, m["file"])
        src = open(path).read()
        if src.count(m["old"]) != 1:
            return "stale", f"pattern occurs {src.count(m['old'])} times"
        open(path, "w").write(src.replace(m["old"], m["new"]))
        env = dict(os.environ, PYVC_REPO=tmp)
        cmd = [sys.executable, "-m", "pyvc.check", m["prop"], "--no-evidence"]
        if no_runtime:
            cmd.append("--no-runtime")
        p = subprocess.run(cmd, cwd=VERIF, env=env, capture_output=True, text=True)
        out = p.stdout + p.stderr
        static = [ln for ln in out.splitlines() if ln.startswith("# refuted obligation")]
        viol = [ln for ln in out.splitlines() if ln.startswith("VIOLATION")]
        return p.returncode, {"static": static[:3], "violations": viol[:3],
                              "tail": out.splitlines()[-1:] }
    finally:
        shutil.rmtree(tmp, ignore_errors=True)


def main():
    ap = argparse.ArgumentParser()
    ap.add_argument("props", nargs="*")
    ap.add_argument("--id")
    ap.add_argument("--no-runtime", action="store_true")
    a = ap.parse_args()
    bad = 0
    for m in MUTANTS:
        if a.props and m["prop"] not in a.props:
            continue
        if a.id and m["id"] != a.id:
            continue
        rc, info = run_mutant(m, a.no_runtime)
        ok = rc == 1
        if not ok:
            bad += 1
        print(("CAUGHT " if ok else "MISSED ") + f"{m['id']} ({m['prop']}) rc={rc}", info if not ok else
              (info["static"][:1] or info["violations"][:1]))
    for m in HARMLESS:
        if a.props and m["prop"] not in a.props:
            continue
        if a.id and m["id"] != a.id:
            continue
        rc, info = run_mutant(m, a.no_runtime)
        ok = rc == 0
        if not ok:
            bad += 1
        print(("QUIET  " if ok else "FALSE-ALARM ") + f"{m['id']} ({m['prop']}) rc={rc}", "" if ok else info)
    return 1 if bad else 0


if __name__ == "__main__":
    sys.exit(main())
