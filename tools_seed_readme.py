#!/usr/bin/env python3
"""Regenerates seeded/README.md from the meta.json files (after `python3-vt -m selftest.seeded`)."""
import json
import os

ROOT = os.path.dirname(os.path.abspath(__file__))
SEEDED = os.path.join(ROOT, "seeded")
names = sorted(n for n in os.listdir(SEEDED) if os.path.exists(os.path.join(SEEDED, n, "meta.json")))
metas = [json.load(open(os.path.join(SEEDED, n, "meta.json"))) for n in names]
caught = sum(1 for m in metas if m.get("check_exit_on_changed_tree") == 1)
out = ["# Independent property-breaking changes", "",
       "Each directory holds `patch.diff` (apply with `git -C /repo apply`, undo with `git -C /repo checkout -- .`), the",
       "author's demonstration `demo_*.py` (exit 0 on the original tree, non-zero on the changed tree) and `meta.json`.",
       "All changes compile and pass the repository's 127 tests. `python3-vt -m selftest.seeded` applies each to a scratch",
       f"worktree and requires the property's quick check to exit 1 ({caught} / {len(metas)} on the current tree).", "",
       "| change | property | round | needs to manifest | caught by |", "|---|---|---|---|---|"]
for m in metas:
    out.append(f"| {m['name']} | {m['property']} | {m.get('round', '')} | {m.get('needs_to_manifest', '')} | "
               f"{'; '.join(m.get('detected_by', []))} |")
open(os.path.join(SEEDED, "README.md"), "w").write("\n".join(out) + "\n")
print(f"{caught}/{len(metas)}")
