"""Executable contracts for C02 on the real code (bounded stand-ins)."""
import itertools
import random
from fractions import Fraction

from sympy import S

from adcgen.func import gen_term_orders
from adcgen.groundstate import GroundState
from adcgen.operators import Operators
from adcgen.indices import get_symbols
from adcgen.misc import Inputerror
from runtime.tensor_model import Model, orbital_space, evaluate, index_range

BUDGET_S = {"quick": 60, "thorough": 900}


def compositions(n, L, m):
    if L == 0:
        return [()] if n == 0 else []
    out = []
    for first in range(m, n + 1):
        for rest in compositions(n - first, L - 1, m):
            out.append((first,) + rest)
    return out


def gto_cases(tier, seed):
    hi = 6 if tier == "quick" else 9
    for n in range(0, hi):
        for L in range(0, 5):
            for m in range(0, 4):
                yield {"n": n, "L": L, "m": m}
    yield {"n": -1, "L": 2, "m": 0}
    yield {"n": 2, "L": 2, "m": -1}


def gto_check(case):
    n, L, m = case["n"], case["L"], case["m"]
    try:
        res = gen_term_orders(n, L, m)
    except Inputerror:
        return min(n, L, m) < 0, "Inputerror for valid arguments"
    if min(n, L, m) < 0:
        return False, "no Inputerror for a negative argument"
    exp = compositions(n, L, m)
    if len(res) != len(set(res)):
        return False, f"duplicates in {res}"
    return sorted(res) == sorted(exp) and list(res) == exp, f"{res} != {exp}"


def enf_cases(tier, seed):
    for n in range(0, 7 if tier == "quick" else 10):
        for m in (1, 2, 3):
            yield {"n": n, "m": m}


def enf_check(case):
    n, m = case["n"], case["m"]
    gs = GroundState(Operators("mp"))
    res = gs.expand_norm_factor(n, m)
    if n < m:
        return res == [(1, [(n,)])], f"{res}"
    exp = [((-1) ** k, compositions(n, k, m)) for k in range(1, n // m + 1)]
    got = [(Fraction(int(p.p), int(p.q)) if hasattr(p, "p") else Fraction(p), list(o)) for p, o in res]
    return got == [(Fraction(a), b) for a, b in exp], f"{res} != {exp}"


# --- end to end: second order energy = textbook MP2 ---------------------------------
class MPModel(Model):
    """canonical HF model: diagonal Fock matrix (orbital energies), random
    antisymmetric bra-ket symmetric integrals; first order doubles taken from
    the library's own closed amplitude expression."""

    def __init__(self, orbs, seed, t_expr, t_idx):
        super().__init__(orbs, seed=seed, braket={"V": 1, "f": 1}, diag=("f",))
        self.t_expr, self.t_idx = t_expr, t_idx

    def eps(self, o):
        base = -10 if o[0] == "o" else 10
        return Fraction(base + 3 * o[1] + (1 if o[2] == "b" else 0) + self.rnd("e", o))

    def nonsym(self, name, idx):
        if name == "e":
            return self.eps(idx[0])
        return super().nonsym(name, idx)

    def antisym(self, name, upper, lower, symmetric=False):
        if name == "f":
            return self.eps(upper[0]) if tuple(upper) == tuple(lower) else Fraction(0)
        if name in ("t1", "t1cc") and len(upper) == 2:
            i, j, a, b = self.t_idx
            asg = {a: upper[0], b: upper[1], i: lower[0], j: lower[1]}
            if len(set(upper)) < 2 or len(set(lower)) < 2:
                return Fraction(0)
            base = Model(self.orbs, self.seed, braket=self.braket)
            base.nonsym = self.nonsym
            inner = MPModel.__new__(MPModel)
            inner.__dict__.update(self.__dict__)
            return evaluate(self.t_expr, asg, _NoT(self))
        return super().antisym(name, upper, lower, symmetric)


class _NoT:
    """the same model (the amplitude expression contains no amplitudes)"""

    def __init__(self, m):
        self.m = m
        self.orbs = m.orbs

    def antisym(self, name, upper, lower, symmetric=False):
        if name.startswith("t"):
            raise RuntimeError("amplitude inside an amplitude definition")
        return self.m.antisym(name, upper, lower, symmetric)

    def nonsym(self, name, idx):
        return self.m.nonsym(name, idx)

    def symbol(self, name):
        return self.m.symbol(name)


def mp2_cases(tier, seed):
    for s in range(2 if tier == "quick" else 8):
        yield {"seed": seed * 100 + s}


def mp2_check(case):
    gs = GroundState(Operators("mp"))
    i, j, a, b = get_symbols("ijab")
    t = gs.mp_amplitude(1, "pphh", "ijab")
    orbs = orbital_space(1, 1)
    model = MPModel(orbs, case["seed"], t, (i, j, a, b))
    e0, e1, e2 = (evaluate(gs.energy(n), {}, model) for n in range(3))
    occ = [o for o in orbs if o[0] == "o"]
    virt = [o for o in orbs if o[0] == "v"]
    V = lambda p, q, r, s: model.antisym("V", [p, q], [r, s])   # noqa: E731
    ref0 = sum(model.eps(o) for o in occ)
    ref1 = -Fraction(1, 2) * sum(V(x, y, x, y) for x in occ for y in occ)
    ref2 = Fraction(0)
    for x, y in itertools.product(occ, repeat=2):
        for c, d in itertools.product(virt, repeat=2):
            den = model.eps(x) + model.eps(y) - model.eps(c) - model.eps(d)
            ref2 += Fraction(1, 4) * V(x, y, c, d) * V(c, d, x, y) / den
    ok = (e0, e1, e2) == (ref0, ref1, ref2)
    return ok, f"E0,E1,E2 = {e0},{e1},{e2}; textbook {ref0},{ref1},{ref2}"


# --- closed amplitudes requested with target indices in any order ----------------------------
def amp_perm_cases(tier, seed):
    for s in ("jiab", "ijba", "jiba", "baij", "bjai"):
        yield {"order": 1, "space": "pphh", "canonical": "ijab", "indices": s}
    if tier != "quick":
        for s in ("jiab", "ijba"):
            yield {"order": 2, "space": "pphh", "canonical": "ijab", "indices": s, "distinct": True}
        for s in ("jikabc", "ijkacb", "kjicab"):
            yield {"order": 2, "space": "ppphhh", "canonical": "ijkabc", "indices": s}


def _perm_sign(seq, ref):
    p = [ref.index(x) for x in seq]
    sign = 1
    for x in range(len(p)):
        for y in range(x + 1, len(p)):
            if p[x] > p[y]:
                sign = -sign
    return sign


def amp_perm_check(case):
    """t(n; indices as requested) at an orbital assignment of the named indices is the canonical
    request at the same assignment times the signs of the permutations of the occupied and of
    the virtual indices (the amplitude is the coefficient of a^+_a a^+_b ... a_j a_i)"""
    gs = GroundState(Operators("mp"))
    i, j, a, b = get_symbols("ijab")
    t1 = gs.mp_amplitude(1, "pphh", "ijab")
    orbs = orbital_space(1, 1)
    model = MPModel(orbs, 5, t1, (i, j, a, b))
    ref = gs.mp_amplitude(case["order"], case["space"], case["canonical"])
    got = gs.mp_amplitude(case["order"], case["space"], case["indices"])
    names = case["canonical"]
    occ = [c for c in case["indices"] if c in "ijk"]
    virt = [c for c in case["indices"] if c in "abc"]
    sign = _perm_sign(occ, sorted(occ)) * _perm_sign(virt, sorted(virt))
    syms = {c: get_symbols(c)[0] for c in names}
    ranges = [index_range(syms[c], orbs) for c in names]
    nonzero = 0
    for combo in itertools.product(*ranges):
        if case.get("distinct") and len(set(combo)) < len(combo):
            continue        # quick tier: elements with a repeated orbital (they vanish) are skipped
        asg = {syms[c]: o for c, o in zip(names, combo)}
        r, g = evaluate(ref, asg, model), evaluate(got, asg, model)
        nonzero += r != 0
        if g != sign * r:
            return False, (f"mp_amplitude({case['order']}, '{case['space']}', '{case['indices']}') has value {g} at "
                           f"{ {c: o for c, o in zip(names, combo)} }, the canonical request '{names}' gives {r} "
                           f"(expected factor {sign})")
    return nonzero > 0, f"{nonzero} non vanishing elements compared"


# --- norm factor: series of 1 / <Psi|Psi> ------------------------------------------------
def nf_cases(tier, seed):
    for n in range(0, 5 if tier == "quick" else 6):
        for singles in (False, True):
            yield {"n": n, "singles": singles}


def nf_check(case):
    """a^(n) = sum_k (-1)^k sum_{compositions of n into k parts >= 2} prod S^(part), with the
    overlaps S^(m) requested separately; random amplitudes (complex conjugates aliased)"""
    n = case["n"]
    gs = GroundState(Operators("mp"), case["singles"])
    model = Model(orbital_space(1, 1), seed=8, alias=lambda nm: nm.replace("cc", ""))
    got = evaluate(gs.norm_factor(n), {}, model)
    ovl = {m: evaluate(gs.overlap(m), {}, model) for m in range(2, n + 1)}
    exp = Fraction(1 if n == 0 else 0)
    for k in range(1, n // 2 + 1):
        for comp in compositions(n, k, 2):
            p = Fraction((-1) ** k)
            for m in comp:
                p *= ovl[m]
            exp += p
    return got == exp, f"norm_factor({n}) has value {got}, series of 1/(1 + S) gives {exp} (singles={case['singles']})"


CHECKS = {
    "norm_factor.series": {
        "function": "adcgen.groundstate:GroundState.norm_factor", "cases": nf_cases, "check": nf_check,
        "bound": "orders 0..4 (5), with / without first order singles; random amplitudes, 2 occ + 2 virt spin orbitals; overlaps requested separately"},
    "gen_term_orders.compositions": {
        "function": "adcgen.func:gen_term_orders", "cases": gto_cases, "check": gto_check,
        "bound": "order < 6 (9 thorough), term_length < 5, min_order < 4: exactly the compositions in itertools.product order"},
    "expand_norm_factor.taylor": {
        "function": "adcgen.groundstate:GroundState.expand_norm_factor", "cases": enf_cases,
        "check": enf_check, "bound": "order < 7 (10), min_order 1..3: [( (-1)^k, compositions(n,k,m) )]"},
    "mp_amplitude.index_order": {
        "function": "adcgen.groundstate:GroundState.mp_amplitude", "cases": amp_perm_cases, "check": amp_perm_check,
        "bound": "first order doubles (thorough: also second order doubles and triples) requested with 5 (2, 3) non canonical orders of the target indices: value = sign of the permutation times the canonical request at every orbital assignment, 2 occ + 2 virt spin orbitals"},
    "energy.mp2_textbook": {
        "function": "adcgen.groundstate:GroundState.energy", "cases": mp2_cases, "check": mp2_check,
        "bound": "E(0), E(1), E(2) with the library's first order doubles vs. the textbook formulas, 2 occ + 2 virt spin orbitals, random canonical HF model"},
}
