"""C03 - secular matrix (series level).  Contracts on
adcgen.secular_matrix:SecularMatrix.hamiltonian / isr_matrix_block /
precursor_matrix_block / mvp_block_order."""
import z3
from pyvc import contract as C
from pyvc.contract import Contract, LoopContract, register, lemma
from pyvc.values import (Struct, Sym, SymSeq, PList, PDict, Inst, term, wrap, zand, zor,
                         znot, zeq, mk_enum, Unsupported)
from pyvc.vc import RaiseEx
from spec.exprval import mk_expr, as_expr, real
from spec.series import (AtomSort, RulesSort, NO_RULES, VEV, atom_nc, mk_nc, new_stamp,
                         stamps_of, WORDVAL)
from spec import gsmodel as G
from spec import isrmodel as M
import contracts.c02 as c02
import contracts.c04 as c04

ASSUMPTIONS = c04.ASSUMPTIONS
TRUSTED = c04.TRUSTED
SM = "adcgen.secular_matrix:SecularMatrix"
C.INLINE.add("adcgen.rules:Rules.__init__")
BLOCKS = c04.BLOCKS


def new_sm(vc, variant="pp"):
    isr = c04.new_isr(vc, variant)
    gs = isr.attrs["gs"]
    return Inst(SM, {"isr": isr, "gs": gs, "h": gs.attrs["h"], "indices": Struct("Indices")})


def nc_value_with_scalar(v):
    """value of a formal sum with words of length <= 1 under WORDVAL"""
    if isinstance(v, int):
        return z3.RealVal(v)
    if isinstance(v, Struct) and v.cls == "NC":
        t = z3.RealVal(0)
        for c, w in v.f["terms"]:
            if len(w) > 1:
                raise Unsupported("operator with a product of atoms")
            t = t + (c * WORDVAL(w[0]) if w else c)
        return t
    return as_expr(v).f["val"]


def ham_spec(k, sub):
    """(value under WORDVAL, rules) of H^(k) - [sub] E^(k)"""
    h = z3.If(k == 0, WORDVAL(c02.H0), z3.If(k == 1, WORDVAL(c02.H1), z3.RealVal(0)))
    e = z3.If(sub, c02.ENERGY(k), z3.RealVal(0))
    rules = z3.If(k == 0, c02.R0, z3.If(k == 1, c02.R1, NO_RULES))
    return h - e, rules


@register
class Hamiltonian(Contract):
    key = SM + ".hamiltonian"
    props = ["C03"]

    def setup(self, vc):
        return {"self": new_sm(vc), "order": Sym(vc.fresh_int("order")),
                "subtract_gs": Sym(vc.fresh_bool("subtract_gs"))}

    def pre(self, vc, a):
        return [("order-is-valid", term(a["order"]) >= 0)]

    def apply(self, vc, a):
        k = a["order"]
        sub = a["subtract_gs"]
        if vc.decide(zeq(k, 0)):
            h, rules = atom_nc(c02.H0), Struct("Rules", t=c02.R0)
        elif vc.decide(zeq(k, 1)):
            h, rules = atom_nc(c02.H1), Struct("Rules", t=c02.R1)
        else:
            h, rules = 0, Struct("Rules", t=NO_RULES)
        if vc.decide(vc.ip.truth_term(sub)):
            e = C.REGISTRY[c02.GS + ".energy"].apply(vc, {"self": a["self"].attrs["gs"], "order": k})
            from pyvc.builtins import arith
            return (arith(vc.ip, "Sub", h, e), rules)
        return (h, rules)

    def post(self, vc, a, result):
        if not (isinstance(result, tuple) and len(result) == 2):
            return [("returns-(operator, rules)", False)]
        op, rules = result
        k, sub = term(a["order"]), term(a["subtract_gs"])
        v, r = ham_spec(k, sub)
        return [("operator-is-H(k)-minus-ground-state-energy", nc_value_with_scalar(op) == v),
                ("rules-belong-to-the-hamiltonian-part", M.rules_term(rules) == r)]


class _MOuter(M.NormOuterLoop):
    inner_len = 3
    scratch = ("norm_order", "matrix_order", "norm", "orders_M", "matrix", "bra_order",
               "op_order", "ket_order", "operator", "rules", "itmd")


class _MInner(M.InnerSumLoop):
    acc_var = "matrix"
    inner_len = 3
    scratch = ("bra_order", "op_order", "ket_order", "operator", "rules", "itmd")
    kind = "ISTATE"

    def rest(self, frame):
        return frame["matrix_order"]

    def term_spec(self, vc, frame, parts):
        a, b, c = parts
        sub = term(frame["subtract_gs"])
        bra = M.atom_of(self.kind, frame["bra_space"], "bra", frame["bra_idx"])(a)
        ket = M.atom_of(self.kind, frame["ket_space"], "ket", frame["ket_idx"])(c)
        rules = z3.If(b == 0, c02.R0, z3.If(b == 1, c02.R1, NO_RULES))
        h = z3.If(b == 0, VEV(c02.R0, (bra, c02.H0, ket)),
                  z3.If(b == 1, VEV(c02.R1, (bra, c02.H1, ket)), z3.RealVal(0)))
        e = z3.If(sub, c02.ENERGY(b), z3.RealVal(0))
        ovl = z3.If(b == 0, VEV(c02.R0, (bra, ket)),
                    z3.If(b == 1, VEV(c02.R1, (bra, ket)), VEV(NO_RULES, (bra, ket))))
        return h - e * ovl


def _loops(tag, kind):
    return {0: type("O" + tag, (_MOuter,), {"tag": tag})(),
            1: type("I" + tag, (_MInner,), {"tag": tag, "kind": kind})()}


class _BlockBase(Contract):
    props = ["C03"]
    tag = None

    def setup(self, vc):
        block, idx = BLOCKS[vc.choose(len(BLOCKS), "block")]
        return {"self": new_sm(vc), "order": Sym(vc.fresh_int("order")), "block": block,
                "indices": idx, "subtract_gs": Sym(vc.fresh_bool("subtract_gs"))}

    def raises(self, vc, a):
        idx = a["indices"] if isinstance(a["indices"], str) else ",".join(a["indices"])
        blk = a["block"] if isinstance(a["block"], str) else ",".join(a["block"])
        parts = idx.split(",")
        rep = len(parts) == 2 and bool(set(G.split_names(parts[0])) & set(G.split_names(parts[1])))
        return [("Inputerror", zor(c04.bad_order(a["order"]), len(blk.split(",")) != 2,
                                   len(parts) != 2, rep))]

    def fresh_result(self, vc, a):
        block = a["block"] if isinstance(a["block"], str) else ",".join(a["block"])
        idx = a["indices"] if isinstance(a["indices"], str) else ",".join(a["indices"])
        sub = a.get("subtract_gs", True)
        e = mk_expr(M.real_of(f"MBLOCK_{self.tag}", block, idx, str(term(sub)))(term(a["order"])), False)
        e.f["stamps"] = frozenset([("mblock", (block, idx, str(term(a["order"]))), True)])
        return e

    def post(self, vc, a, result):
        if a.get("_callsite"):
            return []
        n = term(a["order"])
        O = M.fn(f"OUTER[{self.tag}]", z3.IntSort(), z3.IntSort(), z3.RealSort())
        return [("is-sum-over-norm-factor-and-order-splittings-of-<I|H-E0|J>",
                 as_expr(result).f["val"] == O(n, n + 1))]


@register
class IsrMatrixBlock(_BlockBase):
    key = SM + ".isr_matrix_block"
    tag = "isr_matrix_block"
    loops = _loops("isr_matrix_block", "ISTATE")


@register
class PrecursorMatrixBlock(_BlockBase):
    key = SM + ".precursor_matrix_block"
    tag = "precursor_matrix_block"
    loops = _loops("precursor_matrix_block", "PRECURSOR")


@register
class AmplitudeVector(Contract):
    key = c04.ISR + ".amplitude_vector"
    props = []
    assumed = True
    note = "Amplitude(<lr>_adc_amplitude, virt, occ) for the given index string"

    def apply(self, vc, a):
        lr = a.get("lr", "right")
        e = mk_expr(z3.Real(f"AMPVEC[{lr}|{a['indices']}]"), False)
        e.f["stamps"] = frozenset()
        return e


@register
class MvpBlockOrder(Contract):
    key = SM + ".mvp_block_order"
    props = ["C03"]
    # the last entry is the ADC variant: classes of the non PP variants have
    # different numbers of occupied and virtual indices
    CASES = [("ph", "ph,ph", "ia", "pp"), ("ph", "ph,pphh", "ia", "pp"), ("pphh", "pphh,ph", "ijab", "pp"),
             ("pphh", "pphh,pphh", "ijab", "pp"), ("ph", "pphh,ph", "ia", "pp"), ("ph", "ph,ph", "ia,jb", "pp"),
             ("h", "h,phh", "i", "ip"), ("phh", "phh,phh", "ija", "ip"), ("pph", "pph,p", "iab", "ea"),
             ("hh", "hh,hh", "ij", "dip"), ("p", "p,pph", "a", "ea")]

    def setup(self, vc):
        space, block, idx, variant = self.CASES[vc.choose(len(self.CASES), "case")]
        return {"self": new_sm(vc, variant), "order": Sym(vc.fresh_int("order")), "space": space,
                "block": block, "indices": idx, "subtract_gs": Sym(vc.fresh_bool("subtract_gs"))}

    def raises(self, vc, a):
        return [("Inputerror", zor(c04.bad_order(a["order"]), "," in a["indices"],
                                   a["space"] != a["block"].split(",")[0]))]

    def post(self, vc, a, result):
        n = term(a["order"])
        block = a["block"].split(",")
        gen = vc.ghost.get("_generic_counter", 100)
        # the generic ket indices created by the model of generic_indices_from_space
        no, nv = M.n_occ_virt(block[1])
        idx = "".join("ijklmno"[k % 7] + str(gen) for k in range(no)) + \
            "".join("abcdefgh"[k % 8] + str(gen) for k in range(nv))
        m = M.real_of("MBLOCK_isr_matrix_block", a["block"], f"{a['indices']},{idx}",
                      str(term(a["subtract_gs"])))(n)
        y = z3.Real(f"AMPVEC[right|{idx}]")
        spec = M.sqrt_class_factor(vc, a["space"]) * M.sqrt_class_factor(vc, block[1]) * m * y
        return [("is-M-times-Y-with-one-1/sqrt(n_o!n_v!)-per-vector",
                 as_expr(result).f["val"] == spec)]


# --- mvp: summation of the blocks of one row of the ADC(n) matrix -----------------------------
C.INLINE.add(SM + ".block_order")
C.INLINE.add(SM + ".max_ptorder_spaces")
C.INLINE.add(c04.ISR + ".validate_space")
C.INLINE.add(c04.ISR + "._generate_lower_spaces")


def _mvp_value(block, o, sub):
    key = ",".join(block) if isinstance(block, tuple) else block
    f = M.fn(f"MVPBLOCK[{key}]", z3.IntSort(), z3.BoolSort(), z3.RealSort())
    return f(term(o) if not isinstance(o, int) else z3.IntVal(o), term(sub))


def _mvp_block_callers_view(self, vc, a):
    ok = a["space"] == (a["block"][0] if isinstance(a["block"], tuple) else a["block"].split(",")[0])
    vc.check("pre@mvp_block_order#result-space-is-the-bra-space-of-the-block", bool(ok))
    e = mk_expr(_mvp_value(a["block"], a["order"], a["subtract_gs"]), False)
    e.f["stamps"] = frozenset()
    return e


MvpBlockOrder.apply = _mvp_block_callers_view


def _class_space(min_space, k):
    return "p" * k + min_space + "h" * k


@register
class Mvp(Contract):
    key = SM + ".mvp"
    props = ["C03"]
    CASES = [(n, k, sel, var) for n in range(0, 5) for k in range(0, 3) for sel in ("all", "zero", "highest")
             for var in ("pp", "ip")]
    split_first_choice = len(CASES)

    def setup(self, vc):
        n, k, sel, var = self.CASES[vc.choose(len(self.CASES), "case")]
        order = {"all": None, "zero": 0, "highest": n}[sel]
        ms = c04.VARIANTS[var][0]
        space = _class_space(ms, k)
        idx = "ijk"[:space.count("h")] + "abc"[:space.count("p")]
        vc.ghost["_mvp"] = {"n": n, "k": k, "order": order, "min": ms}
        return {"self": new_sm(vc, var), "adc_order": n, "space": space, "indices": idx,
                "order": order, "subtract_gs": Sym(vc.fresh_bool("subtract_gs"))}

    def raises(self, vc, a):
        st = vc.ghost["_mvp"]
        return [("Inputerror", st["k"] > st["n"] // 2)]

    def post(self, vc, a, result):
        st = vc.ghost["_mvp"]
        n, k, order, ms = st["n"], st["k"], st["order"], st["min"]
        total = z3.RealVal(0)
        for kb in range(n // 2 + 1):
            mx = n - k - kb
            block = (_class_space(ms, k), _class_space(ms, kb))
            orders = range(mx + 1) if order is None else ([order] if mx >= order else [])
            for o in orders:
                total = total + _mvp_value(block, o, a["subtract_gs"])
        val = z3.RealVal(result) if isinstance(result, int) else as_expr(result).f["val"]
        return [("is-the-sum-over-the-blocks-of-the-row-through-their-ADC(n)-orders", val == total)]


# --- expectation_value: all blocks of the ADC(n) matrix through their orders --------------------
def _evb_value(block, o, sub):
    key = ",".join(block) if isinstance(block, tuple) else block
    f = M.fn(f"EVBLOCK[{key}]", z3.IntSort(), z3.BoolSort(), z3.RealSort())
    return f(term(o) if not isinstance(o, int) else z3.IntVal(o), term(sub))


@register
class _ExpValBlockOrderCallers(Contract):
    key = SM + ".expectation_value_block_order"
    props = []
    assumed = True
    note = "X_I M_IJ Y_J for one block and order (left amplitude vector times mvp_block_order; not under contract)"

    def apply(self, vc, a):
        e = mk_expr(_evb_value(a["block"], a["order"], a["subtract_gs"]), False)
        e.f["stamps"] = frozenset()
        return e


@register
class SecularExpectationValue(Contract):
    key = SM + ".expectation_value"
    props = ["C03"]
    CASES = [(n, sel, var) for n in range(0, 5) for sel in ("all", "zero", "highest", "beyond")
             for var in ("pp", "ip", "dip")]
    split_first_choice = len(CASES)

    def setup(self, vc):
        n, sel, var = self.CASES[vc.choose(len(self.CASES), "case")]
        order = {"all": None, "zero": 0, "highest": n, "beyond": n + 1}[sel]
        vc.ghost["_sev"] = {"n": n, "order": order, "min": c04.VARIANTS[var][0]}
        return {"self": new_sm(vc, var), "adc_order": n, "order": order,
                "subtract_gs": Sym(vc.fresh_bool("subtract_gs"))}

    def post(self, vc, a, result):
        st = vc.ghost["_sev"]
        n, order, ms = st["n"], st["order"], st["min"]
        total = z3.RealVal(0)
        for ka in range(n // 2 + 1):
            for kb in range(n // 2 + 1):
                mx = n - ka - kb
                block = (_class_space(ms, ka), _class_space(ms, kb))
                orders = range(mx + 1) if order is None else ([order] if mx >= order else [])
                for o in orders:
                    total = total + _evb_value(block, o, a["subtract_gs"])
        val = z3.RealVal(result) if isinstance(result, int) else as_expr(result).f["val"]
        return [("is-the-sum-over-all-blocks-of-the-ADC(n)-matrix-through-their-orders", val == total)]
