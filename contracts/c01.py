"""C01 - Wick evaluation.  Contracts on adcgen.func:_contraction,
_has_fully_contracted_contribution, _contract_operator_string and
adcgen.rules:Rules.apply."""
import z3
from pyvc import contract as C
from pyvc.contract import Contract, LoopContract, register, lemma
from pyvc.values import (Struct, Sym, SymSeq, PDict, term, wrap, zand, zor, znot,
                         zeq, Unsupported)
from pyvc.builtins import seq_slice, seq_arith
from spec.idx import (IdxSort, idx_space, idx_spin, orb, orb_spin, valid_index,
                      range_disjoint, same_orbital, SPACES, SPINS)
from spec.sq import (OpSort, OpArr, op_class, op_idx, valid_op, pair_vev, vev,
                     new_opseq)
from spec.exprval import mk_expr, as_expr, new_sumlist, list_total, ASSUMED_SYMPY, real

ASSUMPTIONS = ASSUMED_SYMPY + [
    "Wick's theorem as SPECIFICATION: vev(A0..An-1) = sum_{i>=1} (-1)^(i-1) <A0 Ai> vev(string without A0, Ai), vev([]) = 1 (lemmas/wick.md) - trusted, not proved",
    "prefilter lemma (lemmas/wick.md): odd length or more creators of a definite space than annihilators of that space plus general annihilators => vev = 0; the inductive step is discharged (lemma.imbalance-step), the induction over the string is a paper proof",
    "summed-delta lemma: sum over a fresh index x of a space S of delta(q, x) = [sigma(q) in S]; applied when the code multiplies by delta(q, Index(fresh))",
    "sympy's doit(wicks=True)/expand in `wicks` break up NO groups correctly and keep the operator order (wicks itself: only bounded, see runtime/c01.py)",
]
TRUSTED = ["Wick's theorem (specification of vev)"]

F, FD = 0, 1


# --- models of the objects _contraction builds ---------------------------------
def model_Index(ip, args, kwargs):
    """Index('a', above_fermi=True): a new index object, distinct from all
    others, used as a fresh summation index."""
    vc = ip.vc
    t = vc.fresh("fresh_idx", IdxSort)
    space = "virt" if kwargs.get("above_fermi") else ("occ" if kwargs.get("below_fermi") else "general")
    spin = "a" if kwargs.get("alpha") else ("b" if kwargs.get("beta") else "")
    vc.assume(idx_space(t) == SPACES.index(space))
    vc.assume(idx_spin(t) == SPINS.index(spin))
    vc.ghost.setdefault("fresh_sum_idx", {})[t.get_id()] = 0
    return Sym(t, "Index")


def model_KroneckerDelta(ip, args, kwargs):
    vc = ip.vc
    i, j = args
    fresh = vc.ghost.get("fresh_sum_idx", {})
    if j.t.get_id() in fresh or i.t.get_id() in fresh:
        if i.t.get_id() in fresh:
            i, j = j, i
        fresh[j.t.get_id()] += 1
        if fresh[j.t.get_id()] > 1:
            raise Unsupported("fresh summation index used twice")
        # summed-delta lemma: sum_x delta(i, x) = [sigma(i) in range(x)]
        sp = vc.concretize(ip.getattr(j, "space"))
        spn = vc.concretize(ip.getattr(j, "spin"))
        if spn:
            raise Unsupported("fresh summation index with spin")
        inrange = {"occ": orb(i.t) < 0, "virt": orb(i.t) >= 0, "general": z3.BoolVal(True)}[sp]
        return mk_expr(z3.If(inrange, z3.RealVal(1), z3.RealVal(0)),
                       Sym(range_disjoint(i.t, j.t)))
    if z3.eq(i.t, j.t):
        return mk_expr(1, False)
    return mk_expr(z3.If(z3.Or(i.t == j.t, same_orbital(i.t, j.t)), z3.RealVal(1), z3.RealVal(0)),
                   Sym(z3.And(i.t != j.t, range_disjoint(i.t, j.t))))


C.CLASS_MODELS["adcgen.indices:Index"] = model_Index
C.CLASS_MODELS["adcgen.sympy_objects:KroneckerDelta"] = model_KroneckerDelta


@register
class Contraction(Contract):
    key = "adcgen.func:_contraction"
    props = ["C01"]

    def setup(self, vc):
        out = {}
        for nm in ("p", "q"):
            if vc.choose(2, "is-operator") == 0:
                t = vc.fresh(nm, OpSort)
                vc.assume(valid_op(t))
                out[nm] = Sym(t, "FermionicOperator")
            else:
                out[nm] = Struct("OtherSympyObject")
        return out

    @staticmethod
    def _bad(v):
        if not isinstance(v, Sym):
            return True
        return idx_spin(op_idx(v.t)) != 0

    def raises(self, vc, a):
        return [("NotImplementedError", zor(self._bad(a["p"]), self._bad(a["q"])))]

    def fresh_result(self, vc, a):
        z = vc.fresh_bool("czero")
        v = vc.fresh_real("cval")
        vc.assume(z3.Implies(z, v == 0))
        return mk_expr(v, Sym(z))

    def post(self, vc, a, result):
        r = as_expr(result)
        return [("value-is-two-operator-vev", r.f["val"] == pair_vev(a["p"].t, a["q"].t))]


# --- counting prefilter -------------------------------------------------------
ncre = z3.Function("ncre", OpArr, z3.IntSort(), z3.IntSort(), z3.IntSort())
nann = z3.Function("nann", OpArr, z3.IntSort(), z3.IntSort(), z3.IntSort())


def count_unfold(vc, arr, k):
    """definitional unfolding of the prefix counts at position k"""
    k = term(k)
    for s in SPACES:
        sv = SPACES.index(s)
        vc.assume(ncre(arr, sv, 0) == 0)
        vc.assume(nann(arr, sv, 0) == 0)
        here = idx_space(op_idx(arr[k])) == sv
        vc.assume(z3.Implies(k >= 0, ncre(arr, sv, k + 1) == ncre(arr, sv, k) +
                             z3.If(z3.And(op_class(arr[k]) == FD, here), 1, 0)))
        vc.assume(z3.Implies(k >= 0, nann(arr, sv, k + 1) == nann(arr, sv, k) +
                             z3.If(z3.And(op_class(arr[k]) != FD, here), 1, 0)))


def imbalance(arr, n, s):
    sv, g = SPACES.index(s), SPACES.index("general")
    return ncre(arr, sv, n) - nann(arr, sv, n) - nann(arr, g, n) > 0


def prefilter(arr, n):
    """specification of the counting prefilter"""
    n = term(n)
    return z3.Not(z3.Or(n % 2 != 0, imbalance(arr, n, "occ"), imbalance(arr, n, "virt")))


class CountLoop(LoopContract):
    header = "op_string"

    def havoc(self, vc, frame, k, seq):
        for nm in ("create", "annihilate"):
            d = frame[nm]
            for s in list(d.d):
                d.d[s] = Sym(vc.fresh_int(nm + "_" + s))
        frame.locals.pop("counter", None)

    def invariant(self, vc, frame, k, seq):
        arr = frame["op_string"].arrs[0]
        count_unfold(vc, arr, k)
        out = []
        if set(frame["create"].d) != set(SPACES) or set(frame["annihilate"].d) != set(SPACES):
            return [("counters-have-the-three-spaces", False)]
        for s in SPACES:
            sv = SPACES.index(s)
            out.append((f"create[{s}]-is-prefix-count", zeq(frame["create"].d[s], ncre(arr, sv, term(k)))))
            out.append((f"annihilate[{s}]-is-prefix-count", zeq(frame["annihilate"].d[s], nann(arr, sv, term(k)))))
        return out


@register
class HasFullyContracted(Contract):
    key = "adcgen.func:_has_fully_contracted_contribution"
    props = ["C01"]
    loops = {0: CountLoop()}

    def setup(self, vc):
        return {"op_string": new_opseq(vc)}

    def fresh_result(self, vc, a):
        return Sym(vc.fresh_bool("hfc"))

    def post(self, vc, a, result):
        seq = a["op_string"]
        return [("is-the-counting-prefilter", zeq(result, prefilter(seq.arrs[0], seq.len)))]


# --- recursion over the first operator ------------------------------------------
W = z3.Function("wick_prefix", z3.IntSort(), OpArr, z3.IntSort(), z3.RealSort())


def sgn(i):
    return z3.If(i % 2 == 0, z3.RealVal(-1), z3.RealVal(1))


def remaining_spec(ip, seq, i):
    """ops without operators 0 and i (built with the executor's own slice and
    concatenation so that the code's term and the spec's term coincide)"""
    a = seq_slice(ip, seq, 1, i)
    b = seq_slice(ip, seq, wrap(term(i) + 1), None)
    return seq_arith(ip, "Add", a, b)


def wick_unfold(ip, seq, k):
    """W(n, ops, k+1) = W(n, ops, k) + sgn(i) <A0 Ai> vev(ops \\ {0, i}), i=k+1"""
    vc = ip.vc
    n, arr = term(seq.len), seq.arrs[0]
    k = term(k)
    i = z3.simplify(k + 1)
    rem = remaining_spec(ip, seq, wrap(i))
    rest = z3.If(n - 2 > 0, vev(term(rem.len), rem.arrs[0]), z3.RealVal(1))
    vc.assume(W(n, arr, 0) == 0)
    vc.assume(z3.Implies(z3.And(k >= 0, k < n - 1),
                         W(n, arr, k + 1) == W(n, arr, k) +
                         sgn(i) * pair_vev(arr[0], arr[i]) * rest))


class WickLoop(LoopContract):
    header = "range(1, len(op_string))"

    def havoc(self, vc, frame, k, seq):
        frame["result"] = new_sumlist(vc.fresh_real("acc"))
        for nm in ("c", "remaining", "i"):
            frame.locals.pop(nm, None)

    def invariant(self, vc, frame, k, seq):
        ops = frame["op_string"]
        wick_unfold(vc.ip, ops, k)
        return [("accumulated-sum-is-wick-prefix",
                 list_total(frame["result"]) == W(term(ops.len), ops.arrs[0], term(k)))]


@register
class ContractOperatorString(Contract):
    key = "adcgen.func:_contract_operator_string"
    props = ["C01"]
    loops = {0: WickLoop()}

    def setup(self, vc):
        seq = new_opseq(vc)
        return {"op_string": seq}

    def pre(self, vc, a):
        seq = a["op_string"]
        n, arr = term(seq.len), seq.arrs[0]
        # spec-level facts about vev (specification / lemmas, see ASSUMPTIONS)
        vc.assume(z3.Implies(n >= 2, vev(n, arr) == W(n, arr, n - 1)))
        vc.assume(z3.Implies(z3.Not(prefilter(arr, n)), vev(n, arr) == 0))
        dec = vc.ghost.get("decreases_bound")
        out = [("nonempty", n >= 1)]
        if dec is not None and not a.get("_top"):
            out.append(("decreases", z3.And(n < dec, n >= 0)))
        return out

    def may_raise(self, vc, a):
        # _contraction refuses operators whose index carries spin
        seq = a["op_string"]
        k = z3.Int("k!spin")
        return [("NotImplementedError",
                 z3.Exists([k], z3.And(k >= 0, k < term(seq.len),
                                       idx_spin(op_idx(seq.arrs[0][k])) != 0)))]

    def fresh_result(self, vc, a):
        z = vc.fresh_bool("rzero")
        v = vc.fresh_real("rval")
        vc.assume(z3.Implies(z, v == 0))
        return mk_expr(v, Sym(z))

    def post(self, vc, a, result):
        seq = a["op_string"]
        r = as_expr(result)
        return [("value-is-vev", r.f["val"] == vev(term(seq.len), seq.arrs[0]))]


_orig_setup = ContractOperatorString.setup


def _setup_with_measure(self, vc):
    a = _orig_setup(self, vc)
    vc.ghost["decreases_bound"] = term(a["op_string"].len)
    a["_top"] = True
    return a


ContractOperatorString.setup = _setup_with_measure


# --- spec-level lemma: the step of the prefilter induction ----------------------
@lemma("C01", "imbalance-step")
def imbalance_step():
    """If <A0 Ai> != 0 then removing A0 and Ai does not lower
    n_cre[s] - n_ann[s] - n_ann[general] for s in {occ, virt}: the creator
    removed (if of space s) goes together with an annihilator of space s or
    general."""
    p, q = z3.Const("p", OpSort), z3.Const("q", OpSort)
    hyp = z3.And(valid_op(p), valid_op(q), pair_vev(p, q) != 0)
    out = []
    for s in ("occ", "virt"):
        sv, g = SPACES.index(s), SPACES.index("general")

        def cre(o):
            return z3.If(z3.And(op_class(o) == FD, idx_space(op_idx(o)) == sv), 1, 0)

        def ann(o):
            return z3.If(z3.And(op_class(o) != FD,
                                z3.Or(idx_space(op_idx(o)) == sv, idx_space(op_idx(o)) == g)), 1, 0)
        removed = cre(p) + cre(q) - ann(p) - ann(q)
        out.append((f"imbalance[{s}]-not-lowered", z3.Implies(hyp, removed <= 0)))
    # a non vanishing pair consists of one creator and one annihilator: the
    # parity of the length is preserved and odd strings end in a single
    # operator (vev = 0)
    out.append(("pair-is-creator-annihilator",
                z3.Implies(hyp, op_class(p) != op_class(q))))
    return out
