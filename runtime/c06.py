"""Executable contracts for C06 on the real constructors (bounded stand-in,
replay search)."""
import itertools
import random

from sympy import S

from adcgen.indices import get_symbols, sort_idx_canonical
from adcgen.sympy_objects import (AntiSymmetricTensor, SymmetricTensor, Amplitude,
                                  KroneckerDelta, NonSymmetricTensor)
from adcgen.expr_container import Expr
from runtime.tensor_model import Model, orbital_space, evaluate, all_assignments

BUDGET_S = {"quick": 60, "thorough": 600}
POOL = [("i", ""), ("i0", ""), ("i1", ""), ("i01", ""), ("j", ""), ("a", ""),
        ("b", ""), ("p", ""), ("i", "a"), ("i", "b"), ("a", "a"), ("p", "b"),
        ("j3", ""), ("a3", "")]
KINDS = {"anti": AntiSymmetricTensor, "sym": SymmetricTensor, "amp": Amplitude}


def mk(k):
    name, spin = POOL[k]
    return get_symbols(name, spin if spin else None)[0]


def parity(perm):
    perm = list(perm)
    sign = 1
    for i in range(len(perm)):
        while perm[i] != i:
            j = perm[i]
            perm[i], perm[j] = perm[j], perm[i]
            sign = -sign
    return sign


def tensor_cases(tier, seed):
    rng = random.Random(seed)
    n = len(POOL)
    # rank (1,1): all ordered pairs
    for kind in KINDS:
        for bk in (0, 1, -1):
            for u, l in itertools.product(range(n), repeat=2):
                yield {"kind": kind, "bk": bk, "upper": [u], "lower": [l]}
    m = 300 if tier == "quick" else 6000
    for _ in range(m):
        r = rng.choice([2, 2, 3])
        yield {"kind": rng.choice(list(KINDS)), "bk": rng.choice([0, 1, -1]),
               "upper": [rng.randrange(n) for _ in range(r)],
               "lower": [rng.randrange(n) for _ in range(r)]}


def tensor_check(case):
    cls = KINDS[case["kind"]]
    bk = case["bk"]
    up = [mk(k) for k in case["upper"]]
    lo = [mk(k) for k in case["lower"]]
    ref = cls("T", tuple(up), tuple(lo), bk)
    anti = case["kind"] != "sym"
    repeated = len(set(up)) != len(up) or len(set(lo)) != len(lo)
    if anti and repeated:
        return ref is S.Zero, f"repeated index in an antisymmetric group but {ref}"
    if ref is S.Zero:
        return False, "vanishes without a repeated index in an antisymmetric group"
    # every symmetry related ordering gives sign * ref
    perms_u = list(itertools.permutations(range(len(up))))
    perms_l = list(itertools.permutations(range(len(lo))))
    if len(perms_u) * len(perms_l) > 36:
        rng = random.Random(len(str(case)))
        perms_u = rng.sample(perms_u, 6)
        perms_l = rng.sample(perms_l, 6)
    for pu in perms_u:
        for pl in perms_l:
            # bra-ket ANTIsymmetric tensors with identical bra and ket index
            # sets (d^i_i = -d^i_i) are not in the property's list of forced
            # zeros: the exchange is not demanded there
            no_swap = bk == -1 and sorted(map(str, up)) == sorted(map(str, lo))
            for swap in ((False, True) if bk and not no_swap else (False,)):
                u2 = tuple(up[k] for k in pu)
                l2 = tuple(lo[k] for k in pl)
                sign = (parity(pu) * parity(pl)) if anti else 1
                if swap:
                    u2, l2 = l2, u2
                    sign *= bk
                other = cls("T", u2, l2, bk)
                if other != sign * ref:
                    return False, (f"{cls.__name__}(T, {u2}, {l2}, {bk}) = {other} "
                                   f"but expected {sign} * {ref}")
    # the same orderings reached by renaming indices inside the finished
    # tensor (sympy's simultaneous substitution re-runs the constructor on
    # placeholder objects)
    if not repeated and len(set(up) & set(lo)) == 0:
        for pu in perms_u[:3]:
            for pl in perms_l[:3]:
                sub = {up[k]: up[pu[k]] for k in range(len(up)) if up[k] != up[pu[k]]}
                sub.update({lo[k]: lo[pl[k]] for k in range(len(lo)) if lo[k] != lo[pl[k]]})
                if not sub:
                    continue
                # the index now at position k is up[pu[k]]: ordering pu
                sign = (parity(pu) * parity(pl)) if anti else 1
                other = ref.subs(sub, simultaneous=True)
                if other != sign * ref:
                    return False, (f"{ref}.subs({sub}, simultaneous=True) = {other} but expected "
                                   f"{sign} * {ref}")
    # tuples not related by the symmetry are not identified
    for k in range(len(POOL)):
        s = mk(k)
        if s in up or s in lo:
            continue
        other = cls("T", tuple([s] + up[1:]), tuple(lo), bk)
        if other == ref or other == -ref:
            return False, f"unrelated index tuples identified: {other} vs {ref}"
        break
    if bk == 0 and set(up) != set(lo):
        other = cls("T", tuple(lo), tuple(up), bk)
        if other == ref or other == -ref:
            return False, f"bra/ket exchanged tensor identified without bra-ket symmetry: {other}"
    return True, str(ref)


def key_cases(tier, seed):
    for a, b in itertools.combinations(range(len(POOL)), 2):
        yield {"i": a, "j": b}


def key_check(case):
    i, j = mk(case["i"]), mk(case["j"])
    ki, kj = sort_idx_canonical(i), sort_idx_canonical(j)
    if ki[:-1] == kj[:-1]:
        return False, (f"canonical sort keys of the different indices {i!r} and {j!r} "
                       f"coincide up to the hash: {ki[:-1]} (order decided by the hash seed)")
    return True, ""


def delta_cases(tier, seed):
    for a, b in itertools.product(range(len(POOL)), repeat=2):
        yield {"i": a, "j": b}


def delta_check(case):
    i, j = mk(case["i"]), mk(case["j"])
    d1, d2 = KroneckerDelta(i, j), KroneckerDelta(j, i)
    if d1 != d2:
        return False, f"delta({i},{j}) = {d1} differs from delta({j},{i}) = {d2}"
    disjoint = (i.space != "general" and j.space != "general" and i.space != j.space) \
        or (i.spin and j.spin and i.spin != j.spin)
    if i is j:
        return d1 is S.One, f"delta of identical indices is {d1}"
    if disjoint:
        return d1 is S.Zero, f"delta between disjoint ranges is {d1}"
    if d1 is S.Zero or d1 is S.One:
        return False, f"delta({i},{j}) evaluates to {d1}"
    if d1 ** 2 != d1 or d1 ** 3 != d1:
        return False, "positive powers of a delta are not the delta"
    return True, ""


def assume_cases(tier, seed):
    rng = random.Random(seed)
    for _ in range(25 if tier == "quick" else 300):
        nt = rng.randint(1, 3)
        objs = []
        for _t in range(nt):
            name = rng.choice(["f", "V", "d", "x"])
            r = 1 if name in ("f", "d") else rng.choice([1, 2])
            objs.append([name, [rng.randrange(8) for _ in range(r)],
                         [rng.randrange(8) for _ in range(r)],
                         # class of the tensor: the declaration must not change it
                         "anti" if name in ("f", "V") else rng.choice(["anti", "anti", "sym", "amp"])])
        # how the assumptions are declared: constructor / sym_tensors first, make_real() afterwards /
        # set_sym_tensors then make_real(); the Fock matrix or the ERI may be declared beforehand
        yield {"objs": objs, "sym": rng.sample(["d", "x", "f", "V"], rng.randint(0, 3)),
               "antisym": [], "real": rng.random() < 0.6, "route": rng.choice(["constructor", "then_real", "setters"])}
    # every prior declaration of f / V, every route (real orbitals)
    for sym in ([], ["f"], ["V"], ["f", "V"], ["d", "f"], ["d", "V"]):
        for route in ("constructor", "then_real", "setters"):
            yield {"objs": [["f", [0], [3], "anti"], ["V", [0, 1], [3, 4], "anti"], ["d", [1], [4], "anti"]],
                   "sym": sym, "antisym": [], "real": True, "route": route}


def assume_check(case):
    pool = ["i", "j", "k", "a", "b", "c", "p", "q"]
    idx = [get_symbols(n)[0] for n in pool]
    term = S.One
    kinds = {}
    for name, up, lo, *kind in case["objs"]:
        cls = KINDS[kinds.setdefault(name, kind[0] if kind else "anti")]
        term *= cls(name, tuple(idx[k] for k in up), tuple(idx[k] for k in lo))
    if term is S.Zero:
        return True, "vanishes"
    sym = [s for s in case["sym"]]
    e0 = Expr(term)
    route = case.get("route", "constructor")
    if route == "constructor":
        e1 = Expr(term, real=case["real"], sym_tensors=sym)
    elif route == "then_real":
        e1 = Expr(term, sym_tensors=sym)
        if case["real"]:
            e1.make_real()
    else:
        e1 = Expr(term)
        e1.set_sym_tensors(sym)
        if case["real"]:
            e1.make_real()
    if bool(e1.real) != bool(case["real"]):
        return False, f"real = {e1.real} after declaring real = {case['real']} ({route})"
    # idempotent
    before = e1.sympy
    e1.set_sym_tensors(list(e1.sym_tensors))
    if case["real"]:
        e1.make_real()
    if e1.sympy != before:
        return False, f"re-declaring the assumptions changed {before} into {e1.sympy}"
    # only declared tensors are touched
    declared = set(sym) | ({"f", "V"} if case["real"] else set())
    for t in e1.sympy.atoms(AntiSymmetricTensor):
        if type(t) is not KINDS[kinds[t.name]]:
            return False, (f"declaring assumptions turned the {KINDS[kinds[t.name]].__name__} {t.name} "
                           f"into a {type(t).__name__}: {e1.sympy}")
        if t.name not in declared and t.bra_ket_sym != 0:
            return False, f"tensor {t} got a bra-ket symmetry without declaration"
        if t.name in declared and t.bra_ket_sym != 1:
            return False, f"declared tensor {t} has bra-ket symmetry {t.bra_ket_sym}"
    # value unchanged in a model that satisfies the assumption
    model = Model(orbital_space(1, 1), seed=2, braket={n: 1 for n in declared})
    targets = sorted(e0.terms[0].target, key=lambda s: s.name) if e0.sympy != 0 else []
    for asg in all_assignments(targets, model.orbs):
        v0, v1 = evaluate(e0.sympy, asg, model), evaluate(e1.sympy, asg, model)
        if v0 != v1:
            return False, f"value changed by declaring assumptions: {e0} -> {e1}: {v0} != {v1}"
    return True, ""


CHECKS = {
    "sort_idx_canonical.injective": {
        "function": "adcgen.indices:sort_idx_canonical", "cases": key_cases,
        "check": key_check,
        "bound": "all pairs of a pool of 14 indices (numbered names incl. i/i0/i1/i01, spins)"},
    "tensor.constructors": {
        "function": "adcgen.sympy_objects:AntiSymmetricTensor._need_bra_ket_swap",
        "cases": tensor_cases, "check": tensor_check,
        "bound": "Anti/Symmetric/Amplitude, bra-ket symmetry 0/+1/-1, all rank (1,1) index pairs and random rank 2-3 tuples over the pool, all (rank<=2) or 36 sampled permutations incl. bra/ket exchange"},
    "KroneckerDelta.eval": {
        "function": "adcgen.sympy_objects:KroneckerDelta.eval", "cases": delta_cases,
        "check": delta_check, "bound": "all ordered pairs of the pool"},
    "Expr.assumptions": {
        "function": "adcgen.expr_container:Expr._apply_tensor_braket_sym",
        "cases": assume_cases, "check": assume_check,
        "bound": "random products of <= 3 tensors, sym_tensors subsets, real on/off; 1 occ + 1 virt spatial orbital"},
}
