"""Executable contracts for C01 on the real code: `wicks` against an explicit
Fock-space evaluation of the operator product in the reference determinant
(bounded stand-in for the sympy-dependent part; replay search)."""
import itertools
import random
from fractions import Fraction

from sympy import Mul, S, Add
from sympy.physics.secondquant import F, Fd, NO

from adcgen.indices import get_symbols, Index
from adcgen.sympy_objects import NonSymmetricTensor, AntiSymmetricTensor
from adcgen.func import wicks, _contraction, _has_fully_contracted_contribution
from adcgen.rules import Rules
from adcgen.expr_container import Expr
from runtime.tensor_model import Model, orbital_space, evaluate, index_range

BUDGET_S = {"quick": 60, "thorough": 900}
ORBS = orbital_space(1, 1)      # 2 occupied + 2 virtual spin orbitals
REF = frozenset(o for o in ORBS if o[0] == "o")
ORDER = {o: n for n, o in enumerate(ORBS)}


def apply_op(kind, orb, det, coeff):
    """a / a^dagger on a determinant (set of orbitals, canonical order ORBS)."""
    if coeff == 0:
        return det, 0
    n_before = sum(1 for o in det if ORDER[o] < ORDER[orb])
    sign = -1 if n_before % 2 else 1
    if kind == "F":
        if orb not in det:
            return det, 0
        return det - {orb}, coeff * sign
    if orb in det:
        return det, 0
    return det | {orb}, coeff * sign


def vev_explicit(ops):
    """<ref| op_1 ... op_n |ref>, ops = [(kind, orbital)]"""
    det, c = REF, 1
    for kind, orb in reversed(ops):
        det, c = apply_op(kind, orb, det, c)
        if c == 0:
            return 0
    return c if det == REF else 0


def is_quasi_creator(kind, orb):
    return (kind == "Fd" and orb[0] == "v") or (kind == "F" and orb[0] == "o")


def normal_order(ops):
    """normal ordering w.r.t. the Fermi vacuum: quasi creators to the left,
    sign of the (stable) permutation; no contractions."""
    ops = list(ops)
    sign = 1
    # stable bubble sort by (0 for quasi creator, 1 for quasi annihilator)
    key = [0 if is_quasi_creator(*o) else 1 for o in ops]
    for i in range(len(ops)):
        for j in range(len(ops) - 1 - i):
            if key[j] > key[j + 1]:
                key[j], key[j + 1] = key[j + 1], key[j]
                ops[j], ops[j + 1] = ops[j + 1], ops[j]
                sign = -sign
    return sign, ops


# index pool: names and spaces
POOL = ["i", "j", "a", "b", "p", "q"]


def mk_idx():
    return {n: get_symbols(n)[0] for n in POOL}


def build(case):
    """case: {"groups": [[["F"|"Fd", name], ...] , ...], "no": [bool per group]}
    returns sympy product X_{all indices} * ops and the flat description."""
    idx = mk_idx()
    factors = []
    names = []
    for grp, no in zip(case["groups"], case["no"]):
        ops = [(F if k == "F" else Fd)(idx[n]) for k, n in grp]
        names.extend(n for _, n in grp)
        if no and len(ops) > 1:
            factors.append(NO(Mul(*ops)))
        else:
            factors.extend(ops)
    # free (target) indices: occur on exactly one operator and not on the
    # coefficient tensor; all other indices are summed and sit on the tensor
    free = [n for n in case.get("free", []) if names.count(n) == 1]
    distinct = sorted(set(names) - set(free))
    coeff = NonSymmetricTensor("X", tuple(idx[n] for n in distinct)) if distinct else S.One
    return idx, distinct, coeff, Mul(coeff, *factors)


def free_names(case):
    names = [n for grp in case["groups"] for _, n in grp]
    return sorted({n for n in case.get("free", []) if names.count(n) == 1})


def expected(case, distinct, idx, model, target_asg=None):
    total = Fraction(0)
    ranges = [index_range(idx[n], ORBS) for n in distinct]
    for combo in itertools.product(*ranges):
        asg = dict(zip(distinct, combo))
        asg.update(target_asg or {})
        sign = 1
        flat = []
        for grp, no in zip(case["groups"], case["no"]):
            ops = [(k, asg[n]) for k, n in grp]
            if no and len(ops) > 1:
                s, ops = normal_order(ops)
                sign *= s
            flat.extend(ops)
        v = vev_explicit(flat)
        if v:
            total += sign * v * (model.nonsym("X", [asg[n] for n in distinct]) if distinct else 1)
    return total


def wicks_cases(tier, seed):
    rng = random.Random(seed)
    # systematic: all strings of 2 operators, and all 4-operator strings over
    # the index pool restricted to 3 names
    for k1, k2 in itertools.product(["F", "Fd"], repeat=2):
        for n1, n2 in itertools.product(POOL, repeat=2):
            yield {"groups": [[[k1, n1]], [[k2, n2]]], "no": [False, False]}
    # the same operator at two non adjacent positions of a string
    for names in (["i", "j", "p", "j"], ["p", "q", "p", "q"], ["a", "b", "a", "q"], ["i", "a", "i", "a"]):
        for kinds in (["Fd", "F", "Fd", "F"], ["F", "Fd", "F", "Fd"]):
            yield {"groups": [[[k, n] for k, n in zip(kinds, names)]], "no": [False]}
    yield {"groups": [[["Fd", "i"], ["F", "a"]], [["Fd", "p"], ["F", "q"]], [["Fd", "a"], ["F", "i"]]],
           "no": [False, False, False], "deltas": True}
    # free indices: bare strings, a diagonal operator between hole states, a
    # free general index contracted with a summed general index
    for deltas in (False, True):
        for k1, n1, k2, n2 in (("Fd", "p", "F", "q"), ("F", "p", "Fd", "q"), ("Fd", "i", "F", "q"),
                               ("F", "a", "Fd", "p")):
            yield {"groups": [[[k1, n1], [k2, n2]]], "no": [False], "free": [n1, n2], "deltas": deltas}
            yield {"groups": [[[k1, n1], [k2, n2]]], "no": [False], "free": [n1], "deltas": deltas}
        yield {"groups": [[["Fd", "i"], ["F", "p"], ["Fd", "p"], ["F", "j"]]], "no": [False],
               "free": ["i", "j"], "deltas": deltas}
        yield {"groups": [[["Fd", "i"], ["F", "a"]], [["Fd", "p"], ["F", "p"]], [["Fd", "a"], ["F", "j"]]],
               "no": [False, False, False], "free": ["i", "j"], "deltas": deltas}
    n = 120 if tier == "quick" else 3000
    for _ in range(n):
        ngroups = rng.randint(1, 3)
        groups, nos = [], []
        total = 0
        for _g in range(ngroups):
            ln = rng.choice([1, 2, 2, 3, 4])
            if total + ln > 6:
                ln = max(1, 6 - total)
            total += ln
            groups.append([[rng.choice(["F", "Fd"]), rng.choice(POOL)] for _ in range(ln)])
            nos.append(rng.random() < 0.5)
        flat = [tuple(o) for g in groups for o in g]
        # sympy merges a repeated identical operator into a Pow (which is not
        # an operator string any more and vanishes anyway): not generated
        # NO groups with a general index: see the dedicated check
        # wicks.no_general (known finding) - the generator keeps to occ/virt
        # inside NO groups
        for g, no in zip(groups, nos):
            if no and len(g) > 1:
                for o in g:
                    if o[1] in "pq":
                        o[1] = rng.choice("ijab")
        flat = [tuple(o) for g in groups for o in g]
        # the same operator may occur several times in a string (sympy merges
        # adjacent identical operators into a Pow: such a product vanishes);
        # a normal ordered group with a repeated operator vanishes on
        # construction
        if any(no and len({tuple(o) for o in g}) != len(g) for g, no in zip(groups, nos)):
            continue
        case = {"groups": groups, "no": nos, "deltas": rng.random() < 0.4}
        if rng.random() < 0.5:
            # some of the indices are free (target) indices of the product
            case["free"] = rng.sample(POOL, rng.randint(1, 3))
        yield case


def wicks_check(case):
    model = Model(ORBS, seed=3)
    idx, distinct, coeff, expr = build(case)
    if expr is S.Zero:
        return True, "vanishes on construction (Pauli)"
    # an NO group with a repeated operator vanishes identically in sympy
    res = wicks(expr, simplify_kronecker_deltas=bool(case.get("deltas")))
    free = free_names(case)
    for combo in itertools.product(*[index_range(idx[n], ORBS) for n in free]):
        tasg = dict(zip(free, combo))
        exp = expected(case, distinct, idx, model, tasg)
        got = evaluate(res, {idx[n]: o for n, o in tasg.items()}, model)
        if got != exp:
            return False, (f"wicks({expr}, simplify_kronecker_deltas={bool(case.get('deltas'))}) = {res}: "
                           f"value {got}, explicit Fock-space value {exp} at {tasg}")
    return True, str(res)


def contraction_cases(tier, seed):
    for k1, k2 in itertools.product(["F", "Fd"], repeat=2):
        for n1, n2 in itertools.product(POOL, repeat=2):
            yield {"p": [k1, n1], "q": [k2, n2]}


def contraction_check(case):
    idx = mk_idx()
    model = Model(ORBS, seed=5)
    (k1, n1), (k2, n2) = case["p"], case["q"]
    p = (F if k1 == "F" else Fd)(idx[n1])
    q = (F if k2 == "F" else Fd)(idx[n2])
    c = _contraction(p, q)
    distinct = sorted({n1, n2})
    X = NonSymmetricTensor("X", tuple(idx[n] for n in distinct))
    got = evaluate(Mul(X, c), {}, model)
    exp = Fraction(0)
    for combo in itertools.product(*[index_range(idx[n], ORBS) for n in distinct]):
        asg = dict(zip(distinct, combo))
        v = vev_explicit([(k1, asg[n1]), (k2, asg[n2])])
        exp += v * model.nonsym("X", [asg[n] for n in distinct])
    return got == exp, f"_contraction({p},{q}) = {c}: {got} != two-operator expectation value {exp}"


def prefilter_cases(tier, seed):
    rng = random.Random(seed)
    for ln in (2, 4):
        for kinds in itertools.product(["F", "Fd"], repeat=ln):
            for names in itertools.product(["i", "a", "p"], repeat=ln):
                if ln == 4 and rng.random() > (0.15 if tier == "quick" else 1.0):
                    continue
                yield {"ops": [[k, n] for k, n in zip(kinds, names)]}


def prefilter_check(case):
    """result False => the expectation value vanishes for every assignment"""
    idx = mk_idx()
    # distinct index objects per position (different orbitals possible)
    objs = []
    for pos, (k, n) in enumerate(case["ops"]):
        s = get_symbols(f"{n}{pos + 1}")[0]
        objs.append((k, s))
    ops = [(F if k == "F" else Fd)(s) for k, s in objs]
    if _has_fully_contracted_contribution(ops):
        return True, "prefilter lets the string pass"
    for combo in itertools.product(*[index_range(s, ORBS) for _, s in objs]):
        v = vev_explicit([(k, o) for (k, _), o in zip(objs, combo)])
        if v:
            return False, f"prefilter rejects {ops} but <{combo}> = {v}"
    return True, "rejected, vanishes"


def rules_cases(tier, seed):
    rng = random.Random(seed)
    blocks = ["oo", "ov", "vv", "vo", "oovv", "ooov"]
    for _ in range(40 if tier == "quick" else 400):
        forb = {}
        for name in rng.sample(["f", "V", "X"], rng.randint(0, 2)):
            forb[name] = rng.sample(blocks, rng.randint(1, 3))
        terms = []
        for _t in range(rng.randint(1, 4)):
            objs = []
            for _o in range(rng.randint(1, 2)):
                name = rng.choice(["f", "X"])
                objs.append([name, rng.choice(["ij", "ia", "ab", "ai"])])
            terms.append(objs)
        yield {"forbidden": forb, "terms": terms}


def rules_check(case):
    terms = []
    for objs in case["terms"]:
        fs = []
        for name, ix in objs:
            u, lo = get_symbols(ix[0])[0], get_symbols(ix[1])[0]
            fs.append(AntiSymmetricTensor(name, (u,), (lo,)))
        terms.append(Mul(*fs))
    expr = Expr(Add(*terms))
    rules = Rules(case["forbidden"] or None)
    res = rules.apply(expr)
    keep = 0
    for t in expr.terms:
        bad = any(o.name in case["forbidden"] and o.space in case["forbidden"][o.name]
                  for o in t.objects)
        if not bad:
            keep = keep + t.sympy
    ok = (res.sympy - keep).expand() == 0
    return ok, f"rules {case['forbidden']} on {expr}: {res} instead of {keep}"


def wicks_rules_cases(tier, seed):
    """sums whose terms are operator free (bare tensor, product, power, number times tensor) or
    carry an operator string; rules handed to wicks itself"""
    ov = {"f": ["ov"]}
    yield {"forbidden": ov, "terms": [{"objs": [["f", "ia", 1]], "ops": "", "num": 1}]}
    yield {"forbidden": ov, "terms": [{"objs": [["f", "ia", 1], ["X", "ai", 1]], "ops": "", "num": 2}]}
    yield {"forbidden": ov, "terms": [{"objs": [["f", "ia", 2]], "ops": "", "num": 1}]}
    yield {"forbidden": ov, "terms": [{"objs": [["f", "ia", 1]], "ops": "", "num": 1},
                                      {"objs": [["f", "ia", 1], ["X", "ai", 1]], "ops": "kk", "num": 1},
                                      {"objs": [["f", "ij", 1]], "ops": "", "num": 3}]}
    yield {"forbidden": {}, "terms": [{"objs": [["f", "ia", 1]], "ops": "", "num": 1}]}
    yield {"forbidden": ov, "terms": [{"objs": [], "ops": "", "num": 5}]}
    rng = random.Random(seed + 11)
    blocks = ["oo", "ov", "vv", "vo"]
    for _ in range(40 if tier == "quick" else 400):
        forb = {}
        for name in rng.sample(["f", "X"], rng.randint(0, 2)):
            forb[name] = rng.sample(blocks, rng.randint(1, 2))
        terms = []
        for _t in range(rng.randint(1, 4)):
            objs = [[rng.choice(["f", "X"]), rng.choice(["ij", "ia", "ab", "ai"]), rng.choice([1, 1, 2])]
                    for _o in range(rng.randint(0 if _t else 1, 2))]
            terms.append({"objs": objs, "ops": rng.choice(["", "", "kk", "kl", "ck", "kkll"]),
                          "num": rng.choice([1, 1, 2, -3])})
        yield {"forbidden": forb, "terms": terms}


def wicks_rules_check(case):
    idx = {n: get_symbols(n)[0] for n in "ijabklc"}
    forb = case["forbidden"]
    total, keep = S.Zero, S.Zero
    for t in case["terms"]:
        fs = [AntiSymmetricTensor(name, (idx[ix[0]],), (idx[ix[1]],)) ** exp for name, ix, exp in t["objs"]]
        ops = [(Fd if n % 2 == 0 else F)(idx[c]) for n, c in enumerate(t["ops"])]
        sym = Mul(t["num"], *fs, *ops)
        total += sym
        space = {"i": "o", "j": "o", "a": "v", "b": "v"}
        bad = any(name in forb and space[ix[0]] + space[ix[1]] in forb[name] for name, ix, _e in t["objs"])
        if not bad:
            keep += wicks(sym)          # without rules: checked by wicks.value
    rules = Rules(forb or None)
    res = wicks(total, rules=rules)
    ok = (res - keep).expand() == 0
    return ok, (f"wicks({total}, rules={forb}) = {res}; the terms without an excluded block "
                f"evaluate to {keep}")


def no_general_cases(tier, seed):
    yield {"groups": [[["Fd", "p"], ["F", "q"]], [["Fd", "a"], ["F", "i"]]], "no": [True, True]}


CHECKS = {
    "wicks.no_general": {
        "function": "adcgen.func:wicks", "cases": no_general_cases, "check": wicks_check,
        "bound": "the single input NO(Fd(p) F(q)) NO(Fd(a) F(i)) (normal ordered group with general indices)"},
    "_contraction.table": {
        "function": "adcgen.func:_contraction", "cases": contraction_cases,
        "check": contraction_check,
        "bound": "all operator kinds x all index spaces (occ/virt/general, equal or different index objects), explicit determinant evaluation with 2 occ + 2 virt spin orbitals"},
    "_has_fully_contracted_contribution.sound": {
        "function": "adcgen.func:_has_fully_contracted_contribution",
        "cases": prefilter_cases, "check": prefilter_check,
        "bound": "all strings of 2 and (sampled in quick) 4 operators over occ/virt/general"},
    "wicks.value": {
        "function": "adcgen.func:_contract_operator_string", "cases": wicks_cases,
        "check": wicks_check,
        "bound": "products of <= 6 operators in <= 3 groups (bare or normal ordered), indices from a pool of 6 (occ/virt/general, repeats allowed), one coefficient tensor over all summed indices, optional free (target) indices on single operators; explicit Fock-space evaluation, 2 occ + 2 virt spin orbitals"},
    "wicks.rules": {
        "function": "adcgen.func:wicks", "cases": wicks_rules_cases, "check": wicks_rules_check,
        "bound": "sums of <= 4 terms (number x <= 2 one-particle tensors with exponents <= 2 x 0, 2 or 4 operators; operator free terms, bare tensors and powers included), rule sets over 2 tensor names / 4 blocks handed to wicks: the result is the Wick evaluation of exactly the terms without an excluded block"},
    "Rules.apply.filter": {
        "function": "adcgen.rules:Rules.apply", "cases": rules_cases,
        "check": rules_check,
        "bound": "random rule sets over 3 tensor names / 6 blocks, sums of <= 4 terms"},
}
