"""S1 - abstract view of `adcgen.indices.Index` and the range lattice."""
import z3
from pyvc.contract import Schema
from pyvc.values import Sym, term, zand, zor, znot, zeq, wrap

IdxSort = z3.DeclareSort("Idx")
# finite string domains are integer coded: idx_space(t) is an index into SPACES
idx_space = z3.Function("idx_space", IdxSort, z3.IntSort())
idx_spin = z3.Function("idx_spin", IdxSort, z3.IntSort())
# orbital assigned to an index by the (arbitrary, fixed) assignment sigma:
# occupied spin orbitals are the negative integers, virtual ones the others.
orb = z3.Function("orb", IdxSort, z3.IntSort())
# spin of the assigned spin orbital (0 = alpha, 1 = beta)
orb_spin = z3.Function("orb_spin", IdxSort, z3.IntSort())

SPACES = ["occ", "virt", "general"]
SPINS = ["", "a", "b"]
OCC, VIRT, GEN = 0, 1, 2
NOSPIN, ALPHA, BETA = 0, 1, 2


def space_is(t, s):
    return idx_space(t) == SPACES.index(s)


def spin_is(t, s):
    return idx_spin(t) == SPINS.index(s)


def _space_and_spin(ip, s):
    from pyvc.builtins import get_attribute
    return (get_attribute(ip, s, "space"), get_attribute(ip, s, "spin"))


IDX = Schema(
    "Index", IdxSort,
    attrs={
        "space": ("enum", idx_space, SPACES),
        "spin": ("enum", idx_spin, SPINS),
        "space_and_spin": ("py", _space_and_spin),
    },
    classes=("Index", "Dummy", "Symbol", "Expr", "Basic", "AtomicExpr"),
)



def valid_index(t):
    """type invariant of an Index (goes into every precondition)."""
    return z3.And(
        idx_space(t) >= 0, idx_space(t) <= 2,
        idx_spin(t) >= 0, idx_spin(t) <= 2,
        sigma_respects(t),
    )


def sigma_respects(t):
    """the orbital assigned to t lies in the range of t."""
    return z3.And(
        z3.Implies(idx_space(t) == OCC, orb(t) < 0),
        z3.Implies(idx_space(t) == VIRT, orb(t) >= 0),
        z3.Or(orb_spin(t) == 0, orb_spin(t) == 1),
        z3.Implies(idx_spin(t) == ALPHA, orb_spin(t) == 0),
        z3.Implies(idx_spin(t) == BETA, orb_spin(t) == 1),
    )


def new_index(vc, prefix="i"):
    t = vc.fresh(prefix, IdxSort)
    vc.assume(valid_index(t))
    return Sym(t, "Index")


def range_subset(i, j):
    """range(i) is a subset of range(j)  (i, j z3 terms of sort Idx)."""
    i, j = term(i), term(j)
    g, n = GEN, NOSPIN
    return z3.And(z3.Or(idx_space(j) == g, idx_space(i) == idx_space(j)),
                  z3.Or(idx_spin(j) == n, idx_spin(i) == idx_spin(j)))


def range_equal(i, j):
    i, j = term(i), term(j)
    return z3.And(idx_space(i) == idx_space(j), idx_spin(i) == idx_spin(j))


def range_disjoint(i, j):
    i, j = term(i), term(j)
    g, n = GEN, NOSPIN
    return z3.Or(
        z3.And(idx_space(i) != g, idx_space(j) != g, idx_space(i) != idx_space(j)),
        z3.And(idx_spin(i) != n, idx_spin(j) != n, idx_spin(i) != idx_spin(j)))


def same_orbital(i, j):
    """sigma assigns the same spin orbital to both indices."""
    i, j = term(i), term(j)
    return z3.And(orb(i) == orb(j), orb_spin(i) == orb_spin(j))


IDX.invariant = valid_index
