"""Index names without string theory.

A name is one base letter followed by a (possibly empty) digit string:
  name_letter(i)  code into LETTERS
  name_digits(i)  element of the uninterpreted sort DigitStr with
                  dig_num (the integer it denotes, >= 0) and dig_nonempty
Two names are equal iff letter and digit string are equal.  Different digit
strings may denote the same number ("1", "01") and the empty digit string has
no number: `int(name[1:]) if name[1:] else 0` is modelled exactly by
`If(dig_nonempty, dig_num, 0)`.
The lexicographic order of names is abstracted by name_rank: an order
embedding into Int (sound for the finitely many names of a path).
"""
import z3
from pyvc import contract as C
from pyvc.values import Struct, Sym, mk_enum, wrap, zand, Unsupported
from spec.idx import IdxSort, idx_space, idx_spin, OCC, VIRT, GEN, IDX

BASE = {"occ": "ijklmno", "virt": "abcdefgh", "general": "pqrstuvw"}
LETTERS = list(BASE["occ"] + BASE["virt"] + BASE["general"])
DigitSort = z3.DeclareSort("DigitStr")
name_letter = z3.Function("name_letter", IdxSort, z3.IntSort())
name_digits = z3.Function("name_digits", IdxSort, DigitSort)
dig_num = z3.Function("dig_num", DigitSort, z3.IntSort())
dig_nonempty = z3.Function("dig_nonempty", DigitSort, z3.BoolSort())
name_rank = z3.Function("name_rank", IdxSort, z3.IntSort())


def valid_name(t):
    """type invariant of a registered index: base letter of its space +
    digits (what Indices.get_indices / index_space / split_idx_string
    produce from strings)"""
    lt = name_letter(t)
    return z3.And(
        z3.Implies(idx_space(t) == OCC, z3.And(lt >= 0, lt < 7)),
        z3.Implies(idx_space(t) == VIRT, z3.And(lt >= 7, lt < 15)),
        z3.Implies(idx_space(t) == GEN, z3.And(lt >= 15, lt < 23)),
        dig_num(name_digits(t)) >= 0,
    )


def same_name(i, j):
    return z3.And(name_letter(i) == name_letter(j), name_digits(i) == name_digits(j))


def same_registry_key(i, j):
    """(space, spin, name) of the two indices coincide; for registered indices
    (class invariant of `Indices`, C19) this means they are the same object"""
    return z3.And(idx_space(i) == idx_space(j), idx_spin(i) == idx_spin(j),
                  same_name(i, j))


def _name_attr(ip, s):
    return Struct("IdxName", t=s.t)


IDX.attrs["name"] = ("py", _name_attr)


def _name_subscript(ip, obj, idx):
    if idx == 0:
        return mk_enum(name_letter(obj.f["t"]), LETTERS)
    if isinstance(idx, tuple) and idx[0] == "slice" and idx[1] == 1 and idx[2] is None \
            and idx[3] is None:
        return Struct("DigitStr", t=name_digits(obj.f["t"]))
    raise Unsupported(f"subscript {idx!r} of an index name")


C.STRUCT_SUBSCRIPT["IdxName"] = _name_subscript
C.STRUCT_TRUTH["DigitStr"] = lambda ip, v: dig_nonempty(v.f["t"])
C.STRUCT_TRUTH["IdxName"] = lambda ip, v: True


def _digit_int(ip, obj, args, kwargs):
    from pyvc.vc import RaiseEx
    if not ip.vc.decide(dig_nonempty(obj.f["t"])):
        raise RaiseEx("ValueError", "int('')")
    return wrap(dig_num(obj.f["t"]))


C.STRUCT_METHODS[("DigitStr", "__int__")] = _digit_int


def _name_eq(ip, a, b):
    if isinstance(a, Struct) and isinstance(b, Struct) and a.cls == b.cls == "IdxName":
        return same_name(a.f["t"], b.f["t"])
    raise Unsupported("comparison of an index name with a non-name")


C.STRUCT_EQ["IdxName"] = _name_eq


def _name_less(ip, a, b, strict):
    if isinstance(a, Struct) and isinstance(b, Struct) and a.cls == b.cls == "IdxName":
        ta, tb = a.f["t"], b.f["t"]
        ip.vc.assume((name_rank(ta) == name_rank(tb)) == same_name(ta, tb))
        return name_rank(ta) < name_rank(tb) if strict else name_rank(ta) <= name_rank(tb)
    raise Unsupported("order of an index name and a non-name")


C.STRUCT_LESS = getattr(C, "STRUCT_LESS", {})
C.STRUCT_LESS["IdxName"] = _name_less
