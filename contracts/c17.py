"""C17 - generated contraction code.  Contracts on the text templates of
adcgen.generate_code.generate_code: format_einsum_contraction,
format_libtensor_contraction, format_perm_symmetry (holes are opaque strings:
the emitted text must be the canonical call text with every hole in its
place)."""
import itertools
import z3
from pyvc import contract as C
from pyvc.contract import Contract, register
from pyvc.values import Struct, Sym, PList, term, wrap, zand, zor, znot, zeq, Unsupported

ASSUMPTIONS = [
    "einsum / libtensor semantics of the canonical call texts: einsum(\"i1,i2,...->t\", T1, T2, ...) sums the product over all indices not in t; contract(c1|c2, A, B) sums the product over c1, c2; dot_product sums over all indices; '*' is the (outer) product",
    "tensor names, index strings and prefactor texts are opaque holes (arbitrary strings); str.join is injective on separator free parts",
    "concrete-shape proof: 0-3 tensors, 0-2 scalar factors, 0-2 contracted indices, 0-2 permutation operators with 1-2 transpositions",
    "generate_code (assembly of inner / outer contractions), format_contraction (index strings, name translation, partial trace refusal), format_prefactor and the number formatters are only covered by the bounded stand-in generated_code.execute",
]
TRUSTED = ["einsum / libtensor semantics of the canonical call texts"]
GC = "adcgen.generate_code.generate_code:"


def holes(vc, prefix, n):
    return [Sym(z3.String(f"{prefix}{k}")) for k in range(n)]


def cat(*parts):
    ts = [z3.StringVal(p) if isinstance(p, str) else term(p) for p in parts if not (isinstance(p, str) and p == "")]
    if not ts:
        return z3.StringVal("")
    return ts[0] if len(ts) == 1 else z3.Concat(*ts)


def joined(sep, parts):
    out = []
    for n, p in enumerate(parts):
        if n:
            out.append(sep)
        out.append(p)
    return cat(*out)


def as_term(v):
    return z3.StringVal(v) if isinstance(v, str) else term(v)


@register
class FormatEinsum(Contract):
    key = GC + "format_einsum_contraction"
    props = ["C17"]
    SHAPES = [(t, f) for t in range(0, 4) for f in range(0, 3)]
    split_first_choice = len(SHAPES)

    def setup(self, vc):
        nt, nf = self.SHAPES[vc.choose(len(self.SHAPES), "shape")]
        tensors, idx = holes(vc, "tensor", nt), holes(vc, "idx", nt)
        factors = holes(vc, "factor", nf)
        target = Sym(z3.String("target"))
        return {"tensors": PList(tensors), "factors": PList(factors), "indices": PList(idx),
                "target": target}

    def post(self, vc, a, result):
        tensors, factors = a["tensors"].items, a["factors"].items
        idx, target = a["indices"].items, a["target"]
        comps = [f for f in factors]
        if len(tensors) == 1:
            bare = idx[0].t == target.t
            call = cat('einsum("', idx[0], "->", target, '", ', tensors[0], ")")
            last = z3.If(bare, tensors[0].t, call)
            comps_t = [as_term(c) for c in comps] + [last]
        elif tensors:
            call = cat('einsum("', joined(",", idx), "->", target, '", ', joined(", ", tensors), ")")
            comps_t = [as_term(c) for c in comps] + [call]
        else:
            comps_t = [as_term(c) for c in comps]
        spec = joined(" * ", [Sym(t) for t in comps_t])
        return [("text-is-factors-times-the-canonical-einsum-call", as_term(result) == spec)]


def idx_obj(vc, k):
    s = Struct("IndexTok", name=Sym(z3.String(f"contracted{k}")))
    return s


@register
class FormatLibtensor(Contract):
    key = GC + "format_libtensor_contraction"
    props = ["C17"]
    SHAPES = [(t, f, c, tg) for t in range(0, 4) for f in range(0, 2) for c in range(0, 3)
              for tg in (False, True)]
    split_first_choice = len(SHAPES)

    def setup(self, vc):
        nt, nf, nc, has_target = self.SHAPES[vc.choose(len(self.SHAPES), "shape")]
        return {"tensors": PList(holes(vc, "tensor", nt)), "factors": PList(holes(vc, "factor", nf)),
                "target": Sym(z3.String("target")) if has_target else "",
                "contracted": tuple(idx_obj(vc, k) for k in range(nc))}

    def pre(self, vc, a):
        tg = a["target"]
        return [("target-string-nonempty", z3.Length(tg.t) > 0)] if isinstance(tg, Sym) else []

    def raises(self, vc, a):
        nt, nc = len(a["tensors"].items), len(a["contracted"])
        has_t = isinstance(a["target"], Sym)
        return [("AssertionError", nt == 1 and nc > 0),
                ("NotImplementedError", nt > 1 and nc == 0 and not has_t)]

    def post(self, vc, a, result):
        tensors, factors = a["tensors"].items, a["factors"].items
        contracted = [c.f["name"] for c in a["contracted"]]
        has_t = isinstance(a["target"], Sym)
        comps = list(factors)
        if len(tensors) == 1:
            comps.append(tensors[0])
        elif len(tensors) > 1:
            if contracted and has_t:
                comps.append(Sym(cat("contract(", joined("|", contracted), ", ", joined(", ", tensors), ")")))
            elif has_t:
                comps.extend(tensors)
            else:
                comps.append(Sym(cat("dot_product(", joined(", ", tensors), ")")))
        return [("text-is-factors-times-the-canonical-libtensor-call",
                 as_term(result) == joined(" * ", comps))]


@register
class FormatPermSymmetry(Contract):
    key = GC + "format_perm_symmetry"
    props = ["C17"]
    SHAPES = [[], [1], [2], [1, 1], [2, 1]]

    def setup(self, vc):
        shape = self.SHAPES[vc.choose(len(self.SHAPES), "shape")]
        ps = []
        for n, k in enumerate(shape):
            perms = tuple(Struct("PermTok", _str=Sym(z3.String(f"P{n}_{m}"))) for m in range(k))
            factor = [1, -1][vc.choose(2, "factor")]
            ps.append((perms, factor))
        return {"perm_symmetry": tuple(ps)}

    def post(self, vc, a, result):
        ps = a["perm_symmetry"]
        if not ps:
            return [("identity-only", result == "1")]
        parts = ["1"]
        for perms, factor in ps:
            parts.append(Sym(cat("+ " if factor == 1 else "- ", *[p.f["_str"] for p in perms])))
        spec = cat("(", joined(" ", parts), ")")
        return [("text-is-one-plus-signed-permutation-operators", as_term(result) == spec)]


# --- generate_code: assembly of the program text ----------------------------------------------
# Callees are opaque (assumed contracts returning arbitrary strings / contraction lists);
# obligations: the permutational symmetry is exploited with the request as given, the
# contraction scheme of every term is requested with the target indices / target spin of the
# request (bra-ket separator removed) and the given limits, every inner contraction is
# formatted before it is used, exactly one outer contraction, and the text is
#   header + "Apply <perm> to:\n" + one line "<pref> * <outer>  <comment>" (or "<pref>") per
#   term, blocks separated by an empty line.
from pyvc.values import PDict, Inst
from pyvc.vc import RaiseEx

HEADER = "The scaling comment is given as: [comp_scaling] / [mem_scaling]\n"
_REQ = {}


def _req(vc):
    return vc.ghost["_gc"]


def _same_arg(vc, got, want):
    if want is None or got is None:
        return got is want
    if isinstance(want, (bool, int)) or isinstance(got, (bool, int)):
        return z3.BoolVal(True) if got is want else zeq(got, want)
    return as_term(got) == as_term(want)


class _Opaque(Contract):
    props = []
    assumed = True


@register
class _ExploitPermSym(_Opaque):
    key = "adcgen.sort_expr:exploit_perm_sym"
    note = "C10: lossless decomposition {permutation operators: part}; here: called with the request as given"

    def pre(self, vc, a):
        r = _req(vc)
        return [("symmetry-is-exploited-for-the-requested-result-tensor",
                 zand(a["expr"] is r["expr"], _same_arg(vc, a["target_indices"], r["target_indices"]),
                      _same_arg(vc, a.get("target_spin"), r["target_spin"]),
                      _same_arg(vc, a.get("bra_ket_sym", 0), r["bra_ket_sym"]),
                      _same_arg(vc, a.get("antisymmetric_result_tensor", True), r["antisym"])))]

    def fresh_result(self, vc, a):
        return _req(vc)["parts"]


class _SchemeCallee(_Opaque):
    optimised = True

    def pre(self, vc, a):
        r = _req(vc)
        term_ok = any(a["term"] is t for t in r["all_terms"])
        out = [("scheme-for-a-term-of-the-expression", term_ok),
               ("scheme-with-the-requested-target-indices-without-separator",
                as_term(a["target_indices"]) == as_term(r["target_plain"])),
               ("scheme-with-the-requested-target-spin",
                _same_arg(vc, a.get("target_spin"), r["spin_plain"]))]
        if self.optimised:
            out.append(("scheme-with-the-requested-limits",
                        zand(_same_arg(vc, a.get("max_itmd_dim"), r["max_itmd_dim"]),
                             _same_arg(vc, a.get("max_n_simultaneous_contracted"), r["max_n"]))))
        return out

    def fresh_result(self, vc, a):
        return a["term"].f["scheme"]


@register
class _OptimizeCallee(_SchemeCallee):
    key = "adcgen.generate_code.optimize_contractions:optimize_contractions"
    note = "C16 (bounded stand-in schemes.execute)"


@register
class _UnoptimizedCallee(_SchemeCallee):
    key = "adcgen.generate_code.optimize_contractions:unoptimized_contraction"
    note = "C16 (bounded stand-in schemes.execute)"
    optimised = False


FMT_NUMBER = {"einsum": z3.Function("python_number_text", z3.RealSort(), z3.StringSort()),
              "libtensor": z3.Function("cpp_number_text", z3.RealSort(), z3.StringSort())}


class _NumberFormatter(_Opaque):
    """number formatters: assumed callees (text of a non negative number in the syntax of the
    backend: an uninterpreted function of the number - bounded stand-in generated_code.execute);
    obligation at the call site: the magnitude of the prefactor of the term is what is formatted"""
    backend = None

    def pre(self, vc, a):
        pref = vc.ghost["_pref"]
        return [("the-magnitude-of-the-prefactor-of-the-term-is-formatted",
                 term(a["prefactor"]) == z3.If(pref.t < 0, -pref.t, pref.t))]

    def fresh_result(self, vc, a):
        return Sym(FMT_NUMBER[self.backend](term(a["prefactor"])))


@register
class _FormatPythonPrefactor(_NumberFormatter):
    key = GC + "_format_python_prefactor"
    backend = "einsum"
    note = "text of a non negative number in Python syntax"


@register
class _FormatCppPrefactor(_NumberFormatter):
    key = GC + "_format_cpp_prefactor"
    backend = "libtensor"
    note = "text of a non negative number in C++ syntax"


C.STRUCT_ISINSTANCE["SymbolBaseV"] = lambda ip, v, cls: str(
    getattr(cls, "dotted", getattr(cls, "key", ""))).endswith("Symbol")
C.STRUCT_ISINSTANCE["TensorBaseV"] = lambda ip, v, cls: False


@register
class FormatPrefactor(Contract):
    """format_prefactor: "<sign> <|prefactor| in the syntax of the backend>[ * <symbol> ...]" -
    the sign is '-' exactly for a negative prefactor, the number formatter of the requested
    backend sees the magnitude, every Symbol of the term follows with its multiplicity (its
    exponent) in the order of the objects, tensors contribute nothing; any other backend is
    refused with NotImplementedError."""
    key = GC + "format_prefactor"
    props = ["C17"]
    note = "prefactor text of the term"
    # objects of the term: S symbol, T tensor; exponent behind it
    SHAPES = [(), (("S", 1),), (("T", 1),), (("S", 2),), (("T", 1), ("S", 1)), (("S", 1), ("T", 2), ("S", 3)),
              (("S", 2), ("S", 1))]
    BACKENDS = ["einsum", "libtensor", "numpy"]
    split_first_choice = len(SHAPES)

    def setup(self, vc):
        shape = self.SHAPES[vc.choose(len(self.SHAPES), "shape")]
        backend = self.BACKENDS[vc.choose(len(self.BACKENDS), "backend")]
        pref = Sym(z3.Real("prefactor"))
        vc.ghost["_pref"] = pref
        objs = []
        for n, (kind, expo) in enumerate(shape):
            name = Sym(z3.String(f"name{n}"))
            vc.assume(z3.Length(name.t) > 0)   # type invariant: sympy symbols / tensors have a non-empty name
            # Obj.name (its body: the name of a SymbolicTensor, otherwise None) - a Symbol carries
            # its name only on the sympy object
            base = Struct("SymbolBaseV" if kind == "S" else "TensorBaseV", name=name)
            objs.append(Struct("CodeObjV", base=base, name=None if kind == "S" else name, exponent=expo))
        return {"term": Struct("PrefTermV", prefactor=pref, objects=tuple(objs)), "backend": backend}

    def raises(self, vc, a):
        return [("NotImplementedError", a["backend"] not in ("einsum", "libtensor"))]

    def post(self, vc, a, result):
        pref = a["term"].f["prefactor"]
        number = FMT_NUMBER[a["backend"]](z3.If(pref.t < 0, -pref.t, pref.t))
        sign = z3.If(pref.t < 0, z3.StringVal("-"), z3.StringVal("+"))
        symbols = [o.f["base"].f["name"] for o in a["term"].f["objects"] if o.f["base"].cls == "SymbolBaseV"
                   for _ in range(o.f["exponent"])]
        comps = [Sym(cat(Sym(sign), " ", Sym(number)))] + symbols
        # the sign of a vanishing prefactor is unobservable: either text is accepted
        other = [Sym(cat("-", " ", Sym(number)))] + symbols
        return [("text-is-sign-magnitude-in-the-backend-syntax-times-every-symbol-with-its-multiplicity",
                 z3.Or(as_term(result) == joined(" * ", comps),
                       z3.And(pref.t == 0, as_term(result) == joined(" * ", other))))]

    def apply(self, vc, a):
        """callers' view (generate_code): the prefactor text of the term"""
        return a["term"].f["pref_text"]


@register
class _FormatScaling(_Opaque):
    key = GC + "format_scaling_comment"
    note = "comment text"

    def apply(self, vc, a):
        return a["term"].f["comment_text"]


@register
class _FormatContraction(_Opaque):
    key = GC + "format_contraction"
    note = "text of one contraction; inner contractions are taken from the cache"

    def pre(self, vc, a):
        c = a["contraction"]
        cache = a["contraction_cache"]
        keys = set(cache.d.keys()) if isinstance(cache, PDict) else set()
        need = [n for n in c.f["names"] if n.startswith("contraction_")]
        return [("every-inner-contraction-is-formatted-before-it-is-used", all(n in keys for n in need)),
                ("backend-is-passed-on", a["backend"] == _req(vc)["backend"])]

    def fresh_result(self, vc, a):
        return a["contraction"].f["text"]


def _mk_term(vc, n, kind):
    """kind: 0 prefactor only, 1 one contraction, 2 inner + outer, 3 two inner + outer"""
    idx = () if kind == 0 else (Struct("IndexTok", spin=""),)
    scheme = []
    for k in range(max(kind, 0)):
        last = k == kind - 1
        names = ("T_a", "T_b") if k == 0 else (f"contraction_{n}_{k - 1}", "T_c")
        scheme.append(Struct("ContractionV", contraction_name=f"contraction_{n}_{k}", names=names,
                             text=Sym(z3.String(f"contr_text_{n}_{k}")), last=last))
    return Struct("CodeTerm", idx=idx, scheme=PList(scheme), pref_text=Sym(z3.String(f"pref_{n}")),
                  comment_text=Sym(z3.String(f"comment_{n}")))


@register
class GenerateCode(Contract):
    key = GC + "generate_code"
    props = ["C17"]
    SHAPES = [([1],), ([0],), ([2],), ([3],), ([1, 0],), ([2, 1],), ([1], [2]), ([0], [1, 1])]
    split_first_choice = len(SHAPES)

    def setup(self, vc):
        shape = self.SHAPES[vc.choose(len(self.SHAPES), "shape")]
        mode = vc.choose(4, "options")
        comma, spin, optimise = mode in (1, 3), mode in (2, 3), mode != 2
        expr = Struct("ExprArgV")
        C.STRUCT_ISINSTANCE["ExprArgV"] = lambda ip, v, cls: True
        parts, all_terms, n = {}, [], 0
        for k, kinds in enumerate(shape):
            terms = []
            for kd in kinds:
                terms.append(_mk_term(vc, n, kd))
                n += 1
            all_terms += terms
            parts[Struct("PermSymTok", text=Sym(z3.String(f"perm_text_{k}")))] = \
                Struct("SubExprV", terms=tuple(terms))
        C.STRUCT_METHODS[("PartsV", "items")] = lambda ip, o, a_, k_: PList(list(o.f["parts"].items()))
        tgt = "ia,jb" if comma else "iajb"
        tspin = ("aa,bb" if comma else "aabb") if spin else None
        vc.ghost["_gc"] = {"expr": expr, "target_indices": tgt, "target_spin": tspin, "bra_ket_sym": 1,
                           "antisym": False, "parts": Struct("PartsV", parts=parts),
                           "all_terms": all_terms, "target_plain": "iajb",
                           "spin_plain": "aabb" if spin else None, "max_itmd_dim": 3, "max_n": 2,
                           "backend": "einsum", "optimise": optimise}
        return {"expr": expr, "target_indices": tgt, "target_spin": tspin, "bra_ket_sym": 1,
                "antisymmetric_result_tensor": False, "backend": "einsum", "max_itmd_dim": 3,
                "max_n_simultaneous_contracted": 2, "optimize_contraction_scheme": optimise}

    def post(self, vc, a, result):
        r = _req(vc)
        blocks = []
        for ps, sub in r["parts"].f["parts"].items():
            lines = []
            for t in sub.f["terms"]:
                if not t.f["idx"]:
                    lines.append(t.f["pref_text"])
                else:
                    outer = t.f["scheme"].items[-1]
                    lines.append(Sym(cat(t.f["pref_text"], " * ", outer.f["text"], "  ", t.f["comment_text"])))
            blocks.append(Sym(cat(HEADER, "Apply ", ps.f["text"], " to:\n", joined("\n", lines))))
        return [("text-is-header-permutation-operators-and-one-line-per-term",
                 as_term(result) == joined("\n\n", blocks))]


def _perm_callers_view(self, vc, a):
    """callers' view of format_perm_symmetry: the text of the operators"""
    return a["perm_symmetry"].f["text"]


FormatPermSymmetry.apply = _perm_callers_view
