"""Executable contracts for C09 (run on the real code): bounded stand-ins and
replay search."""
import itertools
import random

from sympy import Mul, S

from adcgen.indices import get_symbols, Index
from adcgen.sympy_objects import (KroneckerDelta, AntiSymmetricTensor,
                                  NonSymmetricTensor)
from adcgen.func import evaluate_deltas
from runtime.tensor_model import (Model, orbital_space, evaluate,
                                  all_assignments, term_indices)

BUDGET_S = {"quick": 40, "thorough": 400}


def rng_subset(i, j):
    """range(i) subset of range(j)"""
    return (j.space == "general" or i.space == j.space) and \
        (j.spin == "" or i.spin == j.spin)


def rng_disjoint(i, j):
    return (i.space != "general" and j.space != "general" and i.space != j.space) \
        or (i.spin and j.spin and i.spin != j.spin)


def mk(name, spin):
    return get_symbols(name, spin if spin else None)[0]


# --- preferred_and_killable: full table --------------------------------------
def pk_cases(tier, seed):
    names = {"occ": ("i", "j"), "virt": ("a", "b"), "general": ("p", "q")}
    for s1, s2 in itertools.product(names, repeat=2):
        for sp1, sp2 in itertools.product(["", "a", "b"], repeat=2):
            yield {"i": [names[s1][0], sp1], "j": [names[s2][1], sp2]}


def pk_check(case):
    i, j = mk(*case["i"]), mk(*case["j"])
    d = KroneckerDelta(i, j)
    if d is S.Zero or d is S.One:
        return rng_disjoint(i, j) or i is j, f"delta evaluates to {d}"
    if rng_disjoint(i, j):
        return False, "delta between disjoint ranges does not vanish"
    res = d.preferred_and_killable
    if res is None:
        ok = not rng_subset(i, j) and not rng_subset(j, i)
        return ok, "None although one index carries at least as much information"
    p, k = res
    if {p, k} != {i, j}:
        return False, f"result {res} is not the index pair"
    eq = d.indices_contain_equal_information
    if eq != (i.space == j.space and i.spin == j.spin):
        return False, "indices_contain_equal_information wrong"
    return rng_subset(p, k), f"preferred {p} does not carry at least the information of killable {k}"


# --- evaluate_deltas: value preservation -----------------------------------
POOL = [("i", ""), ("j", ""), ("a", ""), ("b", ""), ("p", ""), ("q", ""),
        ("i", "a"), ("j", "b"), ("a", "a"), ("p", "a"), ("q", "b"), ("k", "")]


def ed_cases(tier, seed):
    rng = random.Random(seed)
    n = 150 if tier == "quick" else 2500
    # systematic part: one and two deltas linking all pool pairs
    for (x, y) in itertools.combinations(range(len(POOL)), 2):
        yield {"deltas": [[x, y]], "tensors": [[x], [y]], "targets": []}
        yield {"deltas": [[x, y]], "tensors": [[x], [y]], "targets": [y]}
        yield {"deltas": [[x, y]], "tensors": [[x], [y]], "targets": [x]}
        yield {"deltas": [[x, y]], "tensors": [[x, y]], "targets": None}
    # chains target - x - y: the target index sits only on a delta, x on that
    # delta, on a second delta and on a tensor (targets from the summation
    # convention and explicit)
    triples = list(itertools.permutations(range(len(POOL)), 3))
    rng.shuffle(triples)
    for t, x, y in triples[:150 if tier == "quick" else 1320]:
        tensors = rng.choice([[[x], [y]], [[x, y]], [[x], [x], [y]], [[x], [y], [y]]])
        for targets in (None, [t]):
            yield {"deltas": [[t, x], [x, y]], "tensors": tensors, "targets": targets}
            yield {"deltas": [[x, y], [t, x]], "tensors": tensors, "targets": targets}
    for _ in range(n):
        nd = rng.randint(1, 3)
        deltas = [rng.sample(range(len(POOL)), 2) for _ in range(nd)]
        used = sorted({x for d in deltas for x in d})
        tensors = []
        # every CONTRACTED index occurs on at least one non-delta object
        # (precondition); an index that occurs only once may stay on its delta
        once = [x for x in used if sum(d.count(x) for d in deltas) == 1]
        for x in once:
            if rng.random() < 0.3:
                used.remove(x)
        rng.shuffle(used)
        while used:
            take = rng.randint(1, min(2, len(used)))
            tensors.append([used.pop() for _ in range(take)])
        if rng.random() < 0.4:
            tensors.append(rng.sample(range(len(POOL)), 2))
        allidx = sorted({x for t in tensors for x in t} | {x for d in deltas for x in d})
        mode = rng.random()
        if mode < 0.3:
            targets = None
        else:
            targets = rng.sample(allidx, rng.randint(0, min(3, len(allidx))))
            # indices that sit only on a delta are target indices
            on_tensor = {x for t in tensors for x in t}
            targets = sorted(set(targets) | {x for x in allidx if x not in on_tensor})
        yield {"deltas": deltas, "tensors": tensors, "targets": targets, "second_term": rng.random() < 0.3}


def build_term(case):
    idx = [mk(*POOL[k]) for k in range(len(POOL))]
    factors = []
    for x, y in case["deltas"]:
        factors.append(KroneckerDelta(idx[x], idx[y]))
    for n, t in enumerate(case["tensors"]):
        factors.append(NonSymmetricTensor(f"X{n}", tuple(idx[k] for k in t)))
    return idx, Mul(*factors)


def einstein_targets(term):
    cnt = {}
    for obj in Mul.make_args(term):
        for s in obj.atoms(Index):
            cnt[s] = cnt.get(s, 0) + 1
    return [s for s, n in cnt.items() if n == 1]


def ed_check(case):
    idx, term = build_term(case)
    if term is S.Zero:
        return True, "term vanishes"
    if case.get("second_term") and case["targets"]:
        # a sum of two terms with explicitly given target indices
        term = term + NonSymmetricTensor("Zsum", tuple(idx[k] for k in case["targets"]))
    if case["targets"] is None:
        targets = einstein_targets(term)
        res = evaluate_deltas(term)
    else:
        targets = [idx[k] for k in case["targets"]]
        # explicit targets without spin can be passed as a string only if no
        # spin: pass Index objects
        res = evaluate_deltas(term, targets) if targets else evaluate_deltas(term, [])
    # (1) no index appears that was not there; targets are kept
    new = set(S(res).atoms(Index)) - set(term.atoms(Index))
    if new:
        return False, f"new indices {new}"
    # (2) value for every assignment of the targets
    model = Model(orbital_space(1, 1), seed=1)
    tsorted = sorted(targets, key=lambda s: (s.space, s.spin, s.name))
    for asg in all_assignments(tsorted, model.orbs):
        v0 = evaluate(term, asg, model)
        try:
            v1 = evaluate(res, asg, model)
        except KeyError as e:
            return False, f"target index lost: {e}; result {res}"
        if v0 != v1:
            return False, (f"value changed: {term} -> {res}; targets {tsorted}; "
                           f"assignment {asg}: {v0} != {v1}")
    return True, str(res)


CHECKS = {
    "preferred_and_killable.table": {
        "function": "adcgen.sympy_objects:KroneckerDelta.preferred_and_killable",
        "cases": pk_cases, "check": pk_check,
        "bound": "all 81 space x spin combinations (exhaustive for the abstract domain)",
    },
    "evaluate_deltas.value": {
        "function": "adcgen.func:evaluate_deltas",
        "cases": ed_cases, "check": ed_check,
        "bound": "products of <=3 deltas over a pool of 12 indices (occ/virt/general, with/without spin) with NonSymmetricTensor remainders; 1 occ + 1 virt spatial orbital; all target assignments",
    },
}
