"""S4 - algebra of perturbation-series quantities (glue level, C02-C05).

Commutative (tensor valued) quantities are `Struct("Expr")` of spec/exprval.py
(value = z3 Real).  Operator valued quantities are `Struct("NC")`:
   terms = [(coeff: z3 Real, word: tuple of z3 terms of sort Atom)]
a formal sum of words of non commuting atoms (wave functions, Hamiltonian
parts, excitation operator strings) with commutative coefficients.  The
vacuum expectation value (adcgen.func:wicks, contract of C01) is the linear
map  sum coeff * VEV_n(rules, word).

Index hygiene (S6): every quantity that contains contracted indices carries
the *stamps* of the calls that created them; a product of two factors with a
common stamp re-uses contracted indices - obligation `index-hygiene`.
"""
import z3
from pyvc import contract as C
from pyvc.values import Struct, Sym, PList, term, wrap, zand, zor, znot, Unsupported
from spec.exprval import mk_expr, as_expr, real, ZERO, ONE

AtomSort = z3.DeclareSort("Atom")
RulesSort = z3.DeclareSort("Rules")
NO_RULES = z3.Const("no_rules", RulesSort)
_VEV = {}


def VEV(rules, word):
    n = len(word)
    if n == 0:
        return z3.RealVal(1)
    if n not in _VEV:
        _VEV[n] = z3.Function(f"VEV{n}", *([RulesSort] + [AtomSort] * n + [z3.RealSort()]))
    return _VEV[n](rules, *word)


def stamps_of(v):
    if isinstance(v, Struct):
        return v.f.get("stamps", frozenset())
    return frozenset()


def new_stamp(vc, label, closed=True):
    """closed: the quantity is complete (all its generic indices are
    contracted inside it): it must never meet itself in a product.  open: raw
    index lists / objects built from them, which are meant to share indices."""
    n = vc.ghost.get("_stamp", 0) + 1
    vc.ghost["_stamp"] = n
    return frozenset([(label, n, closed)])


def mk_nc(terms, stamps=frozenset()):
    return Struct("NC", terms=list(terms), stamps=frozenset(stamps))


def atom_nc(atom, stamps=frozenset()):
    return mk_nc([(z3.RealVal(1), (atom,))], stamps)


def _sym_stamps(st):
    return [x for x in st if isinstance(x[0], str) and x[0].startswith("sym:")]


def hygiene(ip, a, b):
    sa, sb = stamps_of(a), stamps_of(b)
    plain_a = frozenset(x for x in sa if x not in _sym_stamps(sa))
    plain_b = frozenset(x for x in sb if x not in _sym_stamps(sb))
    if any(st[2] for st in plain_a & plain_b):
        ip.vc.check("index-hygiene#factors-of-a-product-share-contracted-indices", False)
    # objects identified by a symbolic key (label, (tag, z3 term)): the two
    # factors must provably be different objects
    for la, (ta, ka), _ca in _sym_stamps(sa):
        for lb, (tb, kb), _cb in _sym_stamps(sb):
            if la == lb and ta == tb:
                ip.vc.check("index-hygiene#cached-object-never-meets-itself-in-a-product", ka != kb)
    return sa | sb


def to_nc(v):
    if isinstance(v, Struct) and v.cls == "NC":
        return v
    e = as_expr(v)
    return mk_nc([(e.f["val"], ())], stamps_of(e))


def nc_arith(ip, opn, a, b):
    if opn == "neg":
        return mk_nc([(-c, w) for c, w in a.f["terms"]], stamps_of(a))
    if opn == "Div":
        if isinstance(b, Struct) and b.cls == "NC":
            raise Unsupported("division by an operator valued quantity")
        d = as_expr(b).f["val"]
        st = hygiene(ip, a, b)
        return mk_nc([(c / d, w) for c, w in to_nc(a).f["terms"]], st)
    A, B = to_nc(a), to_nc(b)
    if opn == "Mult":
        st = hygiene(ip, a, b)
        out = []
        for c1, w1 in A.f["terms"]:
            for c2, w2 in B.f["terms"]:
                out.append((c1 * c2, w1 + w2))
        return mk_nc(out, st)
    if opn in ("Add", "Sub"):
        sgn = 1 if opn == "Add" else -1
        return mk_nc(A.f["terms"] + [(sgn * c, w) for c, w in B.f["terms"]],
                     stamps_of(a) | stamps_of(b))
    raise Unsupported(f"operator {opn} on operator valued quantities")


C.STRUCT_ARITH["NC"] = nc_arith
C.STRUCT_METHODS[("NC", "expand")] = lambda ip, o, a, k: o


def nc_vev(nc, rules):
    t = z3.RealVal(0)
    for c, w in nc.f["terms"]:
        t = t + c * VEV(rules, w)
    return t


# --- scalar expressions with stamps -----------------------------------------------
_base_arith = C.STRUCT_ARITH["Expr"]


def expr_arith_stamped(ip, opn, a, b):
    if (isinstance(a, Struct) and a.cls == "NCV") or (isinstance(b, Struct) and b.cls == "NCV"):
        return ncv_arith(ip, opn, a, b)
    if (isinstance(a, Struct) and a.cls == "NC") or (isinstance(b, Struct) and b.cls == "NC"):
        return nc_arith(ip, opn, a, b)
    r = _base_arith(ip, opn, a, b)
    if opn == "neg":
        r.f["stamps"] = stamps_of(a)
    elif opn in ("Mult", "Div"):
        r.f["stamps"] = hygiene(ip, a, b)
    else:
        r.f["stamps"] = stamps_of(a) | stamps_of(b)
    return r


C.STRUCT_ARITH["Expr"] = expr_arith_stamped


def _expr_expand(ip, o, a, k):
    return o


C.STRUCT_METHODS[("Expr", "expand")] = _expr_expand


# --- Expr container (adcgen.expr_container:Expr) on scalars -------------------------
def model_ExprContainer(ip, args, kwargs):
    v = args[0]
    if isinstance(v, Struct) and v.cls == "ExprC":
        v = v.f["e"]
    return Struct("ExprC", e=as_expr(v), assumptions=dict(kwargs))


def exprc_attr_sympy(ip, o):
    return o.f["e"]


def exprc_substitute_with_generic(ip, o, a, k):
    """value preserving renaming of the contracted indices by names never
    handed out before (C08): the result shares contracted indices with nothing"""
    e = o.f["e"]
    new = mk_expr(e.f["val"], e.f["zero"])
    new.f["stamps"] = new_stamp(ip.vc, "generic") if stamps_of(e) else frozenset()
    return Struct("ExprC", e=new, assumptions=o.f["assumptions"])


C.CLASS_MODELS["adcgen.expr_container:Expr"] = model_ExprContainer
C.STRUCT_ATTR[("ExprC", "sympy")] = exprc_attr_sympy
C.STRUCT_METHODS[("ExprC", "substitute_with_generic")] = exprc_substitute_with_generic
C.STRUCT_METHODS[("ExprC", "expand")] = lambda ip, o, a, k: o


def model_simplify(ip, args, kwargs):
    """assumed contract of adcgen.simplify:simplify (C07): same value, same
    contracted index stamps (it only renames inside terms)"""
    o = args[0]
    if not (isinstance(o, Struct) and o.cls == "ExprC"):
        from pyvc.vc import RaiseEx
        raise RaiseEx("Inputerror", "simplify needs an Expr")
    return o


def model_wicks(ip, args, kwargs):
    """assumed contract of adcgen.func:wicks (C01): linear, value = vacuum
    expectation value; delta evaluation does not change the value; rules
    select tensor blocks (part of the VEV symbol)."""
    e = args[0]
    rules = kwargs.get("rules", args[1] if len(args) > 1 else None)
    rt = NO_RULES if rules is None else rules.f["t"]
    if isinstance(e, Struct) and e.cls == "NC":
        r = mk_expr(nc_vev(e, rt), False)
        z = ip.vc.fresh_bool("wzero")
        ip.vc.assume(z3.Implies(z, r.f["val"] == 0))
        r.f["zero"] = Sym(z)
        r.f["stamps"] = stamps_of(e)
        return r
    e = as_expr(e)
    if rules is None:
        return e
    raise Unsupported("wicks with rules on an operator free expression")


def sum_spec_unfold(vc, fn, args, k, summand):
    """definitional unfolding of a prefix sum  fn(args, k+1) = fn(args, k) +
    summand  and fn(args, 0) = 0, guarded by k >= 0"""
    k = term(k)
    vc.assume(fn(*args, z3.IntVal(0)) == 0)
    vc.assume(z3.Implies(k >= 0, fn(*args, k + 1) == fn(*args, k) + summand))


# --- accumulated formal sums of single-atom words, abstracted by their value
#     under an arbitrary linear functional WORDVAL (equality for all
#     functionals = equality of the formal sums) --------------------------------
WORDVAL = z3.Function("WORDVAL", AtomSort, z3.RealSort())


_WORDVALN = {}


def word_value(word):
    """value of a word under an arbitrary linear functional on the free
    algebra, normalised to 1 on the empty word (scalars)"""
    n = len(word)
    if n == 0:
        return z3.RealVal(1)
    if n == 1:
        return WORDVAL(word[0])
    if n not in _WORDVALN:
        _WORDVALN[n] = z3.Function(f"WORDVAL{n}", *([AtomSort] * n + [z3.RealSort()]))
    return _WORDVALN[n](*word)


def nc_linear_value(nc):
    t = z3.RealVal(0)
    for c, w in nc.f["terms"]:
        t = t + c * word_value(w)
    return t


def ncv_value(v):
    if isinstance(v, Struct) and v.cls == "NCV":
        return v.f["val"]
    if isinstance(v, Struct) and v.cls == "NC":
        return nc_linear_value(v)
    if isinstance(v, int) and v == 0:
        return z3.RealVal(0)
    return as_expr(v).f["val"]


def ncv_arith(ip, opn, a, b):
    if opn == "neg":
        return Struct("NCV", val=-ncv_value(a), stamps=stamps_of(a))
    if opn in ("Mult", "Div"):
        # scalar multiple of an accumulated operator sum
        ncv, other = (a, b) if isinstance(a, Struct) and a.cls == "NCV" else (b, a)
        if (isinstance(other, Struct) and other.cls in ("NC", "NCV")) or (opn == "Div" and ncv is b):
            raise Unsupported("product of operator valued quantities with an accumulated sum")
        c = as_expr(other).f["val"]
        st = hygiene(ip, a, b)
        return Struct("NCV", val=ncv.f["val"] * c if opn == "Mult" else ncv.f["val"] / c, stamps=st)
    if opn in ("Add", "Sub"):
        va, vb = ncv_value(a), ncv_value(b)
        st = stamps_of(a) | stamps_of(b)
        return Struct("NCV", val=va + vb if opn == "Add" else va - vb, stamps=st)
    raise Unsupported("operator on an accumulated operator sum")


C.STRUCT_ARITH["NCV"] = ncv_arith
C.STRUCT_METHODS[("NCV", "expand")] = lambda ip, o, a, k: o
