"""C20 - unitary-tensor simplification.  Contract on the nested function
adcgen.simplify:simplify_unitary.simplify_term_unitary (side conditions of
sum_p U_pq U_pr = delta_qr and the exponent bookkeeping) and on
simplify_unitary's delta evaluation call."""
import itertools
import z3
from pyvc import contract as C
from pyvc.contract import Contract, LoopContract, register
from pyvc.values import (Struct, Sym, PList, PDict, FuncRef, term, wrap, zand, zor, znot,
                         zeq, Unsupported)
from pyvc.vc import RaiseEx
from spec.idx import IdxSort
from spec import termmodel as T

ASSUMPTIONS = [
    "orthogonality lemma (math): sum_p U_pq U_pr G = delta_qr G for a matrix U that is orthogonal on the space of p, when p is summed and occurs on no other factor (G free of p); likewise for the second position",
    "abstract view of Term/Obj (kernel K0): Term.objects / Obj.idx / Obj.exponent / Obj.base_and_exponent / Term.target, and Counter(term.idx)[x] = sum over objects of |exponent| * occurrences of x (Term._idx_counter semantics)",
    "sympy Pow(b, 0) = 1, Pow(b, 1) = b; multiplying an Expr by factors builds their product (a single term for tensor factors; sums as remainder: bounded)",
    "the proof enumerates term shapes (1-2 unitary objects with exponents 1-2 or 3 with exponent 1, 0-1 remainder object of rank 2); index identities, target set and tensor values are symbolic",
]
TRUSTED = ["orthogonality lemma (math)"]
KEY = "adcgen.simplify:simplify_unitary.simplify_term_unitary"


def model_delta(ip, args, kwargs):
    return Struct("DeltaV", args=(args[0], args[1]))


def model_expr(ip, args, kwargs):
    return Struct("ProdV", factors=[("first", args[0])], assumptions=dict(kwargs))


def prod_inplace(ip, opn, cur, rhs):
    if opn != "Mult":
        raise Unsupported("operator on the product under construction")
    cur.f["factors"].append(("factor", rhs))
    return True, cur


def model_pow(ip, args, kwargs):
    return Struct("PowV", base=args[0], exp=args[1])


C.STRUCT_INPLACE["ProdV"] = prod_inplace
C.STRUCT_ATTR[("ProdV", "terms")] = lambda ip, p: (Struct("TermOfProd", prod=p),)
# (remainder objects of the enumerated shapes are tensors: the product is a single term; remainders
#  that are sums - where the product may fall apart into several terms - are covered by the bounded
#  stand-in simplify_unitary.value)
C.STRUCT_LEN["ProdV"] = lambda ip, p: 1


@register
class SimplifyTermUnitary(Contract):
    key = KEY
    props = ["C20"]
    # (exponents of the unitary objects, exponents of the remainder objects, rank)
    SHAPES = []
    for nu in (1, 2):
        for exps in itertools.product((1, 2), repeat=nu):
            for xexps in ((), (1,)):
                SHAPES.append((exps, xexps, 2))
    SHAPES.append(((1, 1, 1), (), 2))
    SHAPES.append(((1, 1, 1), (1,), 2))
    # remainder objects in the denominator / with higher powers (an index on a
    # denominator object is an occurrence of the index as well)
    SHAPES.append(((1, 1), (-1,), 2))
    SHAPES.append(((1, 1), (1, -1), 2))
    SHAPES.append(((1, 1), (2, -2), 2))
    SHAPES.append(((1, 1), (0 + 3,), 2))
    SHAPES.append(((1, 1), (), 3))        # unitary tensor of rank 3: refused
    split_first_choice = len(SHAPES)

    def setup(self, vc):
        exps, xexps, rank = self.SHAPES[vc.choose(len(self.SHAPES), "shape")]
        objs = [T.new_obj(vc, "U", rank, e, pos=n) for n, e in enumerate(exps)]
        objs += [T.new_obj(vc, "X", 2, e, pos=len(exps) + n) for n, e in enumerate(xexps)]
        t = T.new_term(vc, objs)
        return {"term": t, "_rank": rank, "_nunitary": sum(exps)}

    def closure(self, vc, a):
        ip = vc.ip
        C.CLASS_MODELS["adcgen.sympy_objects:KroneckerDelta"] = model_delta
        C.CLASS_MODELS["adcgen.expr_container:Expr"] = model_expr
        C.EXTERNALS["sympy.Pow"] = model_pow
        return {"t_name": "U", "Counter": ip.resolve_global("Counter", _frame_of(ip, "adcgen.simplify")),
                "combinations": C_ext("itertools.combinations"),
                "simplify_term_unitary": FuncRef(KEY)}

    def raises(self, vc, a):
        return [("NotImplementedError", a["_rank"] != 2)]

    def apply(self, vc, a):
        # recursive call on the rewritten term: value preserved (inductive use)
        return Struct("Simplified", of=a["term"])

    def post(self, vc, a, result):
        term_ = a["term"]
        if result is term_:
            return [("unchanged-term-is-returned-as-is", True)]
        if not (isinstance(result, Struct) and result.cls == "Simplified" and
                isinstance(result.f["of"], Struct) and result.f["of"].cls == "TermOfProd"):
            return [("result-is-the-simplification-of-the-rewritten-term", False)]
        prod = result.f["of"].f["prod"]
        return rewrite_obligations(vc, term_, prod)


def C_ext(dotted):
    from pyvc.values import ExtRef
    return ExtRef(dotted)


def _frame_of(ip, module):
    from pyvc.interp import Frame
    return Frame(None, ip.src.modules[module])


def rewrite_obligations(vc, term_, prod):
    """the new product must be: delta(q, r) * U1^(e1-1) * U2^(e2-1) * every
    other object once, where U1, U2 carry the common index p in the same
    position, p is no target index and occurs exactly twice in the term"""
    objs = term_.f["objs"]
    tt = term_.f["target"].f["mem"]
    factors = prod.f["factors"]
    out = []
    if not factors or factors[0][0] != "first" or not (
            isinstance(factors[0][1], Struct) and factors[0][1].cls == "DeltaV"):
        return [("product-starts-with-the-generated-delta", False)]
    dq, dr = factors[0][1].f["args"]
    lowered = {}        # object position -> new exponent
    kept = []
    for kind, f in factors[1:]:
        if isinstance(f, Struct) and f.cls == "PowV":
            b = f.f["base"]
            if not (isinstance(b, Struct) and b.cls == "BaseV"):
                return [("power-of-a-tensor-of-the-term", False)]
            pos = b.f["uid"][1]
            if pos in lowered:
                return [("each-lowered-tensor-appears-once", False)]
            lowered[pos] = f.f["exp"]
        elif isinstance(f, Struct) and f.cls == "ObjV":
            kept.append(f.f["pos"])
        else:
            return [("factor-is-a-power-or-an-object-of-the-term", False)]
    out.append(("every-other-object-is-kept-exactly-once",
                sorted(kept) == sorted(o.f["pos"] for o in objs if o.f["pos"] not in lowered)))
    if len(lowered) == 1:
        (pos, newexp), = lowered.items()
        o1 = o2 = objs[pos]
        out.append(("same-tensor:exponent-lowered-by-two", zeq(newexp, o1.f["exponent"] - 2)))
    elif len(lowered) == 2:
        (p1, e1), (p2, e2) = sorted(lowered.items())
        o1, o2 = objs[p1], objs[p2]
        out.append(("two-tensors:each-exponent-lowered-by-one",
                    zand(zeq(e1, o1.f["exponent"] - 1), zeq(e2, o2.f["exponent"] - 1))))
    else:
        return out + [("exactly-the-pair-is-lowered", False)]
    out.append(("pair-consists-of-unitary-tensors-of-rank-2",
                o1.f["name"] == "U" and o2.f["name"] == "U" and
                len(o1.f["idx"]) == 2 and len(o2.f["idx"]) == 2))
    if len(o1.f["idx"]) != 2 or len(o2.f["idx"]) != 2:
        return out
    a1, b1 = (s.t for s in o1.f["idx"])
    a2, b2 = (s.t for s in o2.f["idx"])
    cnt = lambda x: T.term_count(objs, x)      # noqa: E731

    def side(p1_, p2_, q, r):
        return z3.And(p1_ == p2_, z3.Not(tt[p1_]), cnt(p1_) == 2,
                      z3.Or(z3.And(dq.t == q, dr.t == r), z3.And(dq.t == r, dr.t == q)),
                      # the delta must not close over a contracted index that
                      # disappears from the term
                      z3.Or(q != r, tt[q], cnt(q) > 2))
    out.append(("side-conditions-of-the-orthogonality-relation",
                z3.Or(side(a1, a2, b1, b2), side(b1, b2, a1, a2))))
    return out


# --- simplify_unitary: term-wise, delta evaluation with the expression's targets ---
TermS = z3.DeclareSort("TermS")
TVAL = z3.Function("term_value", TermS, z3.RealSort())
TSUM = z3.Function("terms_prefix_value", z3.ArraySort(z3.IntSort(), TermS), z3.IntSort(), z3.RealSort())
TARGETS = z3.DeclareSort("TargetSpec")


def acc_inplace(ip, opn, cur, rhs):
    if opn != "Add":
        raise Unsupported("operator on the result accumulator")
    if isinstance(rhs, Struct) and rhs.cls == "Simplified" and isinstance(rhs.f["of"], Sym):
        cur.f["val"] = cur.f["val"] + TVAL(rhs.f["of"].t)
        return True, cur
    raise Unsupported("adding a non simplified term")


C.STRUCT_INPLACE["ExprAcc"] = acc_inplace
C.STRUCT_ATTR[("ExprAcc", "sympy")] = lambda ip, o: Struct("SympyOf", owner=o)
C.STRUCT_ATTR[("ExprAcc", "provided_target_idx")] = lambda ip, o: o.f["targets"]
C.STRUCT_ATTR[("ExprAcc", "assumptions")] = lambda ip, o: PDict(dict(o.f["asm"]))


class TermsLoop(LoopContract):
    def iter_spec(self, vc, frame, seq):
        return [("runs-over-the-terms-of-the-expression", seq.obj is frame["expr"].f["termseq"])]

    def havoc(self, vc, frame, k, seq):
        r = frame["res"]
        frame["res"] = Struct("ExprAcc", val=vc.fresh_real("acc"), targets=r.f["targets"],
                              asm=r.f["asm"])
        frame.locals.pop("term", None)

    def invariant(self, vc, frame, k, seq):
        arr = frame["expr"].f["termseq"].arrs[0]
        kk = term(k)
        vc.assume(TSUM(arr, 0) == 0)
        vc.assume(z3.Implies(kk >= 0, TSUM(arr, kk + 1) == TSUM(arr, kk) + TVAL(arr[kk])))
        r = frame["res"]
        e = frame["expr"]
        return [("result-is-the-sum-of-the-simplified-terms", r.f["val"] == TSUM(arr, kk)),
                ("assumptions-and-targets-of-the-expression-are-kept",
                 r.f["targets"] is e.f["targets"] and r.f["asm"] == e.f["asm"])]


@register
class SimplifyUnitary(Contract):
    key = "adcgen.simplify:simplify_unitary"
    props = ["C20"]
    loops = {0: TermsLoop()}

    def setup(self, vc):
        from pyvc.values import SymSeq
        n = vc.fresh_int("nterms")
        vc.assume(n >= 0)
        terms = SymSeq(Sym(n), [vc.fresh("terms", z3.ArraySort(z3.IntSort(), TermS))],
                       ("sym", TermS), mutable=False)
        tg = Struct("Targets", t=vc.fresh("targets", TARGETS))
        assumptions = {"target_idx": tg, "real": Sym(vc.fresh_bool("real"))}
        expr = Struct("ExprArg", termseq=terms, targets=tg, asm=assumptions)
        C.STRUCT_ATTR[("ExprArg", "terms")] = lambda ip, o: o.f["termseq"]
        C.STRUCT_ATTR[("ExprArg", "assumptions")] = lambda ip, o: PDict(dict(o.f["asm"]))

        def expr_model(ip, args, kwargs):
            if isinstance(args[0], int) and args[0] == 0:
                return Struct("ExprAcc", val=z3.RealVal(0), targets=kwargs.get("target_idx"),
                              asm=dict(kwargs))
            if isinstance(args[0], Struct) and args[0].cls == "DeltasEvaluated":
                src = args[0].f["of"].f["owner"]
                return Struct("ExprAcc", val=src.f["val"], targets=kwargs.get("target_idx"),
                              asm=dict(kwargs), deltas_evaluated_with=args[0].f["targets"])
            raise Unsupported("Expr(...) of this argument")
        C.CLASS_MODELS["adcgen.expr_container:Expr"] = expr_model

        def isinstance_expr(ip, v, cls):
            return True
        C.STRUCT_ISINSTANCE["ExprArg"] = isinstance_expr
        return {"expr": expr, "t_name": "U",
                "evaluate_deltas": Sym(vc.fresh_bool("evaluate_deltas"))}

    def post(self, vc, a, result):
        e = a["expr"]
        arr = e.f["termseq"].arrs[0]
        if not (isinstance(result, Struct) and result.cls == "ExprAcc"):
            return [("returns-an-expression", False)]
        out = [("value-is-the-sum-of-the-simplified-terms",
                result.f["val"] == TSUM(arr, term(e.f["termseq"].len))),
               ("targets-and-assumptions-kept",
                result.f["targets"] is e.f["targets"] and result.f["asm"] == e.f["asm"])]
        ev = term(a["evaluate_deltas"])
        if "deltas_evaluated_with" in result.f:
            out.append(("deltas-are-evaluated-with-the-target-indices-of-the-expression",
                        result.f["deltas_evaluated_with"] is e.f["targets"]))
        else:
            out.append(("deltas-evaluated-iff-requested", z3.Not(ev)))
        return out


@register
class EvaluateDeltasForUnitary(Contract):
    key = "adcgen.func:evaluate_deltas"
    props = []
    assumed = True
    note = "C09 contract: value preserved for the target indices it is given"

    def apply(self, vc, a):
        return Struct("DeltasEvaluated", of=a["expr"], targets=a.get("target_idx"))


_orig_apply = SimplifyTermUnitary.apply


def _apply_any(self, vc, a):
    return Struct("Simplified", of=a["term"])


SimplifyTermUnitary.apply = _apply_any


# --- Term._idx_counter / Term.idx: the index multiset the pair search relies on ------------
# (closes the assumption "Counter(term.idx)[x] = sum |exponent| * occurrences" for the
# enumerated shapes: objects with positive, negative and higher exponents)
TK = "adcgen.expr_container:Term"


class _SortKeyAbstract(Contract):
    """canonical sort key at call sites: any injective key (C06 contract)"""
    key = "adcgen.indices:sort_idx_canonical"
    props = []
    assumed = True
    note = "injective key on registered indices (verified under C06)"

    def apply(self, vc, a):
        rank = z3.Function("canonical_rank", T.IdxSort, z3.IntSort())
        t = a["idx"].t
        seen = vc.ghost.setdefault("_rank_seen", [])
        for o in seen:
            if not z3.eq(o, t):
                vc.assume(z3.Implies(rank(o) == rank(t), o == t))
        if not any(z3.eq(o, t) for o in seen):
            seen.append(t)
        return (Sym(rank(t)),)


if _SortKeyAbstract.key not in C.REGISTRY:
    register(_SortKeyAbstract)


class _IdxBase(Contract):
    props = ["C20"]
    # (exponent, rank) of the objects of the term
    SHAPES = [[(1, 2), (1, 2)], [(2, 2), (-1, 1)], [(1, 2), (-2, 2), (1, 1)], [(3, 1)], [(1, 2), (1, 1), (-1, 1)], []]
    split_first_choice = len(SHAPES)

    def setup(self, vc):
        shape = self.SHAPES[vc.choose(len(self.SHAPES), "shape")]
        objs = [T.new_obj(vc, "X", rank, e, pos=n) for n, (e, rank) in enumerate(shape)]
        return {"self": T.new_term(vc, objs)}

    def symbols(self, a):
        return [s for o in a["self"].f["objs"] for s in o.f["idx"]]


@register
class TermIdxCounter(_IdxBase):
    key = TK + "._idx_counter"

    def post(self, vc, a, result):
        if not isinstance(result, (tuple, PList)):
            return [("returns-a-tuple-of-(index, count - 1)", False)]
        items = list(result) if isinstance(result, tuple) else result.items
        objs = a["self"].f["objs"]
        out = []
        for x in self.symbols(a):
            cnt = z3.IntVal(0)
            hit = z3.IntVal(0)
            for it in items:
                s, n = it
                cnt = cnt + z3.If(term(s) == x.t, term(n) + 1, 0)
                hit = hit + z3.If(term(s) == x.t, 1, 0)
            out.append(("count-is-sum-over-objects-of-|exponent|-times-occurrences",
                        cnt == T.term_count(objs, x.t)))
            out.append(("one-entry-per-index", hit == 1))
        return out or [("empty-term-has-no-indices", len(items) == 0)]


def _idx_counter_attr(ip, o):
    return ip.run_body(TermIdxCounter.key, {"self": o})


@register
class TermIdx(_IdxBase):
    key = TK + ".idx"

    def setup(self, vc):
        C.STRUCT_ATTR[("TermV", "_idx_counter")] = _idx_counter_attr
        return super().setup(vc)

    def post(self, vc, a, result):
        if not isinstance(result, (tuple, PList)):
            return [("returns-a-tuple-of-indices", False)]
        items = list(result) if isinstance(result, tuple) else result.items
        objs = a["self"].f["objs"]
        out = []
        for x in self.symbols(a):
            cnt = z3.IntVal(0)
            for s in items:
                cnt = cnt + z3.If(term(s) == x.t, 1, 0)
            out.append(("every-index-is-listed-|exponent|-times-per-occurrence-also-on-denominators",
                        cnt == T.term_count(objs, x.t)))
        total = z3.IntVal(0)
        for o in objs:
            total = total + abs(o.f["exponent"]) * len(o.f["idx"])
        out.append(("no-other-entries", z3.IntVal(len(items)) == total))
        return out
