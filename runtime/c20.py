"""Executable contract for C20 on the real code: simplify_unitary preserves the
value for an orthogonal tensor (bounded stand-in, replay search)."""
import itertools
import random
from fractions import Fraction

from sympy import Mul, S

from adcgen.indices import get_symbols
from adcgen.sympy_objects import NonSymmetricTensor, AntiSymmetricTensor
from adcgen.expr_container import Expr
from adcgen.simplify import simplify_unitary
from runtime.tensor_model import Model, orbital_space, evaluate, all_assignments

BUDGET_S = {"quick": 60, "thorough": 900}
NAMES = ["p", "q", "r", "s", "t", "u"]
# rational orthogonal 4x4 matrix: two plane rotations, rows/cols permuted
R1 = [[Fraction(3, 5), Fraction(4, 5)], [Fraction(-4, 5), Fraction(3, 5)]]
R2 = [[Fraction(5, 13), Fraction(12, 13)], [Fraction(-12, 13), Fraction(5, 13)]]
ORBS = orbital_space(1, 1)
PERM = [2, 0, 3, 1]
UMAT = [[Fraction(0)] * 4 for _ in range(4)]
for a in range(2):
    for b in range(2):
        UMAT[PERM[a]][b] = R1[a][b]
        UMAT[PERM[2 + a]][2 + b] = R2[a][b]


class UModel(Model):
    def nonsym(self, name, idx):
        if name == "U":
            return UMAT[ORBS.index(idx[0])][ORBS.index(idx[1])]
        return super().nonsym(name, idx)


def cases(tier, seed):
    rng = random.Random(seed)
    yield {"u": [["p", "q"], ["p", "r"]], "x": [["q"], ["r"]], "target": "qr", "deltas": True}
    yield {"u": [["p", "q"], ["p", "r"]], "x": [["q"], ["r"]], "target": "qr", "deltas": False}
    yield {"u": [["p", "q"], ["p", "q"]], "x": [], "target": "", "deltas": False}
    yield {"u": [["p", "q"], ["p", "r"]], "x": [["p", "q", "r"]], "target": "", "deltas": True}
    # the common index also sits on a numerator and on a denominator object
    yield {"u": [["p", "q"], ["p", "r"]], "x": [["p", "s"], ["p"]], "xe": [1, -1], "target": "qrs", "deltas": False}
    yield {"u": [["q", "p"], ["r", "p"]], "x": [["p", "s"], ["p", "s"]], "xe": [1, -1], "target": "qr", "deltas": True}
    yield {"u": [["p", "q"], ["p", "r"]], "x": [["q"], ["r"]], "target": "qr", "deltas": True, "second_term": True}
    # a sum as remainder (unexpanded input): when the generated delta is 1 the product falls apart
    # into several terms
    for deltas in (False, True):
        yield {"u": [["p", "q"], ["p", "q"]], "x": [], "target": "qr", "deltas": deltas, "poly": "r"}
        yield {"u": [["p", "q"], ["p", "q"], ["s", "r"], ["s", "r"]], "x": [], "target": "qr", "deltas": deltas, "poly": "r"}
        yield {"u": [["p", "q"], ["p", "r"]], "x": [], "target": "qr", "deltas": deltas, "poly": "q"}
    for _ in range(150 if tier == "quick" else 3000):
        nu = rng.randint(2, 4)
        us = [rng.sample(NAMES[:5], 2) for _ in range(nu)]
        xs = [rng.sample(NAMES, rng.randint(1, 2)) for _ in range(rng.randint(0, 2))]
        used = sorted({n for t in us + xs for n in t})
        tgt = "".join(rng.sample(used, rng.randint(0, min(3, len(used))))) if rng.random() < 0.7 else None
        case = {"u": us, "x": xs, "target": tgt, "deltas": rng.random() < 0.5}
        case["second_term"] = rng.random() < 0.4
        if tgt and rng.random() < 0.25:
            case["poly"] = tgt[0]
        if xs and rng.random() < 0.4:
            # remainder objects in the denominator / with powers
            case["xe"] = [rng.choice([1, -1, -1, 2]) for _ in xs]
        yield case


def check(case):
    idx = {n: get_symbols(n)[0] for n in NAMES}
    fs = [NonSymmetricTensor("U", (idx[a], idx[b])) for a, b in case["u"]]
    xe = case.get("xe") or [1] * len(case["x"])
    fs += [NonSymmetricTensor(f"X{n}", tuple(idx[k] for k in t)) ** xe[n] for n, t in enumerate(case["x"])]
    term = Mul(*fs)
    if case.get("poly") and case["target"]:
        t_ = idx[case["poly"]]
        term = term * (NonSymmetricTensor("Za", (t_,)) + NonSymmetricTensor("Zb", (t_,)))
    if case["target"] is None:
        e = Expr(term)
        targets = list(e.terms[0].target)
    else:
        targets = [idx[n] for n in dict.fromkeys(case["target"])]
        if case.get("second_term") and targets:
            # a second term over the target indices: the expression is a sum
            term = term + NonSymmetricTensor("Z", tuple(targets))
        if len(str(case)) % 2:
            # targets given by name (a list obtained from an earlier request for the same names was
            # emptied by its owner: requests are independent of each other)
            names = "".join(s.name for s in targets)
            get_symbols(names).clear()
            e = Expr(term, target_idx=names)
            if set(e.provided_target_idx or ()) != set(targets):
                return False, (f"target indices given by the names {names!r} are {e.provided_target_idx} after an "
                               "earlier result of get_symbols for the same names was emptied")
        else:
            e = Expr(term, target_idx=targets)
    res = simplify_unitary(e, "U", evaluate_deltas=case["deltas"])
    if case["deltas"]:
        # delta evaluation is only specified (C09) when every contracted
        # index occurs on at least one non-delta object
        from adcgen.sympy_objects import KroneckerDelta
        plain = simplify_unitary(e, "U", evaluate_deltas=False)
        for t in plain.terms:
            for s_ in t.contracted:
                if not any(s_ in o.idx for o in t.objects
                           if not isinstance(o.base, KroneckerDelta) and o.idx):
                    res = plain
    model = UModel(ORBS, seed=6)
    for asg in all_assignments(targets, model.orbs):
        v0 = evaluate(term, asg, model)
        try:
            v1 = evaluate(res.sympy, asg, model)
        except KeyError as ex:
            return False, f"{term} targets {targets}: result {res} lost the target index {ex}"
        if v0 != v1:
            return False, (f"{term} targets {targets} (evaluate_deltas={case['deltas']}): "
                           f"{res} has value {v1} instead of {v0} at {asg}")
    if case["target"] is not None and res.provided_target_idx != e.provided_target_idx:
        return False, "target indices of the expression changed"
    return True, ""


CHECKS = {
    "simplify_unitary.value": {
        "function": "adcgen.simplify:simplify_unitary.simplify_term_unitary",
        "cases": cases, "check": check,
        "bound": "products of 2-4 unitary tensors (repeats = powers) with <= 2 remainder tensors (exponents 1, 2, -1) over 6 general index names, Einstein or explicit targets, optionally a second term (sum) or an unexpanded sum as remainder factor, evaluate_deltas on/off; rational orthogonal 4x4 matrix, all target assignments",
    },
}
