"""Index registry (adcgen.indices:Indices) - representation invariant and the
operations that hand out indices (C08: names never handed out before, C19: for
every history of earlier requests).

Abstract view of one slot (space, spin) of the registry:
  cache : name -> Index      (self._symbols[space][spin])
  pool  : sequence of names  (self._generic_indices[space][spin])
  counter                    (self._counter[space][spin])
Invariant INV of every slot:
  I1 the pool holds no name twice
  I2 no name of the pool is cached (a cached name has been handed out)
  I3 every name of the pool is a generated name letter+generation with a
     letter of the slot's space and 3 <= generation < counter
  I4 counter >= 3
  I6 a cached Index carries the name it is cached under (and the slot's space
     and spin): one object per (space, spin, name)
Every public operation assumes INV of all slots and re-establishes it; the cache
only grows and existing entries never change (identity stability).
"""
import z3
from pyvc import contract as C
from pyvc.contract import Contract, LoopContract, register
from pyvc.values import (Struct, Sym, SymMap, PList, PDict, Inst, PyFunc, mk_enum, term, wrap, zand, zor,
                         znot, Unsupported)
from pyvc.vc import RaiseEx
from spec.idx import IdxSort

IK = "adcgen.indices:Indices"
SPACES = ["occ", "virt", "general"]
SPINS = ["", "a", "b"]
NameSort = z3.DeclareSort("IndexName")
NAME = z3.Function("generated_name", z3.IntSort(), z3.IntSort(), NameSort)     # (letter, generation)
GEN = z3.Function("generation_of", NameSort, z3.IntSort())
LETTER = z3.Function("letter_of", NameSort, z3.IntSort())
SPACE = z3.Function("space_of_name", NameSort, z3.IntSort())
IDXNAME = z3.Function("name_of_index", IdxSort, NameSort)
IDXSLOT = z3.Function("slot_of_index", IdxSort, z3.IntSort())
NameB = z3.ArraySort(NameSort, z3.BoolSort())
NameI = z3.ArraySort(NameSort, IdxSort)
NameSeq = z3.ArraySort(z3.IntSort(), NameSort)

ASSUMPTIONS = [
    "index names are abstract values; letter + str(counter) is an injective function generated_name(letter, counter) of both arguments (string concatenation of one letter and a decimal number); index_space(name) is a function of the name that maps generated names to the space of their letter (Indices.base, read from the source) - names that index_space rejects are outside the precondition",
    "Indices._new_symbol(name, space, spin) returns an Index that carries that name, space and spin (sympy Dummy construction, not under contract)",
    "the nested dictionaries self._symbols / _generic_indices / _counter have exactly the nine (space, spin) slots __init__ creates",
    "get_lowest_avail_indices: pigeonhole - a list of pairwise different names contains at least len(list) - len(used) names that are not in `used` (paper); the pool is an abstract sequence of whole generations; list(base) / the generation comprehension are executed on the real base string",
    "return values: every symbol appended to the result of get_indices is shown to be the registered one for its name; the grouping of the result dictionary by (space, spin) is not specified (bounded stand-in registry.identity_and_freshness)",
]


def slot_code(space, spin):
    return SPACES.index(space) * 3 + SPINS.index(spin)


def base_letters(ip):
    """Indices.base evaluated from the class statement of the real source"""
    inst = Inst(IK, {})
    base = ip.getattr(inst, "base")
    if not isinstance(base, PDict) or list(base.d.keys()) != SPACES:
        raise Unsupported("Indices.base is not the expected dictionary of the three spaces")
    return {sp: [ord(ch) for ch in base.d[sp]] for sp in SPACES}


def name_axioms(vc):
    letters = base_letters(vc.ip)
    l, g = z3.Ints("l!ax g!ax")
    sp = z3.IntVal(-1)
    for code, space in enumerate(SPACES):
        sp = z3.If(z3.Or(*[l == c for c in letters[space]]), code, sp)
    vc.assume(z3.ForAll([l, g], z3.And(GEN(NAME(l, g)) == g, LETTER(NAME(l, g)) == l, SPACE(NAME(l, g)) == sp),
                        patterns=[NAME(l, g)]))
    return letters


class Slot:
    """abstract view of one slot; mutable python object shared by the three containers"""

    def __init__(self, vc, space, spin, tag):
        self.space, self.spin = space, spin
        self.dom = vc.fresh(f"{tag}_cached_{space}_{spin}", NameB)
        self.val = vc.fresh(f"{tag}_symbol_{space}_{spin}", NameI)
        self.arr = vc.fresh(f"{tag}_pool_{space}_{spin}", NameSeq)
        self.n = vc.fresh_int(f"{tag}_poollen_{space}_{spin}")
        self.counter = vc.fresh_int(f"{tag}_counter_{space}_{spin}")

    def snapshot(self):
        return (self.dom, self.val, self.arr, self.n, self.counter)


def inv_slot(dom, val, arr, n, counter, space, spin, letters):
    a, b = z3.Ints("a!inv b!inv")
    nm = z3.Const("nm!inv", NameSort)
    code = slot_code(space, spin)
    in_base = lambda t: z3.Or(*[t == c for c in letters[space]])     # noqa: E731
    return z3.And(
        n >= 0, counter >= 3,
        z3.ForAll([a, b], z3.Implies(z3.And(0 <= a, a < b, b < n), arr[a] != arr[b])),
        z3.ForAll([a], z3.Implies(z3.And(0 <= a, a < n), z3.And(
            z3.Not(dom[arr[a]]),
            arr[a] == NAME(LETTER(arr[a]), GEN(arr[a])), in_base(LETTER(arr[a])),
            GEN(arr[a]) >= 3, GEN(arr[a]) < counter))),
        z3.ForAll([nm], z3.Implies(dom[nm], z3.And(IDXNAME(val[nm]) == nm, IDXSLOT(val[nm]) == code))))


def inv_parts(s, letters):
    """named conjuncts of INV for one slot (obligation names)"""
    dom, val, arr, n, counter = s.snapshot()
    a, b = z3.Ints("a!inv b!inv")
    nm = z3.Const("nm!inv", NameSort)
    code = slot_code(s.space, s.spin)
    in_base = lambda t: z3.Or(*[t == c for c in letters[s.space]])     # noqa: E731
    tag = f"{s.space}/{s.spin or 'no-spin'}"
    return [
        (f"pool-holds-no-name-twice[{tag}]",
         z3.ForAll([a, b], z3.Implies(z3.And(0 <= a, a < b, b < n), arr[a] != arr[b]))),
        (f"no-name-of-the-pool-has-been-handed-out[{tag}]",
         z3.ForAll([a], z3.Implies(z3.And(0 <= a, a < n), z3.Not(dom[arr[a]])))),
        (f"pool-names-are-generated-names-of-the-slot-below-the-counter[{tag}]",
         z3.And(n >= 0, counter >= 3, z3.ForAll([a], z3.Implies(z3.And(0 <= a, a < n), z3.And(
             arr[a] == NAME(LETTER(arr[a]), GEN(arr[a])), in_base(LETTER(arr[a])),
             GEN(arr[a]) >= 3, GEN(arr[a]) < counter))))),
        (f"one-index-object-per-space-spin-and-name[{tag}]",
         z3.ForAll([nm], z3.Implies(dom[nm], z3.And(IDXNAME(val[nm]) == nm, IDXSLOT(val[nm]) == code)))),
    ]


# --- containers ---------------------------------------------------------------------------------
def _cache_get(ip, o, a, k):
    s = o.f["slot"]
    name = a[0]
    default = a[1] if len(a) > 1 else None
    if ip.vc.decide(z3.Select(s.dom, name.t)):
        return Sym(z3.Select(s.val, name.t), "Index")
    return default


def _cache_store(ip, o, key, v):
    s = o.f["slot"]
    s.dom = z3.Store(s.dom, key.t, True)
    s.val = z3.Store(s.val, key.t, term(v))


def _pool_len(ip, o):
    return Sym(o.f["slot"].n)


def _pool_remove(ip, o, a, k):
    """list.remove(x): removes the first occurrence, ValueError if there is none"""
    s = o.f["slot"]
    x = a[0].t
    vc = ip.vc
    q = z3.Int("q!rm")
    present = z3.Exists([q], z3.And(0 <= q, q < s.n, s.arr[q] == x))
    if not vc.decide(present):
        raise RaiseEx("ValueError", "list.remove(x): x not in list")
    p = vc.fresh_int("position")
    vc.assume(z3.And(0 <= p, p < s.n, s.arr[p] == x,
                     z3.ForAll([q], z3.Implies(z3.And(0 <= q, q < p), s.arr[q] != x))))
    old = s.arr
    kk = z3.Int("k!rm")
    s.arr = z3.Lambda([kk], z3.If(kk < p, old[kk], old[kk + 1]))
    s.n = s.n - 1
    return None


def _pool_extend(ip, o, a, k):
    s = o.f["slot"]
    v = a[0]
    if isinstance(v, Struct) and v.cls == "GuardedList":
        items = v.f["items"]
    elif isinstance(v, (PList, tuple)):
        items = [(True, x) for x in (v.items if isinstance(v, PList) else v)]
    else:
        raise Unsupported("extend of the pool with a non concrete list")
    # list.extend with guarded items: the new list is characterised by its length, its unchanged
    # prefix and the position of every item whose guard holds (equivalent to conditional appends)
    vc = ip.vc
    arr1, n1 = vc.fresh("pool_after_extend", NameSeq), vc.fresh_int("poollen_after_extend")
    q = z3.Int("q!ext")
    pos = s.n
    facts = [z3.ForAll([q], z3.Implies(z3.And(0 <= q, q < s.n), arr1[q] == s.arr[q]))]
    for guard, x in items:
        g = term(guard) if not isinstance(guard, bool) else z3.BoolVal(guard)
        facts.append(z3.Implies(g, arr1[pos] == x.t))
        pos = pos + z3.If(g, 1, 0)
    facts.append(n1 == pos)
    vc.assume(z3.And(*facts))
    s.arr, s.n = arr1, n1
    return None


def _pool_subscript(ip, o, idx):
    s = o.f["slot"]
    if isinstance(idx, tuple) and len(idx) == 4 and idx[0] == "slice":
        _tag, lo, hi, st = idx
        if lo is None and st is None and hi is not None:
            # pool[:n] with 0 <= n <= len(pool) (established by the caller's loop): the first n names
            ip.vc.check("slice#the-pool-holds-at-least-the-requested-number-of-names",
                        z3.And(term(hi) >= 0, term(hi) <= s.n))
            return Struct("NamePrefix", arr=s.arr, n=term(hi), total=s.n, slot=s)
    raise Unsupported("subscript of the pool other than [:n]")


def install(vc):
    vc.use_light_feasibility()   # (quantified invariants of nine slots: see pyvc.vc.VC._feas)
    C.STRUCT_METHODS[("NameCache", "get")] = _cache_get
    C.STRUCT_STORE["NameCache"] = _cache_store
    C.STRUCT_CONTAINS["NameCache"] = lambda ip, o, x: z3.Select(o.f["slot"].dom, x.t)
    C.STRUCT_LEN["NamePool"] = _pool_len
    C.STRUCT_METHODS[("NamePool", "remove")] = _pool_remove
    C.STRUCT_METHODS[("NamePool", "extend")] = _pool_extend
    C.STRUCT_SUBSCRIPT["NamePool"] = _pool_subscript
    # str(counter) and letter + str(counter)
    from pyvc.builtins import b_str

    def str_model(ip, args, kwargs):
        if args and isinstance(args[0], Sym) and z3.is_int(args[0].t):
            return Struct("DecimalOf", n=args[0].t)
        return b_str(ip, args, kwargs)
    vc.ip.builtins = dict(vc.ip.builtins, str=PyFunc(str_model, "str"))

    def concat(ip, opn, a, b):
        if opn == "Add" and isinstance(a, str) and len(a) == 1 and isinstance(b, Struct) and b.cls == "DecimalOf":
            return Sym(NAME(z3.IntVal(ord(a)), b.f["n"]), "IndexName")
        raise Unsupported("arithmetic on str(counter)")
    C.STRUCT_ARITH["DecimalOf"] = concat


def new_registry(vc, tag="r"):
    slots = {(sp, sn): Slot(vc, sp, sn, tag) for sp in SPACES for sn in SPINS}
    reg = Inst(IK, {
        "_symbols": PDict({sp: PDict({sn: Struct("NameCache", slot=slots[sp, sn]) for sn in SPINS}) for sp in SPACES}),
        "_generic_indices": PDict({sp: PDict({sn: Struct("NamePool", slot=slots[sp, sn]) for sn in SPINS})
                                   for sp in SPACES}),
        "_counter": PDict({sp: PDict({sn: Sym(slots[sp, sn].counter) for sn in SPINS}) for sp in SPACES}),
    })
    return reg, slots


def sync_counters(reg, slots):
    """the counters live in a plain nested dict of the instance: read them back into the slots"""
    for (sp, sn), s in slots.items():
        s.counter = term(reg.attrs["_counter"].d[sp].d[sn])


def assume_inv(vc, slots, letters):
    for s in slots.values():
        vc.assume(inv_slot(*s.snapshot(), s.space, s.spin, letters))


# --- _gen_generic_idx ---------------------------------------------------------------------------------
@register
class GenGenericIdx(Contract):
    key = IK + "._gen_generic_idx"
    props = ["C08", "C19"]

    comprehensions = {"idx + counter for idx in self.base[space]": lambda ip, frame, node: ip.guarded_comp(node, frame)}
    # the code uses space and spin only as dictionary keys: three of the nine slots are run
    # through (every space and every spin once)
    SLOTS = [("occ", ""), ("virt", "a"), ("general", "b")]

    def setup(self, vc):
        install(vc)
        letters = name_axioms(vc)
        reg, slots = new_registry(vc)
        space, spin = self.SLOTS[vc.choose(len(self.SLOTS), "slot")]
        # (only this slot is touched - shown below - so only its invariant is needed)
        assume_inv(vc, {(space, spin): slots[space, spin]}, letters)
        vc.ghost["_reg"] = (reg, slots, letters, {k: s.snapshot() for k, s in slots.items()})
        return {"self": reg, "space": space, "spin": spin}

    def post(self, vc, a, result):
        reg, slots, letters, before = vc.ghost["_reg"]
        sync_counters(reg, slots)
        out = []
        me = (a["space"], a["spin"])
        for key, s in slots.items():
            if key == me:
                out += inv_parts(s, letters)
                d0, v0, a0, n0, c0 = before[key]
                q = z3.Int("q!post")
                out += [("the-pool-only-grows-at-its-end",
                         z3.And(s.n >= n0, z3.ForAll([q], z3.Implies(z3.And(0 <= q, q < n0), s.arr[q] == a0[q])))),
                        ("the-cache-is-untouched", z3.And(s.dom == d0, s.val == v0))]
            else:
                d0, v0, a0, n0, c0 = before[key]
                ok = all(x is y or z3.eq(x, y) for x, y in zip(s.snapshot(), before[key]))
                out.append((f"other-slots-are-untouched[{key[0]}/{key[1] or 'no-spin'}]", ok))
        return out


# --- get_indices ------------------------------------------------------------------------------------
def _names_symiter(ip, o):
    from pyvc.builtins import SymIter
    return SymIter("names", o, Sym(o.f["n"]), lambda ip_, k: Sym(z3.Select(o.f["arr"], term(k)), "IndexName"))


def _zip_symiter(ip, o):
    from pyvc.builtins import SymIter
    names, spins = o.f["names"], o.f["spins"]

    def item(ip_, k):
        name = Sym(z3.Select(names.f["arr"], term(k)), "IndexName")
        if spins.cls == "ConstSpins":
            return (name, spins.f["spin"])
        code = z3.Select(spins.f["arr"], term(k))
        ip_.vc.assume(z3.And(code >= 0, code < 3))
        return (name, mk_enum(code, SPINS))
    return SymIter("zip", o, Sym(names.f["n"]), item)


def _zip_model(prev):
    def model(ip, args, kwargs):
        if len(args) == 2 and all(isinstance(x, Struct) for x in args) and \
                args[0].cls in ("NameList", "NamePrefix") and args[1].cls in ("ConstSpins", "SpinList"):
            # equal lengths are established by the function before (Inputerror otherwise)
            ip.vc.check("zip#names-and-spins-have-the-same-length", args[0].f["n"] == args[1].f["n"])
            return Struct("NameSpinPairs", names=args[0], spins=args[1])
        return prev(ip, args, kwargs)
    return model


def install_sequences(vc):
    from pyvc.builtins import BUILTINS
    C.STRUCT_LEN["NameList"] = lambda ip, o: Sym(o.f["n"])
    C.STRUCT_LEN["NamePrefix"] = lambda ip, o: Sym(o.f["n"])
    C.STRUCT_LEN["ConstSpins"] = lambda ip, o: Sym(o.f["n"])
    C.STRUCT_LEN["SpinList"] = lambda ip, o: Sym(o.f["n"])
    C.STRUCT_ISINSTANCE["NameList"] = lambda ip, v, cls: False      # not a str
    C.STRUCT_ISINSTANCE["NamePrefix"] = lambda ip, v, cls: False
    C.STRUCT_SYMITER["NameSpinPairs"] = _zip_symiter
    C.STRUCT_SYMITER["NameList"] = _names_symiter
    C.STRUCT_SYMITER["NamePrefix"] = _names_symiter
    prev = vc.ip.builtins.get("zip", BUILTINS["zip"])
    prev_tuple = vc.ip.builtins.get("tuple", BUILTINS["tuple"])

    def tuple_model(ip, args, kwargs):
        if args and isinstance(args[0], Struct) and args[0].cls == "ConstSpins":
            return args[0]          # tuple(spin for _ in range(n)): n times the same spin
        return prev_tuple.fn(ip, args, kwargs)
    vc.ip.builtins = dict(vc.ip.builtins, zip=PyFunc(_zip_model(prev.fn), "zip"), tuple=PyFunc(tuple_model, "tuple"))
    # the result dictionary {(space, spin): [symbols]}: every appended symbol is the registered one
    C.STRUCT_CONTAINS["ResultDict"] = lambda ip, o, x: ip.vc.fresh_bool("key_known")
    C.STRUCT_STORE["ResultDict"] = lambda ip, o, k, v: None
    C.STRUCT_SUBSCRIPT["ResultDict"] = lambda ip, o, k: Struct("ResultList", key=k)
    # (ret.update(<result of get_indices>): the contents of result dictionaries are not tracked)
    C.STRUCT_ITER["ResultDict"] = lambda ip, o: []

    def append(ip, o, a, k):
        space, spin = o.f["key"]
        space, spin = ip.vc.concretize(space), ip.vc.concretize(spin)
        slots = ip.vc.ghost["_reg"][1]
        s = slots[space, spin]
        name = ip.vc.ghost["_current_name"]
        ip.vc.check("append#the-returned-symbol-is-the-registered-index-of-that-name-in-the-slot-of-its-space-and-spin",
                    z3.And(s.dom[name], s.val[name] == term(a[0])))
        return None
    C.STRUCT_METHODS[("ResultList", "append")] = append


class _IndexSpace(Contract):
    key = "adcgen.indices:index_space"
    props = []
    assumed = True
    note = "space of a name from its first letter (function of the name; generated names: space of their letter)"

    def apply(self, vc, a):
        name = a["idx"]
        code = SPACE(name.t)
        vc.assume(z3.And(code >= 0, code < 3))      # precondition: valid index names
        vc.ghost["_current_name"] = name.t
        return mk_enum(code, SPACES)


class _NewSymbol(Contract):
    key = IK + "._new_symbol"
    props = []
    assumed = True
    note = "creates an Index with the given name, space and spin"

    def apply(self, vc, a):
        from spec.idx import new_index
        s = new_index(vc, "new_symbol")
        space, spin = vc.concretize(a["space"]), vc.concretize(a["spin"])
        vc.assume(z3.And(IDXNAME(s.t) == a["name"].t, IDXSLOT(s.t) == slot_code(space, spin)))
        return s


register(_IndexSpace)
register(_NewSymbol)


def stability(before, slots):
    """the cache only grows, existing entries keep their object"""
    nm = z3.Const("nm!stab", NameSort)
    out = []
    for key, s in slots.items():
        d0, v0 = before[key][0], before[key][1]
        out.append(z3.ForAll([nm], z3.Implies(d0[nm], z3.And(s.dom[nm], s.val[nm] == v0[nm]))))
    return z3.And(*out)


class _GetIndicesLoop(LoopContract):
    header = "zip(indices, spins)"
    modifies = ("idx", "spin", "space", "key", "symbol", "ret", "self")

    def havoc(self, vc, frame, k, seq):
        reg, slots, letters, before = vc.ghost["_reg"]
        for (sp, sn), s in slots.items():
            fresh = Slot(vc, sp, sn, "h")
            s.dom, s.val, s.arr, s.n = fresh.dom, fresh.val, fresh.arr, fresh.n
            # (the counters are not written by this loop)
        frame["ret"] = Struct("ResultDict")
        for nm in ("idx", "spin", "space", "key", "symbol"):
            frame.locals.pop(nm, None)

    def invariant(self, vc, frame, k, seq):
        reg, slots, letters, before = vc.ghost["_reg"]
        if isinstance(frame["ret"], PDict) and not frame["ret"].d:
            frame["ret"] = Struct("ResultDict")
        sync_counters(reg, slots)
        out = []
        for s in slots.values():
            out += inv_parts(s, letters)
        out.append(("the-cache-only-grows-and-keeps-its-objects", stability(before, slots)))
        # every name processed so far is registered in the slot of its space and the spin given for it
        names = vc.ghost["_requested"]
        j = z3.Int("j!done")
        done = []
        for (sp, sn), s in slots.items():
            done.append(z3.Implies(z3.And(SPACE(names["arr"][j]) == SPACES.index(sp), names["spin_at"](j) == SPINS.index(sn)),
                                   s.dom[names["arr"][j]]))
        out.append(("every-name-processed-so-far-is-registered",
                    z3.ForAll([j], z3.Implies(z3.And(0 <= j, j < term(k)), z3.And(*done)))))
        return out


@register
class GetIndices(Contract):
    key = IK + ".get_indices"
    props = ["C08", "C19"]
    loops = {0: _GetIndicesLoop()}
    comprehensions = {"for _ in range(len(indices))":
                      lambda ip, frame, node: Struct("ConstSpins", spin="", n=term(ip.eval(
                          node.generators[0].iter.args[0], frame)))}

    def setup(self, vc):
        install(vc)
        install_sequences(vc)
        letters = name_axioms(vc)
        reg, slots = new_registry(vc)
        assume_inv(vc, slots, letters)
        n = vc.fresh_int("n_names")
        vc.assume(n >= 0)
        names = Struct("NameList", arr=vc.fresh("requested_names", NameSeq), n=n)
        mode = vc.choose(3, "spins")       # None / one spin for all / a list of spins
        if mode == 0:
            spins, spin_at = None, (lambda j: z3.IntVal(0))
        elif mode == 1:
            code = vc.choose(3, "spin")
            spins, spin_at = Struct("ConstSpins", spin=SPINS[code], n=vc.fresh_int("n_spins")), (lambda j: z3.IntVal(code))
        else:
            arr = vc.fresh("requested_spins", z3.ArraySort(z3.IntSort(), z3.IntSort()))
            spins, spin_at = Struct("SpinList", arr=arr, n=vc.fresh_int("n_spins")), (lambda j: arr[j])
        vc.ghost["_reg"] = (reg, slots, letters, {k: s.snapshot() for k, s in slots.items()})
        vc.ghost["_requested"] = {"arr": names.f["arr"], "n": n, "spin_at": spin_at}
        return {"self": reg, "indices": names, "spins": spins}

    def raises(self, vc, a):
        if a["spins"] is None:
            return []
        return [("Inputerror", a["indices"].f["n"] != a["spins"].f["n"])]

    def post(self, vc, a, result):
        reg, slots, letters, before = vc.ghost["_reg"]
        sync_counters(reg, slots)
        out = []
        for s in slots.values():
            out += inv_parts(s, letters)
        out.append(("the-cache-only-grows-and-keeps-its-objects", stability(before, slots)))
        names = vc.ghost["_requested"]
        j = z3.Int("j!post")
        done = []
        for (sp, sn), s in slots.items():
            done.append(z3.Implies(z3.And(SPACE(names["arr"][j]) == SPACES.index(sp), names["spin_at"](j) == SPINS.index(sn)),
                                   s.dom[names["arr"][j]]))
        out.append(("every-requested-name-is-registered-in-the-slot-of-its-space-and-spin",
                    z3.ForAll([j], z3.Implies(z3.And(0 <= j, j < names["n"]), z3.And(*done)))))
        return out


# --- callers' view of get_indices / _gen_generic_idx ----------------------------------------------------
def _havoc_slots(vc, slots, which, tag):
    for key in which:
        s = slots[key]
        fresh = Slot(vc, s.space, s.spin, tag)
        s.dom, s.val, s.arr, s.n = fresh.dom, fresh.val, fresh.arr, fresh.n


def _get_indices_callers_view(self, vc, a):
    """modular use at a call site: precondition (equal lengths), effect on the registry as stated by
    the postcondition of get_indices (proved above), opaque result"""
    reg, slots, letters, _b = vc.ghost["_reg"]
    names, spins = a["indices"], a["spins"]
    if not (isinstance(names, Struct) and names.cls in ("NameList", "NamePrefix")):
        raise Unsupported("get_indices of other than a list of names")
    if spins is not None:
        vc.check("pre@get_indices#as-many-spins-as-names", names.f["n"] == spins.f["n"])
    sync_counters(reg, slots)
    mid = {k: s.snapshot() for k, s in slots.items()}
    _havoc_slots(vc, slots, list(slots), "g")
    assume_inv(vc, slots, letters)
    vc.assume(stability(mid, slots))
    j = z3.Int("j!call")
    if spins is None:
        spin_at = lambda t: z3.IntVal(0)      # noqa: E731
    elif spins.cls == "ConstSpins":
        spin_at = lambda t: z3.IntVal(SPINS.index(spins.f["spin"]))      # noqa: E731
    else:
        spin_at = lambda t: spins.f["arr"][t]      # noqa: E731
    done = []
    for (sp, sn), s in slots.items():
        done.append(z3.Implies(z3.And(SPACE(names.f["arr"][j]) == SPACES.index(sp), spin_at(j) == SPINS.index(sn)),
                               s.dom[names.f["arr"][j]]))
    vc.assume(z3.ForAll([j], z3.Implies(z3.And(0 <= j, j < names.f["n"]), z3.And(*done))))
    vc.ghost.setdefault("_handed_out", []).append((names, mid))
    return Struct("ResultDict")


GetIndices.apply = _get_indices_callers_view


def _gen_callers_view(self, vc, a):
    reg, slots, letters, _b = vc.ghost["_reg"]
    space, spin = vc.concretize(a["space"]), vc.concretize(a.get("spin", ""))
    s = slots[space, spin]
    sync_counters(reg, slots)
    d0, v0, a0, n0, c0 = s.snapshot()
    fresh = Slot(vc, space, spin, "x")
    s.arr, s.n, s.counter = fresh.arr, fresh.n, fresh.counter
    reg.attrs["_counter"].d[space].d[spin] = Sym(s.counter)
    vc.assume(inv_slot(*s.snapshot(), space, spin, letters))
    q = z3.Int("q!gen")
    vc.assume(z3.And(s.n >= n0, z3.ForAll([q], z3.Implies(z3.And(0 <= q, q < n0), s.arr[q] == a0[q]))))
    return None


GenGenericIdx.apply = _gen_callers_view


# --- get_generic_indices ----------------------------------------------------------------------------------
class _FillPoolLoop(LoopContract):
    """while n > len(pool): self._gen_generic_idx(space, spin)"""
    modifies = ("self",)

    def havoc(self, vc, frame, k, seq):
        reg, slots, letters, before = vc.ghost["_reg"]
        space, spin = vc.ghost["_slot"]
        s = slots[space, spin]
        fresh = Slot(vc, space, spin, "w")
        s.arr, s.n, s.counter = fresh.arr, fresh.n, fresh.counter
        reg.attrs["_counter"].d[space].d[spin] = Sym(s.counter)

    def invariant(self, vc, frame, k, seq):
        reg, slots, letters, before = vc.ghost["_reg"]
        sync_counters(reg, slots)
        space, spin = vc.ghost["_slot"]
        s = slots[space, spin]
        out = inv_parts(s, letters)
        d0, v0 = before[space, spin][0], before[space, spin][1]
        out.append(("the-cache-is-untouched-while-the-pool-is-filled", z3.And(s.dom == d0, s.val == v0)))
        for key, o in slots.items():
            if key != (space, spin):
                ok = all(x is y or z3.eq(x, y) for x, y in zip(o.snapshot(), before[key]))
                out.append((f"other-slots-are-untouched[{key[0]}/{key[1] or 'no-spin'}]", ok))
        return out


@register
class GetGenericIndices(Contract):
    key = IK + ".get_generic_indices"
    props = ["C08", "C19"]
    loops = {1: _FillPoolLoop()}
    comprehensions = {"spin for _ in range(n)":
                      lambda ip, frame, node: Struct("ConstSpins", spin=ip.vc.concretize(frame["spin"]),
                                                     n=term(frame["n"]))}
    REQUESTS = [("occ", ""), ("virt", "a"), ("general", "b")]

    def setup(self, vc):
        install(vc)
        install_sequences(vc)
        letters = name_axioms(vc)
        reg, slots = new_registry(vc)
        assume_inv(vc, slots, letters)
        space, spin = self.REQUESTS[vc.choose(len(self.REQUESTS), "request")]
        n = vc.fresh_int("n_requested")
        vc.assume(n >= 0)
        vc.ghost["_reg"] = (reg, slots, letters, {k: s.snapshot() for k, s in slots.items()})
        vc.ghost["_slot"] = (space, spin)
        vc.ghost["_n"] = n
        key = space + ("_" + spin if spin else "")
        return {"self": reg, "kwargs": PDict({key: Sym(n)})}

    def post(self, vc, a, result):
        reg, slots, letters, before = vc.ghost["_reg"]
        sync_counters(reg, slots)
        space, spin = vc.ghost["_slot"]
        n = vc.ghost["_n"]
        out = []
        for s in slots.values():
            out += inv_parts(s, letters)
        out.append(("the-cache-only-grows-and-keeps-its-objects", stability(before, slots)))
        calls = vc.ghost.get("_handed_out", [])
        if not calls:
            return out + [("nothing-is-handed-out-only-if-nothing-was-requested", n == 0)]
        names, mid = calls[-1]
        d0 = before[space, spin][0]
        s = slots[space, spin]
        i, j = z3.Ints("i!fresh j!fresh")
        arr = names.f["arr"]
        out += [("exactly-one-request-to-the-registry", len(calls) == 1),
                ("as-many-names-as-requested", names.f["n"] == n),
                ("the-names-have-never-been-handed-out-before",
                 z3.ForAll([i], z3.Implies(z3.And(0 <= i, i < n), z3.Not(d0[arr[i]])))),
                ("the-names-are-pairwise-different",
                 z3.ForAll([i, j], z3.Implies(z3.And(0 <= i, i < j, j < n), arr[i] != arr[j]))),
                ("they-are-registered-in-the-requested-slot-afterwards",
                 z3.ForAll([i], z3.Implies(z3.And(0 <= i, i < n), s.dom[arr[i]])))]
        return out


# --- get_lowest_avail_indices ---------------------------------------------------------------------------
# The pool is the canonical sequence  base, base+"1", base+"2", ...  (names in the order the
# documentation promises) cut after whole generations; it is long enough to hold n names that are not
# in `used` (pigeonhole: its names are pairwise different, so at most len(used) of them are excluded),
# and the result is the first n names of the pool that are not in `used`.
LK = "adcgen.indices:get_lowest_avail_indices"


def _canon_install(vc):
    from pyvc.builtins import BUILTINS
    C.STRUCT_LEN["CanonPool"] = lambda ip, o: Sym(o.f["width"] * o.f["gens"])
    C.STRUCT_LEN["UsedNames"] = lambda ip, o: Sym(o.f["n"])

    def extend(ip, o, a, k):
        v = a[0]
        items = v.f["items"] if isinstance(v, Struct) and v.cls == "GuardedList" else None
        letters = o.f["letters"]
        ok = items is not None and len(items) == len(letters) and all(g is True for g, _x in items)
        suffix = ip.vc.ghost.get("_suffix_term")
        same = ok and all(isinstance(x, Sym) and z3.eq(z3.simplify(x.t), z3.simplify(NAME(z3.IntVal(l), suffix)))
                          for (_g, x), l in zip(items, letters))
        ip.vc.check("extend#the-next-generation-is-every-base-letter-in-order-with-the-suffix-appended", same)
        ip.vc.check("extend#generations-are-appended-in-order-1-2-3", o.f["gens"] == suffix)
        o.f["gens"] = o.f["gens"] + 1
        return None
    C.STRUCT_METHODS[("CanonPool", "extend")] = extend

    def str_model(ip, args, kwargs):
        from pyvc.builtins import b_str
        if args and isinstance(args[0], Sym) and z3.is_int(args[0].t):
            ip.vc.ghost["_suffix_term"] = args[0].t
            return Struct("DecimalOf", n=args[0].t)
        return b_str(ip, args, kwargs)
    vc.ip.builtins = dict(vc.ip.builtins, str=PyFunc(str_model, "str"))

    def concat(ip, opn, a, b):
        if opn == "Add" and isinstance(a, str) and len(a) == 1 and isinstance(b, Struct) and b.cls == "DecimalOf":
            return Sym(NAME(z3.IntVal(ord(a)), b.f["n"]), "IndexName")
        raise Unsupported("arithmetic on str(counter)")
    C.STRUCT_ARITH["DecimalOf"] = concat

    def slice_(ip, o, idx):
        if isinstance(idx, tuple) and len(idx) == 4 and idx[0] == "slice" and idx[1] is None and idx[3] is None:
            return Struct("FirstOf", src=o, n=idx[2])
        raise Unsupported("subscript of the filtered pool other than [:n]")
    C.STRUCT_SUBSCRIPT["FilteredPool"] = slice_


class _PoolLoop(LoopContract):
    """while len(idx) < required: idx.extend(s + str(suffix) for s in base); suffix += 1"""
    modifies = ("idx", "suffix")

    def havoc(self, vc, frame, k, seq):
        letters = vc.ghost["_letters"]
        g = vc.fresh_int("generations")
        frame["idx"] = Struct("CanonPool", letters=letters, width=len(letters), gens=g)
        frame["suffix"] = Sym(g)

    def invariant(self, vc, frame, k, seq):
        letters = vc.ghost["_letters"]
        idx = frame["idx"]
        if isinstance(idx, PList):
            # list(base): generation 0, the base letters themselves
            ok = [x for x in idx.items] == [chr(l) for l in letters]
            frame["idx"] = idx = Struct("CanonPool", letters=letters, width=len(letters), gens=z3.IntVal(1))
            first = [("the-pool-starts-with-the-base-letters-in-order", ok)]
        else:
            first = []
        return first + [("the-pool-consists-of-whole-generations-and-suffix-is-the-next-one",
                         z3.And(idx.f["gens"] >= 1, term(frame["suffix"]) == idx.f["gens"]))]


@register
class GetLowestAvailIndices(Contract):
    key = LK
    props = ["C08"]
    loops = {0: _PoolLoop()}
    comprehensions = {"s + str(suffix) for s in base": lambda ip, frame, node: ip.guarded_comp(node, frame),
                      "s for s in idx if s not in used":
                      lambda ip, frame, node: Struct("FilteredPool", src=frame["idx"], excl=frame["used"])}

    def setup(self, vc):
        install(vc)
        _canon_install(vc)
        space = SPACES[vc.choose(3, "space")]
        letters = base_letters(vc.ip)[space]
        vc.ghost["_letters"] = letters
        n, m = vc.fresh_int("n"), vc.fresh_int("n_used")
        vc.assume(z3.And(n >= 0, m >= 0))
        used = Struct("UsedNames", n=m)
        vc.ghost["_args"] = (n, m, used)
        return {"n": Sym(n), "used": used, "space": space}

    def post(self, vc, a, result):
        n, m, used = vc.ghost["_args"]
        ok = isinstance(result, Struct) and result.cls == "FirstOf" and isinstance(result.f["src"], Struct) \
            and result.f["src"].cls == "FilteredPool"
        if not ok:
            return [("the-first-n-names-of-the-pool-that-are-not-in-use", False)]
        flt = result.f["src"]
        pool = flt.f["src"]
        okp = isinstance(pool, Struct) and pool.cls == "CanonPool"
        return [("the-first-n-names-of-the-pool-that-are-not-in-use",
                 z3.And(term(result.f["n"]) == n, z3.BoolVal(flt.f["excl"] is used), z3.BoolVal(okp))),
                ("the-pool-holds-at-least-n-plus-len(used)-names-so-that-n-unused-ones-exist",
                 (pool.f["width"] * pool.f["gens"] >= n + m) if okp else False)]
