"""Runs the property checks against the independently written, property-breaking
changes kept under /verif/seeded/<name>/ (patch.diff + demonstration + meta.json).

    python3-vt -m selftest.seeded [name-filter ...]

Every patch is applied to a scratch git worktree of /repo (outside /repo and
/verif, removed afterwards); the quick check of the property has to exit 1.
The outcome is stored in meta.json ("detected_by")."""
import json
import os
import shutil
import subprocess
import sys
import tempfile
from concurrent.futures import ThreadPoolExecutor

ROOT = os.path.dirname(os.path.dirname(os.path.abspath(__file__)))
SEEDED = os.path.join(ROOT, "seeded")
REPO = os.environ.get("PYVC_REPO", "/repo")


def run_one(name):
    d = os.path.join(SEEDED, name)
    meta = json.load(open(os.path.join(d, "meta.json")))
    prop = meta["property"]
    tmp = tempfile.mkdtemp(prefix="pyvc_seeded_")
    tree = os.path.join(tmp, "wt")
    try:
        subprocess.run(["git", "-C", REPO, "worktree", "add", "-q", "--detach", tree, "HEAD"], check=True)
        ap = subprocess.run(["git", "-C", tree, "apply", os.path.join(d, "patch.diff")],
                            capture_output=True, text=True)
        if ap.returncode != 0:
            return name, prop, None, ["patch does not apply: " + ap.stderr[-300:]]
        env = dict(os.environ, PYVC_REPO=tree)
        rc = subprocess.run(["python3-vt", "-m", "pyvc.check", prop, "--no-evidence"], cwd=ROOT, env=env,
                            capture_output=True, text=True, timeout=3000)
        lines = rc.stdout.splitlines()
        hits = []
        for ln in lines:
            if ln.startswith("# refuted obligation"):
                hits.append("static: " + ln.split("/", 1)[1])
            elif ln.startswith("# bounded/runtime contract"):
                hits.append("bounded: " + ln.split()[3])
        hits = list(dict.fromkeys(hits))
        if not os.environ.get("SEEDED_NO_WRITE"):     # (runs with another VERIF_SEED keep the record)
            meta["detected_by"] = hits
            meta["check_exit_on_changed_tree"] = rc.returncode
            json.dump(meta, open(os.path.join(d, "meta.json"), "w"), indent=1)
        return name, prop, rc.returncode, hits
    finally:
        subprocess.run(["git", "-C", REPO, "worktree", "remove", "--force", tree], capture_output=True)
        shutil.rmtree(tmp, ignore_errors=True)


def main():
    names = sorted(n for n in os.listdir(SEEDED) if os.path.exists(os.path.join(SEEDED, n, "meta.json")))
    flt = sys.argv[1:]
    if flt:
        names = [n for n in names if any(f in n for f in flt)]
    bad = 0
    with ThreadPoolExecutor(max_workers=4) as ex:
        for name, prop, rc, hits in ex.map(run_one, names):
            ok = rc == 1
            bad += not ok
            print(f"{'caught' if ok else 'MISSED'} {name} ({prop}) exit={rc} {hits[:3]}", flush=True)
    print(f"{len(names) - bad}/{len(names)} seeded changes detected")
    return 1 if bad else 0


if __name__ == "__main__":
    sys.exit(main())
