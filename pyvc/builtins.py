"""Models of Python builtins, operators and container methods."""
import ast
import z3

from .values import (
    KDict,
    is_enum, mk_enum, enum_map, enum_eq, enum_less,
    Sym, Struct, PList, PDict, PSet, Inst, SymSeq, SymSet, SymMap, FuncRef,
    ClassRef, ExtRef, BoundMethod, LambdaVal, PyFunc, Unsupported, term, wrap,
    zand, zor, znot, zeq, zite,
)
from .vc import RaiseEx, PathEnd
from . import contract as C


# ---------------------------------------------------------------------------
# arithmetic
# ---------------------------------------------------------------------------

def str_concat(a, b):
    if isinstance(a, str) and isinstance(b, str):
        return a + b
    if a == "":
        return b
    if b == "":
        return a
    return Sym(z3.Concat(term(a), term(b)))


def _num(v):
    return isinstance(v, (int, float)) and not isinstance(v, bool) or \
        isinstance(v, bool)


def arith(ip, opn, a, b):
    # Struct operands (abstract sympy objects): delegated to their model
    for s in (a, b):
        if isinstance(s, Struct):
            m = C.STRUCT_ARITH.get(s.cls)
            if m is None:
                raise Unsupported(f"arithmetic on {s.cls}")
            return m(ip, opn, a, b)
    for s_ in (a, b):
        if isinstance(s_, Sym) and s_.schema and getattr(C.SCHEMAS[s_.schema], "arith", None):
            return C.SCHEMAS[s_.schema].arith(ip, opn, a, b)
    if is_enum(a):
        a = ip.vc.concretize(a)
    if is_enum(b):
        b = ip.vc.concretize(b)
    if opn == "neg":
        if isinstance(a, (int, float)):
            return -a
        return wrap(-term(a))
    if opn == "Mod" and isinstance(a, str):
        # "...%s..." % args (only %s conversions): concatenation of the parts
        args = list(b) if isinstance(b, tuple) else (list(b.items) if isinstance(b, PList) else [b])
        pieces = a.split("%s")
        if "%" in a.replace("%s", "").replace("%%", "") or len(pieces) != len(args) + 1:
            raise Unsupported("string formatting other than %s")
        out = pieces[0].replace("%%", "%")
        for arg, lit in zip(args, pieces[1:]):
            out = str_concat(out, ip.to_str(arg))
            out = str_concat(out, lit.replace("%%", "%"))
        return out
    # concrete
    if not isinstance(a, Sym) and not isinstance(b, Sym):
        if isinstance(a, (tuple, PList, SymSeq)) or isinstance(b, (tuple, PList, SymSeq)):
            return seq_arith(ip, opn, a, b)
        if isinstance(a, PDict) and isinstance(b, PDict) and opn == "BitOr":
            d = PDict(a.d)
            d.d.update(b.d)
            return d
        if isinstance(a, PSet) and isinstance(b, PSet):
            def member(x, other):
                return ip.vc.decide(zor(*[ip.values_eq(x, y) for y in other.items]))
            if opn == "BitOr":
                out = PSet(a.items)
                for y in b.items:
                    if not member(y, out):
                        out.items.append(y)
                return out
            if opn == "BitAnd":
                return PSet([x for x in a.items if member(x, b)])
            if opn == "Sub":
                return PSet([x for x in a.items if not member(x, b)])
            if opn == "BitXor":
                return PSet([x for x in a.items if not member(x, b)] +
                            [y for y in b.items if not member(y, a)])
        if isinstance(a, (SymSet,)) or isinstance(b, (SymSet,)):
            return set_arith(ip, opn, a, b)
        try:
            if opn == "Add":
                return a + b
            if opn == "Sub":
                return a - b
            if opn == "Mult":
                return a * b
            if opn == "FloorDiv":
                if b == 0:
                    raise RaiseEx("ZeroDivisionError")
                return a // b
            if opn == "Mod":
                if isinstance(a, str):
                    return a % (tuple(b) if isinstance(b, tuple) else b)
                if b == 0:
                    raise RaiseEx("ZeroDivisionError")
                return a % b
            if opn == "Pow":
                return a ** b
            if opn == "Div":
                if b == 0:
                    raise RaiseEx("ZeroDivisionError")
                if isinstance(a, int) and isinstance(b, int):
                    return wrap(z3.RealVal(a) / z3.RealVal(b))
                return a / b
        except TypeError:
            raise RaiseEx("TypeError", f"{opn} on {a!r}, {b!r}")
        raise Unsupported(f"operator {opn}")
    if isinstance(a, (tuple, PList, SymSeq)) or isinstance(b, (tuple, PList, SymSeq)):
        return seq_arith(ip, opn, a, b)
    ta, tb = term(a), term(b)
    if z3.is_string(ta) or z3.is_string(tb):
        if opn == "Add":
            return str_concat(a, b)
        if opn == "Mult":
            raise Unsupported("string repetition with symbolic operand")
        raise Unsupported(f"string operator {opn}")
    if z3.is_bool(ta):
        ta = z3.If(ta, 1, 0)
    if z3.is_bool(tb):
        tb = z3.If(tb, 1, 0)
    if opn == "Add":
        return wrap(ta + tb)
    if opn == "Sub":
        return wrap(ta - tb)
    if opn == "Mult":
        return wrap(ta * tb)
    if opn == "Div":
        if not ip.vc.decide(tb != 0):
            raise RaiseEx("ZeroDivisionError")
        if z3.is_int(ta):
            ta = z3.ToReal(ta)
        if z3.is_int(tb):
            tb = z3.ToReal(tb)
        return wrap(ta / tb)
    if opn in ("Mod", "FloorDiv"):
        # python floor semantics == SMT-LIB div/mod for a positive divisor
        if isinstance(b, int) and b > 0 and z3.is_int(ta):
            return wrap(ta % tb) if opn == "Mod" else wrap(ta / tb)
        if z3.is_int(ta) and z3.is_int(tb):
            if not ip.vc.decide(tb > 0):
                raise Unsupported("floor division by a non-positive symbolic int")
            return wrap(ta % tb) if opn == "Mod" else wrap(ta / tb)
        raise Unsupported("mod / floordiv on reals")
    if opn == "Pow":
        if isinstance(b, int) and b >= 0:
            r = z3.IntVal(1) if z3.is_int(ta) else z3.RealVal(1)
            for _ in range(b):
                r = r * ta
            return wrap(r)
        raise Unsupported("symbolic exponent")
    raise Unsupported(f"operator {opn}")


def inplace(ip, opn, cur, rhs):
    """in-place operators on mutable containers; returns (handled, value)."""
    if isinstance(cur, PList) and opn == "Add":
        cur.items.extend(ip.iterate_concrete(rhs))
        return True, cur
    if isinstance(cur, PSet) and opn == "BitOr":
        for x in ip.iterate_concrete(rhs):
            if x not in cur.items:
                cur.items.append(x)
        return True, cur
    if isinstance(cur, Struct):
        m = C.STRUCT_INPLACE.get(cur.cls)
        if m:
            return m(ip, opn, cur, rhs)
    if isinstance(cur, SymSeq) and cur.mutable and opn == "Add":
        new = seq_arith(ip, "Add", cur, rhs)
        cur.len, cur.arrs = new.len, new.arrs
        return True, cur
    return False, None


def seq_arith(ip, opn, a, b):
    if opn == "Mult":
        if isinstance(a, (tuple, PList)) and isinstance(b, int):
            items = (a if isinstance(a, tuple) else a.items) * b
            return tuple(items) if isinstance(a, tuple) else PList(items)
        raise Unsupported("sequence repetition")
    if opn != "Add":
        raise RaiseEx("TypeError", f"{opn} on sequences")
    if isinstance(a, tuple) and isinstance(b, tuple):
        return a + b
    if isinstance(a, PList) and isinstance(b, PList):
        return PList(a.items + b.items)
    if isinstance(a, SymSeq) or isinstance(b, SymSeq):
        sa, sb = to_symseq(ip, a, like=b), to_symseq(ip, b, like=a)
        la, lb = term(sa.len), term(sb.len)
        k = z3.Int("k!c")
        arrs = [defined_array(ip, ("cat", x.get_id(), y.get_id(), la.get_id()), x.sort(),
                              lambda k, x=x, y=y: z3.If(k < la, x[k], y[k - la]))
                for x, y in zip(sa.arrs, sb.arrs)]
        return SymSeq(wrap(la + lb), arrs, sa.shape)
    raise RaiseEx("TypeError", "concatenation of different sequence types")


def set_arith(ip, opn, a, b):
    raise Unsupported("symbolic set arithmetic (use contract helpers)")


# ---------------------------------------------------------------------------
# symbolic sequences
# ---------------------------------------------------------------------------

def shape_sorts(shape):
    if shape[0] == "sym":
        return [shape[1]]
    out = []
    for s in shape[1]:
        out.extend(shape_sorts(s))
    return out


def flatten(v, shape):
    if shape[0] == "sym":
        return [term(v)]
    items = v if isinstance(v, tuple) else v.items
    out = []
    for it, s in zip(items, shape[1]):
        out.extend(flatten(it, s))
    return out


def unflatten(terms, shape, pos=0):
    if shape[0] == "sym":
        schema = shape[2] if len(shape) > 2 else None
        t = terms[pos]
        v = wrap(t, schema)
        if isinstance(v, Sym):
            v.schema = schema
        return v, pos + 1
    items = []
    for s in shape[1]:
        v, pos = unflatten(terms, s, pos)
        items.append(v)
    return tuple(items), pos


def seq_get(ip, seq, k):
    ts = [z3.simplify(z3.Select(a, term(k))) for a in seq.arrs]
    v, _ = unflatten(ts, seq.shape)
    return v


def to_symseq(ip, v, like=None):
    if isinstance(v, SymSeq):
        return v
    items = v if isinstance(v, tuple) else v.items
    if like is None or not isinstance(like, SymSeq):
        raise Unsupported("cannot infer element shape")
    sorts = shape_sorts(like.shape)
    arrs = [z3.K(z3.IntSort(), ip.vc.fresh("d", s)) for s in sorts]
    for i, it in enumerate(items):
        for j, t in enumerate(flatten(it, like.shape)):
            arrs[j] = z3.Store(arrs[j], i, t)
    return SymSeq(len(items), arrs, like.shape)


USE_LAMBDA = True


def defined_array(ip, key, sort, body):
    """array defined pointwise: either a z3 Lambda or (default) a fresh array
    constant with the quantified definitional axiom  forall k. A[k] = body(k)
    (memoised per path so that equal definitions give the same constant)."""
    k = z3.Int("k!d")
    if USE_LAMBDA:
        return z3.Lambda([k], body(k))
    cache = ip.vc.ghost.setdefault("_defined_arrays", {})
    if key in cache:
        return cache[key]
    arr = ip.vc.fresh("def_" + key[0], sort)
    ip.vc.assume(z3.ForAll([k], arr[k] == body(k), patterns=[arr[k]]))
    cache[key] = arr
    return arr


def seq_slice(ip, seq, lo, hi):
    n = term(seq.len)
    lo_t = z3.IntVal(0) if lo is None else term(lo)
    hi_t = n if hi is None else term(hi)
    # python clamps: negative indices count from the end
    def norm(t):
        t = z3.If(t < 0, t + n, t)
        return z3.If(t < 0, z3.IntVal(0), z3.If(t > n, n, t))
    lo_t, hi_t = norm(lo_t), norm(hi_t)
    length = z3.If(hi_t > lo_t, hi_t - lo_t, z3.IntVal(0))
    lo_s = z3.simplify(lo_t)
    if z3.is_int_value(lo_s) and lo_s.as_long() == 0:
        res = SymSeq(wrap(length), list(seq.arrs), seq.shape)
    else:
        arrs = [defined_array(ip, ("slice", a.get_id(), lo_s.get_id()), a.sort(),
                              lambda k, a=a: a[k + lo_s]) for a in seq.arrs]
        res = SymSeq(wrap(length), arrs, seq.shape)
    # provenance (used by abstract views of index tuples) and index stamps
    res.slice_base = getattr(seq, "slice_base", seq.arrs[0])
    res.slice_lo = z3.simplify(getattr(seq, "slice_lo", z3.IntVal(0)) + lo_s)
    if hasattr(seq, "stamp"):
        res.stamp = seq.stamp
    return res


class SymIter:
    """Uniform view of something iterated by a `for` with a loop contract."""

    def __init__(self, kind, obj, length, item):
        self.kind = kind
        self.obj = obj
        self._length = length
        self._item = item

    def length(self):
        return self._length

    def item(self, ip, k):
        return self._item(ip, k)


def make_symiter(ip, it):
    if isinstance(it, SymSeq):
        if isinstance(it.len, int):
            return None
        return SymIter("seq", it, it.len, lambda ip_, k: seq_get(ip_, it, k))
    if isinstance(it, EnumVal):
        inner = make_symiter(ip, it.inner)
        if inner is None:
            return None
        return SymIter("enumerate", it, inner.length(),
                       lambda ip_, k: (wrap(term(k) + it.start), inner.item(ip_, k)))
    if isinstance(it, ZipVal):
        inners = [make_symiter(ip, x) for x in it.inners]
        if all(x is None for x in inners):
            return None
        raise Unsupported("zip over symbolic sequences")
    if isinstance(it, Struct):
        mk = C.STRUCT_SYMITER.get(it.cls)
        if mk:
            return mk(ip, it)
    if isinstance(it, SymSet):
        # arbitrary duplicate free enumeration of the set (order unknown)
        vc = ip.vc
        n = vc.fresh_int("setlen")
        vc.assume(n >= 0)
        sort = it.arr.sort().domain()
        enum = vc.fresh("enum", z3.ArraySort(z3.IntSort(), sort))
        return SymIter("set", (it, enum), n,
                       lambda ip_, k: Sym(z3.Select(enum, term(k)), it.schema))
    if isinstance(it, SymMap):
        return map_symiter(ip, it, "keys")
    if isinstance(it, Struct) and it.cls == "mapview":
        return map_symiter(ip, it.f["m"], it.f["kind"])
    return None


def map_symiter(ip, m, kind):
    """iteration over a symbolic dict: an arbitrary duplicate free enumeration
    enum[0..n) of its key set, with the ghost prefix sets done[k] =
    {enum[j] | j < k} (done[0] = {}, done[n] = dom)."""
    vc = ip.vc
    n = vc.fresh_int("maplen")
    vc.assume(n >= 0)
    ksort = m.dom.sort().domain()
    enum = vc.fresh("enum", z3.ArraySort(z3.IntSort(), ksort))
    done = vc.fresh("done", z3.ArraySort(z3.IntSort(), z3.ArraySort(ksort, z3.BoolSort())))

    def item(ip_, k):
        key = Sym(z3.Select(enum, term(k)), m.key_schema)
        if kind == "keys":
            return key
        ts = [z3.Select(a, key.t) for a in m.vals]
        val, _ = unflatten(ts, m.shape)
        return val if kind == "values" else (key, val)
    si = SymIter("map" + kind, (m, enum), Sym(n), item)
    si.enum, si.done, si.map = enum, done, m

    def instantiate(vc_, k):
        k = term(k)
        vc_.assume(done[0] == z3.K(ksort, False))
        vc_.assume(done[n] == m.dom)
        vc_.assume(z3.Implies(z3.And(k >= 0, k < n),
                              z3.And(done[k + 1] == z3.Store(done[k], enum[k], True),
                                     z3.Not(done[k][enum[k]]), m.dom[enum[k]])))
    si.instantiate = instantiate
    return si


class EnumVal:
    def __init__(self, inner, start=0):
        self.inner = inner
        self.start = start


class ZipVal:
    def __init__(self, inners):
        self.inners = inners


class CompVal:
    """Comprehension over a symbolic collection, kept unevaluated.  Consumers:
    all(), any() (quantified), contracts (through .forall / .exists)."""

    def __init__(self, node, frame, iterable):
        self.node = node
        self.frame = frame
        self.iterable = iterable

    def __getattr__(self, name):
        # an unevaluated comprehension used as a sequence (len, items, ...):
        # outside the modelled subset -> the function is UNDECIDED
        if name.startswith("__"):
            raise AttributeError(name)
        raise Unsupported("comprehension over a symbolic collection used as a value "
                          f"({ast.unparse(self.node)[:80]})")

    def quantify(self, ip, universal):
        from .interp import Frame
        si = make_symiter(ip, self.iterable)
        if si is None:
            raise Unsupported("comprehension iterable")
        g = self.node.generators[0]
        k = ip.vc.fresh_int("q")
        fr = Frame(self.frame.fkey, self.frame.module, parent=self.frame)
        ip.assign_target(g.target, si.item(ip, k), fr)
        conds = [ip.truth_term(ip.eval(c, fr)) for c in g.ifs]
        body = ip.truth_term(ip.eval(self.node.elt, fr))
        rng = z3.And(k >= 0, k < term(si.length()))
        if universal:
            f = z3.Implies(term(zand(rng, *conds)), term(body))
            return z3.ForAll([k], f)
        return z3.Exists([k], term(zand(rng, body, *conds)))


# ---------------------------------------------------------------------------
# dicts with symbolic keys
# ---------------------------------------------------------------------------

def morph_to_kdict(d):
    """an empty dict literal that receives a symbolic object as key becomes
    a symbolic-key dict (same object: aliases stay valid)"""
    d.__class__ = KDict
    d.pairs = []


def kd_find(ip, d, key):
    """position of key in the KDict or None (decides key equalities)"""
    for n, (k, _v) in enumerate(d.pairs):
        if ip.vc.decide(ip.values_eq(key, k)):
            return n
    return None


def kd_set(ip, d, key, v):
    n = kd_find(ip, d, key)
    if n is None:
        d.pairs.append((key, v))
    else:
        d.pairs[n] = (d.pairs[n][0], v)


def kdict_method(ip, d, name, args, kwargs):
    if name == "items":
        return PList([(k, v) for k, v in d.pairs])
    if name == "keys":
        return PList([k for k, _ in d.pairs])
    if name == "values":
        return PList([v for _, v in d.pairs])
    if name == "get":
        n = kd_find(ip, d, args[0])
        if n is None:
            return args[1] if len(args) > 1 else None
        return d.pairs[n][1]
    if name == "copy":
        return KDict(d.pairs)
    if name == "update":
        other = args[0]
        items = other.pairs if isinstance(other, KDict) else \
            ([(k, v) for k, v in other.d.items()] if isinstance(other, PDict) else ip.iterate_concrete(other))
        for k, v in items:
            kd_set(ip, d, k, v)
        return None
    if name == "pop":
        n = kd_find(ip, d, args[0])
        if n is None:
            if len(args) > 1:
                return args[1]
            raise RaiseEx("KeyError", "pop")
        return d.pairs.pop(n)[1]
    raise Unsupported(f"dict.{name} on a symbolic-key dict")


# ---------------------------------------------------------------------------
# subscripts
# ---------------------------------------------------------------------------

def _norm_index(n, i):
    return i + n if i < 0 else i


def subscript(ip, obj, idx):
    vc = ip.vc
    if is_enum(obj) and isinstance(idx, tuple) and idx and idx[0] == "slice" and \
            all(isinstance(x, (int, type(None))) for x in idx[1:]):
        return enum_map(obj, lambda d: d[slice(idx[1], idx[2], idx[3])])
    if isinstance(idx, tuple) and idx and idx[0] == "slice":
        _, lo, hi, st = idx
        if st is not None:
            if isinstance(obj, (tuple, str)) or isinstance(obj, PList):
                items = obj.items if isinstance(obj, PList) else obj
                if all(isinstance(x, (int, type(None))) for x in (lo, hi, st)):
                    r = items[slice(lo, hi, st)]
                    return PList(r) if isinstance(obj, PList) else r
            raise Unsupported("slice with step")
        if isinstance(obj, (tuple, str, PList)):
            items = obj.items if isinstance(obj, PList) else obj
            if all(isinstance(x, (int, type(None))) for x in (lo, hi)):
                r = items[slice(lo, hi)]
                return PList(r) if isinstance(obj, PList) else r
            if isinstance(obj, str):
                obj = Sym(z3.StringVal(obj))
            else:
                raise Unsupported("symbolic slice of a concrete-shape sequence")
        if isinstance(obj, Sym) and z3.is_string(obj.t):
            n = z3.Length(obj.t)
            lo_t = z3.IntVal(0) if lo is None else term(lo)
            hi_t = n if hi is None else term(hi)
            def norm(t):
                t = z3.If(t < 0, t + n, t)
                return z3.If(t < 0, z3.IntVal(0), z3.If(t > n, n, t))
            lo_t, hi_t = norm(lo_t), norm(hi_t)
            ln = z3.If(hi_t > lo_t, hi_t - lo_t, z3.IntVal(0))
            return wrap(z3.SubString(obj.t, lo_t, ln))
        if isinstance(obj, SymSeq):
            return seq_slice(ip, obj, lo, hi)
        if isinstance(obj, Struct):
            m = C.STRUCT_SUBSCRIPT.get(obj.cls)
            if m:
                return m(ip, obj, idx)
        raise Unsupported(f"slice of {type(obj).__name__}")
    if is_enum(obj):
        if isinstance(idx, int):
            if any(not (-len(d) <= idx < len(d)) for d in obj.enum):
                obj = vc.concretize(obj)
                return subscript(ip, obj, idx)
            return enum_map(obj, lambda d: d[idx])
        if isinstance(idx, tuple) and idx and idx[0] == "slice" and \
                all(isinstance(x, (int, type(None))) for x in idx[1:]):
            return enum_map(obj, lambda d: d[slice(idx[1], idx[2], idx[3])])
        return subscript(ip, vc.concretize(obj), idx)
    if is_enum(idx):
        idx = vc.concretize(idx)
    if isinstance(obj, (tuple, PList, str)):
        items = obj.items if isinstance(obj, PList) else obj
        if isinstance(idx, bool):
            idx = int(idx)
        if isinstance(idx, int):
            try:
                return items[idx]
            except IndexError:
                raise RaiseEx("IndexError", "index out of range")
        if isinstance(idx, Sym) and z3.is_int(idx.t):
            n = len(items)
            if isinstance(obj, str):
                return subscript(ip, Sym(z3.StringVal(obj)), idx)
            if not vc.decide(z3.And(idx.t >= -n, idx.t < n)):
                raise RaiseEx("IndexError", "index out of range")
            # case split on the index value (concrete shape)
            val = vc.concretize(idx.t, list(range(-n, n)))
            return items[val]
        raise RaiseEx("TypeError", "sequence index")
    if isinstance(obj, KDict):
        n = kd_find(ip, obj, idx)
        if n is None:
            raise RaiseEx("KeyError", "symbolic key")
        return obj.pairs[n][1]
    if isinstance(obj, PDict):
        if not isinstance(idx, Sym):
            k = ip.hashable(idx)
            if k in obj.d:
                return obj.d[k]
            raise RaiseEx("KeyError", repr(k))
        for k in obj.d:
            if isinstance(k, (int, str)) and vc.decide(ip.values_eq(idx, k)):
                return obj.d[k]
        raise RaiseEx("KeyError", "symbolic key")
    if isinstance(obj, Sym) and z3.is_string(obj.t):
        n = z3.Length(obj.t)
        i = term(idx)
        if not vc.decide(z3.And(i >= -n, i < n)):
            raise RaiseEx("IndexError", "string index out of range")
        i = z3.If(i < 0, i + n, i)
        return wrap(z3.SubString(obj.t, i, 1))
    if isinstance(obj, SymSeq):
        n = term(obj.len)
        i = term(idx)
        if not vc.decide(z3.And(i >= -n, i < n)):
            raise RaiseEx("IndexError", "index out of range")
        if isinstance(idx, int) and idx >= 0:
            return seq_get(ip, obj, idx)
        if vc.decide(i < 0):
            return seq_get(ip, obj, i + n)
        return seq_get(ip, obj, i)
    if isinstance(obj, SymMap):
        if not vc.decide(z3.Select(obj.dom, term(idx))):
            raise RaiseEx("KeyError", "symbolic key")
        ts = [z3.Select(a, term(idx)) for a in obj.vals]
        v, _ = unflatten(ts, obj.shape)
        return v
    if isinstance(obj, Struct):
        m = C.STRUCT_SUBSCRIPT.get(obj.cls)
        if m:
            return m(ip, obj, idx)
    if isinstance(obj, (ClassRef, ExtRef)):
        return obj      # typing subscripts like list[int]
    raise Unsupported(f"subscript of {type(obj).__name__}")


def store_subscript(ip, obj, idx, v):
    vc = ip.vc
    if isinstance(obj, PList):
        if isinstance(idx, int):
            try:
                obj.items[idx] = v
            except IndexError:
                raise RaiseEx("IndexError", "assignment index out of range")
            return
        n = len(obj.items)
        if not vc.decide(z3.And(term(idx) >= -n, term(idx) < n)):
            raise RaiseEx("IndexError", "assignment index out of range")
        val = vc.concretize(term(idx), list(range(-n, n)))
        obj.items[val] = v
        return
    if isinstance(obj, KDict):
        kd_set(ip, obj, idx, v)
        return
    if isinstance(obj, PDict) and isinstance(idx, Sym) and not obj.d and \
            (idx.schema or not is_enum(idx)):
        morph_to_kdict(obj)
        kd_set(ip, obj, idx, v)
        return
    if isinstance(obj, PDict):
        if isinstance(idx, Sym):
            for k in list(obj.d):
                if isinstance(k, (int, str)) and vc.decide(ip.values_eq(idx, k)):
                    obj.d[k] = v
                    return
            if is_enum(idx):
                obj.d[vc.concretize(idx)] = v
                return
            raise Unsupported("store of a new symbolic key into a concrete-shape dict")
        obj.d[ip.hashable(idx)] = v
        return
    if isinstance(obj, SymMap):
        obj.dom = z3.Store(obj.dom, term(idx), True)
        ts = flatten(v, obj.shape)
        obj.vals = [z3.Store(a, term(idx), t) for a, t in zip(obj.vals, ts)]
        return
    if isinstance(obj, SymSeq) and obj.mutable:
        n = term(obj.len)
        i = term(idx)
        if not vc.decide(z3.And(i >= -n, i < n)):
            raise RaiseEx("IndexError", "assignment index out of range")
        i = z3.If(i < 0, i + n, i)
        ts = flatten(v, obj.shape)
        obj.arrs = [z3.Store(a, i, t) for a, t in zip(obj.arrs, ts)]
        return
    if isinstance(obj, Struct):
        m = C.STRUCT_STORE.get(obj.cls)
        if m:
            return m(ip, obj, idx, v)
    raise Unsupported(f"subscript store on {type(obj).__name__}")


def delete_subscript(ip, obj, idx):
    if isinstance(obj, KDict):
        n = kd_find(ip, obj, idx)
        if n is None:
            raise RaiseEx("KeyError", "del")
        del obj.pairs[n]
        return
    if isinstance(obj, PDict) and not isinstance(idx, Sym):
        k = ip.hashable(idx)
        if k not in obj.d:
            raise RaiseEx("KeyError", repr(k))
        del obj.d[k]
        return
    if isinstance(obj, PList) and isinstance(idx, int):
        try:
            del obj.items[idx]
        except IndexError:
            raise RaiseEx("IndexError", "del")
        return
    if isinstance(obj, SymMap):
        if not ip.vc.decide(z3.Select(obj.dom, term(idx))):
            raise RaiseEx("KeyError", "symbolic key")
        obj.dom = z3.Store(obj.dom, term(idx), False)
        return
    if isinstance(obj, Struct) and (obj.cls, "__delitem__") in C.STRUCT_METHODS:
        C.STRUCT_METHODS[(obj.cls, "__delitem__")](ip, obj, [idx], {})
        return
    raise Unsupported(f"del on {type(obj).__name__}")


# ---------------------------------------------------------------------------
# attributes
# ---------------------------------------------------------------------------

def get_attribute(ip, obj, name):
    vc = ip.vc
    if isinstance(obj, Sym) and obj.schema:
        sch = C.SCHEMAS[obj.schema]
        if sch.invariant is not None:
            seen = vc.ghost.setdefault("_inv_seen", set())
            ikey = (sch.name, obj.t.get_id())
            if ikey not in seen:
                seen.add(ikey)
                vc.assume(sch.invariant(obj.t))
        if name in sch.attrs:
            spec = sch.attrs[name]
            if spec[0] == "enum":
                return mk_enum(spec[1](obj.t), spec[2])
            if spec[0] == "sym":
                return wrap(spec[1](obj.t), spec[2] if len(spec) > 2 else None)
            if spec[0] == "py":
                return spec[1](ip, obj)
        if name in sch.methods:
            return BoundMethod(obj, name)
        raise Unsupported(f"attribute {name} of abstract {obj.schema}")
    if isinstance(obj, Struct):
        if name in obj.f:
            return obj.f[name]
        am = C.STRUCT_ATTR.get((obj.cls, name))
        if am:
            return am(ip, obj)
        return BoundMethod(obj, name)
    if isinstance(obj, Inst):
        if name in obj.attrs:
            return obj.attrs[name]
        if obj.cls in ip.src.classes:
            ca = ip.src.class_attr(obj.cls, name)
            if ca is not None:
                from .interp import Frame
                return ip.eval(ca, Frame(None, ip.src.modules[obj.cls.split(":")[0]]))
            mk = ip.src.find_method(obj.cls, name)
            if mk is not None:
                node = ip.src.get(mk)
                decos = [d.id for d in node.decorator_list if isinstance(d, ast.Name)]
                if "property" in decos or "cached_property" in decos:
                    return ip.call_function(mk, [], {}, self_obj=obj)
                if "staticmethod" in decos:
                    return FuncRef(mk)
                if "classmethod" in decos:
                    return FuncRef(mk, self_obj=ClassRef(obj.cls))
                return FuncRef(mk, self_obj=obj)
        raise RaiseEx("AttributeError", name)
    if isinstance(obj, ClassRef):
        if obj.key in ip.src.classes:
            ca = ip.src.class_attr(obj.key, name)
            if ca is not None:
                from .interp import Frame
                return ip.eval(ca, Frame(None, ip.src.modules[obj.key.split(":")[0]]))
            mk = ip.src.find_method(obj.key, name)
            if mk is not None:
                node = ip.src.get(mk)
                decos = [d.id for d in node.decorator_list if isinstance(d, ast.Name)]
                if "classmethod" in decos:
                    return FuncRef(mk, self_obj=obj)
                return FuncRef(mk)
        am = C.CLASS_ATTR.get((obj.key, name))
        if am is not None:
            return am
        raise Unsupported(f"class attribute {obj.key}.{name}")
    if isinstance(obj, ExtRef):
        if obj.dotted in ip.src.modules:
            return ip._import_value(("adcgen", obj.dotted, name))
        dotted = obj.dotted + "." + name
        if dotted in C.EXTERNALS and not callable(C.EXTERNALS[dotted]):
            return C.EXTERNALS[dotted]
        return ExtRef(dotted)
    if isinstance(obj, (PList, PDict, KDict, PSet, SymSeq, SymSet, SymMap, str, tuple)):
        return BoundMethod(obj, name)
    if isinstance(obj, Sym):
        return BoundMethod(obj, name)
    if obj is None:
        raise RaiseEx("AttributeError", f"None.{name}")
    raise Unsupported(f"attribute {name} of {type(obj).__name__}")


# ---------------------------------------------------------------------------
# methods
# ---------------------------------------------------------------------------

def call_method(ip, obj, name, args, kwargs):
    vc = ip.vc
    if is_enum(obj):
        obj = vc.concretize(obj)
    args = [vc.concretize(x) if is_enum(x) and isinstance(obj, str) else x for x in args]
    if isinstance(obj, PList):
        return plist_method(ip, obj, name, args, kwargs)
    if isinstance(obj, KDict):
        return kdict_method(ip, obj, name, args, kwargs)
    if isinstance(obj, PDict):
        return pdict_method(ip, obj, name, args, kwargs)
    if isinstance(obj, PSet):
        return pset_method(ip, obj, name, args, kwargs)
    if isinstance(obj, str):
        return str_method(ip, obj, name, args, kwargs)
    if isinstance(obj, tuple):
        if name == "index":
            for i, x in enumerate(obj):
                if vc.decide(ip.values_eq(x, args[0])):
                    return i
            raise RaiseEx("ValueError", "tuple.index")
        if name == "count":
            return sum_terms([zite(ip.values_eq(x, args[0]), 1, 0) for x in obj])
    if isinstance(obj, Sym) and obj.schema:
        sch = C.SCHEMAS[obj.schema]
        if name in sch.methods:
            return sch.methods[name](ip, obj, args, kwargs)
    if isinstance(obj, Sym) and z3.is_string(obj.t):
        return symstr_method(ip, obj, name, args, kwargs)
    if isinstance(obj, Struct):
        m = C.STRUCT_METHODS.get((obj.cls, name))
        if m:
            return m(ip, obj, args, kwargs)
        raise Unsupported(f"method {name} of abstract {obj.cls}")
    if isinstance(obj, SymSeq):
        return symseq_method(ip, obj, name, args, kwargs)
    if isinstance(obj, SymSet):
        return symset_method(ip, obj, name, args, kwargs)
    if isinstance(obj, SymMap):
        return symmap_method(ip, obj, name, args, kwargs)
    raise Unsupported(f"method {name} on {type(obj).__name__}")


def sum_terms(ts):
    r = 0
    for t in ts:
        if isinstance(r, int) and isinstance(t, int):
            r = r + t
        else:
            r = term(r) + term(t)
    return wrap(r) if z3.is_expr(r) else r


def plist_method(ip, obj, name, args, kwargs):
    vc = ip.vc
    L = obj.items
    if name == "append":
        L.append(args[0])
        return None
    if name == "extend":
        L.extend(ip.iterate_concrete(args[0]))
        return None
    if name == "insert":
        if not isinstance(args[0], int):
            raise Unsupported("insert at a symbolic position")
        L.insert(args[0], args[1])
        return None
    if name == "pop":
        if not L:
            raise RaiseEx("IndexError", "pop from empty list")
        if args:
            if not isinstance(args[0], int):
                raise Unsupported("pop at a symbolic position")
            try:
                return L.pop(args[0])
            except IndexError:
                raise RaiseEx("IndexError", "pop index")
        return L.pop()
    if name == "reverse":
        L.reverse()
        return None
    if name == "clear":
        del L[:]
        return None
    if name == "copy":
        return PList(L)
    if name == "remove":
        for i, x in enumerate(L):
            if vc.decide(ip.values_eq(x, args[0])):
                del L[i]
                return None
        raise RaiseEx("ValueError", "list.remove(x): x not in list")
    if name == "index":
        for i, x in enumerate(L):
            if vc.decide(ip.values_eq(x, args[0])):
                return i
        raise RaiseEx("ValueError", "list.index")
    if name == "count":
        return sum_terms([zite(ip.values_eq(x, args[0]), 1, 0) for x in L])
    if name == "sort":
        res = BUILTINS["sorted"].fn(ip, [obj], kwargs)
        obj.items = res.items
        return None
    raise Unsupported(f"list.{name}")


def pdict_method(ip, obj, name, args, kwargs):
    vc = ip.vc
    d = obj.d
    if name == "keys":
        return PList(list(d.keys()))
    if name == "values":
        return PList(list(d.values()))
    if name == "items":
        return PList([(k, v) for k, v in d.items()])
    if name == "get":
        default = args[1] if len(args) > 1 else kwargs.get("default")
        k = args[0]
        if isinstance(k, Sym):
            for kk in d:
                if isinstance(kk, (int, str)) and vc.decide(ip.values_eq(k, kk)):
                    return d[kk]
            return default
        try:
            k = ip.hashable(k)
        except Unsupported:
            return default
        return d.get(k, default)
    if name == "copy":
        return PDict(d)
    if name == "update":
        if args and isinstance(args[0], KDict) and not d:
            morph_to_kdict(obj)
            return kdict_method(ip, obj, "update", args, kwargs)
        if args:
            other = args[0]
            if isinstance(other, PDict):
                d.update(other.d)
            else:
                for k, v in ip.iterate_concrete(other):
                    d[ip.hashable(k)] = v
        d.update(kwargs)
        return None
    if name == "pop":
        k = ip.hashable(args[0])
        if k in d:
            return d.pop(k)
        if len(args) > 1:
            return args[1]
        raise RaiseEx("KeyError", repr(k))
    if name == "setdefault":
        k = ip.hashable(args[0])
        if k not in d:
            d[k] = args[1] if len(args) > 1 else None
        return d[k]
    if name == "clear":
        d.clear()
        return None
    raise Unsupported(f"dict.{name}")


def pset_method(ip, obj, name, args, kwargs):
    vc = ip.vc
    L = obj.items

    def has(x):
        return vc.decide(zor(*[ip.values_eq(x, e) for e in L]))
    if name == "add":
        if not has(args[0]):
            L.append(args[0])
        return None
    if name == "update":
        for a in args:
            for x in ip.iterate_concrete(a):
                if not has(x):
                    L.append(x)
        return None
    if name == "copy":
        return PSet(L)
    if name == "pop" and not args:
        # set.pop() removes an arbitrary element: only modelled for at most one element
        if not L:
            raise RaiseEx("KeyError", "pop from an empty set")
        if len(L) == 1:
            return L.pop()
        raise Unsupported("set.pop() of a set with several elements (arbitrary choice)")
    if name in ("remove", "discard"):
        for i, e in enumerate(L):
            if vc.decide(ip.values_eq(args[0], e)):
                del L[i]
                return None
        if name == "remove":
            raise RaiseEx("KeyError", "set.remove")
        return None
    if name == "difference_update":
        for a in args:
            for x in ip.iterate_concrete(a):
                for i, e in enumerate(list(L)):
                    if vc.decide(ip.values_eq(x, e)):
                        L.remove(e)
                        break
        return None
    if name in ("union", "intersection", "difference", "issubset", "isdisjoint"):
        other = ip.iterate_concrete(args[0])
        if any(isinstance(x, Sym) for x in L + other):
            raise Unsupported("set algebra with symbolic elements")
        if name == "union":
            return PSet(L + other)
        if name == "intersection":
            return PSet([x for x in L if x in other])
        if name == "difference":
            return PSet([x for x in L if x not in other])
        if name == "issubset":
            return all(x in other for x in L)
        return not any(x in other for x in L)
    raise Unsupported(f"set.{name}")


def str_method(ip, s, name, args, kwargs):
    if any(isinstance(a, Sym) for a in args):
        return symstr_method(ip, Sym(z3.StringVal(s)), name, args, kwargs)
    if name == "join":
        parts = ip.iterate_concrete(args[0]) if not isinstance(args[0], CompVal) \
            else None
        if parts is None:
            raise Unsupported("join over a symbolic comprehension")
        parts = [ip.vc.concretize(p_) if is_enum(p_) else p_ for p_ in parts]
        res = None
        for p in parts:
            if res is None:
                res = p
            else:
                res = str_concat(str_concat(res, s), p)
        return "" if res is None else res
    if name in ("isdigit", "isnumeric", "startswith", "endswith", "strip",
                "lstrip", "rstrip", "split", "rsplit", "replace", "count",
                "upper", "lower", "isalpha", "find", "index", "capitalize",
                "format", "isupper", "islower"):
        try:
            r = getattr(s, name)(*args, **kwargs)
        except ValueError:
            raise RaiseEx("ValueError", f"str.{name}")
        if isinstance(r, list):
            return PList(r)
        return r
    raise Unsupported(f"str.{name}")


def is_digit_char(c):
    """z3: c is a string of exactly one ASCII digit."""
    return z3.And(z3.Length(c) == 1, z3.StrToCode(c) >= 48, z3.StrToCode(c) <= 57)


def symstr_method(ip, s, name, args, kwargs):
    t = s.t
    if name == "isdigit" or name == "isnumeric":
        # exact on ASCII strings (assumption: index names / LaTeX are ASCII)
        return wrap(z3.InRe(t, z3.Plus(z3.Range("0", "9"))))
    if name == "startswith":
        return wrap(z3.PrefixOf(term(args[0]), t))
    if name == "endswith":
        return wrap(z3.SuffixOf(term(args[0]), t))
    if name == "count" and isinstance(args[0], str) and len(args[0]) == 1:
        raise Unsupported("str.count on a symbolic string")
    raise Unsupported(f"str.{name} on a symbolic string")


def symseq_method(ip, seq, name, args, kwargs):
    if name == "append" and seq.mutable:
        ts = flatten(args[0], seq.shape)
        n = term(seq.len)
        seq.arrs = [z3.Store(a, n, t) for a, t in zip(seq.arrs, ts)]
        seq.len = wrap(n + 1)
        return None
    if name == "copy":
        return SymSeq(seq.len, seq.arrs, seq.shape)
    if name == "extend" and seq.mutable:
        new = seq_arith(ip, "Add", seq, args[0])
        seq.len, seq.arrs = new.len, new.arrs
        return None
    if name == "insert" and seq.mutable and args[0] == 0:
        ts = flatten(args[1], seq.shape)
        k = z3.Int("k!i")
        seq.arrs = [z3.Lambda([k], z3.If(k == 0, t, a[k - 1]))
                    for a, t in zip(seq.arrs, ts)]
        seq.len = wrap(term(seq.len) + 1)
        return None
    raise Unsupported(f"method {name} on a symbolic sequence")


def symset_method(ip, s, name, args, kwargs):
    if name == "add":
        s.arr = z3.Store(s.arr, term(args[0]), True)
        return None
    if name in ("discard",):
        s.arr = z3.Store(s.arr, term(args[0]), False)
        return None
    if name == "copy":
        return SymSet(s.arr, s.schema)
    raise Unsupported(f"method {name} on a symbolic set")


def symmap_method(ip, m, name, args, kwargs):
    if name == "get":
        default = args[1] if len(args) > 1 else None
        if ip.vc.decide(z3.Select(m.dom, term(args[0]))):
            ts = [z3.Select(a, term(args[0])) for a in m.vals]
            v, _ = unflatten(ts, m.shape)
            return v
        return default
    if name == "copy":
        return SymMap(m.dom, m.vals, m.shape, m.key_schema)
    if name in ("items", "keys", "values"):
        return Struct("mapview", m=m, kind=name)
    raise Unsupported(f"method {name} on a symbolic map")


# ---------------------------------------------------------------------------
# builtin functions
# ---------------------------------------------------------------------------

def b_len(ip, args, kwargs):
    v = args[0]
    if is_enum(v):
        v = ip.vc.concretize(v)
    if isinstance(v, (tuple, str)):
        return len(v)
    if isinstance(v, PList):
        return len(v.items)
    if isinstance(v, PDict):
        return len(v.d)
    if isinstance(v, KDict):
        return len(v.pairs)
    if isinstance(v, PSet):
        if any(isinstance(x, Sym) for x in v.items):
            # elements were added only when provably/decidedly distinct
            return len(v.items)
        return len(v.items)
    if isinstance(v, SymSeq):
        return v.len
    if isinstance(v, Sym) and z3.is_string(v.t):
        return wrap(z3.Length(v.t))
    if isinstance(v, Struct):
        m = C.STRUCT_LEN.get(v.cls)
        if m:
            return m(ip, v)
    raise Unsupported(f"len of {type(v).__name__}")


def b_range(ip, args, kwargs):
    if all(isinstance(a, int) for a in args):
        return PList(list(range(*args)))
    if len(args) == 1:
        lo, hi = 0, args[0]
    elif len(args) == 2:
        lo, hi = args
    else:
        raise Unsupported("symbolic range with step")
    lo_t, hi_t = term(lo), term(hi)
    k = z3.Int("k!r")
    length = z3.If(hi_t > lo_t, hi_t - lo_t, z3.IntVal(0))
    return SymSeq(wrap(length), [z3.Lambda([k], k + lo_t)], ("sym", z3.IntSort()),
                  mutable=False)


def b_map(ip, args, kwargs):
    """map(f, it1, ...) over concrete-shape iterables: the list of results"""
    fn = args[0]
    lists = [ip.iterate_concrete(x) for x in args[1:]]
    return PList([ip.call_value(fn, list(items), {}, None) for items in zip(*lists)])


def b_enumerate(ip, args, kwargs):
    start = args[1] if len(args) > 1 else kwargs.get("start", 0)
    v = args[0]
    if make_symiter(ip, v) is None:
        items = ip.iterate_concrete(v)
        return PList([(i + start, x) for i, x in enumerate(items)])
    return EnumVal(v, start)


def b_zip(ip, args, kwargs):
    if all(make_symiter(ip, a) is None for a in args):
        lists = [ip.iterate_concrete(a) for a in args]
        if kwargs.get("strict"):
            if len({len(x) for x in lists}) > 1:
                raise RaiseEx("ValueError", "zip strict")
        return PList(list(zip(*lists)))
    return ZipVal(args)


def class_is_subclass(ip, name_or_key, target):
    """Is class `name_or_key` a subclass of `target` (ClassRef/ExtRef/python)."""
    tname = target.key if isinstance(target, ClassRef) else \
        (target.dotted if isinstance(target, ExtRef) else str(target))
    tshort = tname.split(":")[-1].split(".")[-1]
    if name_or_key == tname or name_or_key.split(":")[-1] == tshort:
        return True
    if name_or_key in ip.src.classes:
        return tshort in ip.src.class_bases(name_or_key)
    sub = C.SUBCLASS
    return tshort in sub.get(name_or_key.split(":")[-1], ())


def b_isinstance(ip, args, kwargs):
    v, cls = args
    if isinstance(cls, tuple):
        return wrap(term(zor(*[_b2t(b_isinstance(ip, [v, c], {})) for c in cls]))) \
            if any(z3.is_expr(_b2t(b_isinstance(ip, [v, c], {}))) for c in cls) \
            else any(b_isinstance(ip, [v, c], {}) for c in cls)
    pyname = None
    if isinstance(cls, PyFunc):
        pyname = cls.name
    if pyname in ("int", "str", "bool", "float", "list", "tuple", "dict", "set"):
        if is_enum(v):
            return pyname == "str"
        if isinstance(v, Sym):
            t = v.t
            if v.schema:
                return False
            return {"int": z3.is_int(t) or z3.is_bool(t), "bool": z3.is_bool(t),
                    "str": z3.is_string(t), "float": z3.is_real(t)}.get(pyname, False)
        pt = {"int": int, "str": str, "bool": bool, "float": float,
              "tuple": tuple}.get(pyname)
        if pt is not None:
            return isinstance(v, pt)
        if pyname == "list":
            return isinstance(v, (PList, SymSeq))
        if pyname == "dict":
            return isinstance(v, (PDict, SymMap))
        if pyname == "set":
            return isinstance(v, (PSet, SymSet))
    if isinstance(v, Sym) and v.schema:
        sch = C.SCHEMAS[v.schema]
        short = (cls.key if isinstance(cls, ClassRef) else cls.dotted).split(":")[-1].split(".")[-1]
        hook = getattr(sch, "isinstance_hook", None)
        if hook is not None:
            r = hook(ip, v, short)
            if r is not None:
                return wrap(r) if z3.is_expr(r) else r
        if "class" in sch.attrs:
            # the concrete class is an enum attribute of the abstract object
            cname = ip.vc.concretize(mk_enum(sch.attrs["class"][1](v.t), sch.attrs["class"][2]))
            return short == cname or short in C.SUBCLASS.get(cname, ())
        return short in sch.classes
    if isinstance(v, Struct):
        m = C.STRUCT_ISINSTANCE.get(v.cls)
        if m:
            return m(ip, v, cls)
        short = (cls.key if isinstance(cls, ClassRef) else getattr(cls, "dotted", "")).split(":")[-1].split(".")[-1]
        return short == v.cls or short in C.SUBCLASS.get(v.cls, ())
    if isinstance(v, Inst):
        return class_is_subclass(ip, v.cls, cls)
    if isinstance(cls, (ClassRef, ExtRef)):
        return False
    raise Unsupported(f"isinstance({v!r}, {cls!r})")


def _b2t(x):
    return x.t if isinstance(x, Sym) else x


def b_all(ip, args, kwargs):
    v = args[0]
    if isinstance(v, CompVal):
        return wrap(v.quantify(ip, True))
    ts = [ip.truth_term(x) for x in ip.iterate_concrete(v)]
    r = zand(*ts)
    return wrap(r) if z3.is_expr(r) else r


def b_any(ip, args, kwargs):
    v = args[0]
    if isinstance(v, CompVal):
        return wrap(v.quantify(ip, False))
    ts = [ip.truth_term(x) for x in ip.iterate_concrete(v)]
    r = zor(*ts)
    return wrap(r) if z3.is_expr(r) else r


def b_sum(ip, args, kwargs):
    items = ip.iterate_concrete(args[0])
    r = args[1] if len(args) > 1 else 0
    for it in items:
        r = arith(ip, "Add", r, it)
    return r


def b_sorted(ip, args, kwargs):
    items = ip.iterate_concrete(args[0])
    key = kwargs.get("key")
    rev = kwargs.get("reverse", False)
    keys = [ip.call_value(key, [x], {}, None) if key is not None else x for x in items]
    # insertion sort with decisions (stable); fine for the short concrete
    # shapes that occur
    order = []
    for i in range(len(items)):
        pos = len(order)
        for j in range(len(order)):
            lt = ip.less(keys[i], keys[order[j]], True) if not rev else \
                ip.less(keys[order[j]], keys[i], True)
            if ip.vc.decide(lt):
                pos = j
                break
        order.insert(pos, i)
    return PList([items[i] for i in order])


def b_min(ip, args, kwargs, want_max=False):
    items = ip.iterate_concrete(args[0]) if len(args) == 1 else list(args)
    key = kwargs.get("key")
    if not items:
        if "default" in kwargs:
            return kwargs["default"]
        raise RaiseEx("ValueError", "min of empty sequence")
    if key is None and len(items) > 1 and \
            all(isinstance(x, int) and not isinstance(x, bool) or (isinstance(x, Sym) and z3.is_int(x.t))
                for x in items) and any(isinstance(x, Sym) for x in items):
        # integers: one if-then-else term instead of a path per comparison (first maximum /
        # minimum wins on ties, as in CPython - indistinguishable for integers)
        best_t = term(items[0])
        for it in items[1:]:
            t = term(it)
            best_t = z3.If(t > best_t, t, best_t) if want_max else z3.If(t < best_t, t, best_t)
        return Sym(best_t)
    best = items[0]
    bk = ip.call_value(key, [best], {}, None) if key else best
    for it in items[1:]:
        k = ip.call_value(key, [it], {}, None) if key else it
        lt = ip.less(bk, k, True) if want_max else ip.less(k, bk, True)
        if ip.vc.decide(lt):
            best, bk = it, k
    return best


def b_list(ip, args, kwargs):
    if not args:
        return PList()
    v = args[0]
    if isinstance(v, SymSeq):
        return SymSeq(v.len, v.arrs, v.shape)
    if isinstance(v, CompVal):
        raise Unsupported("list() of a symbolic comprehension")
    return PList(ip.iterate_concrete(v))


def b_tuple(ip, args, kwargs):
    if not args:
        return ()
    v = args[0]
    if isinstance(v, SymSeq):
        return SymSeq(v.len, v.arrs, v.shape, mutable=False)
    return tuple(ip.iterate_concrete(v))


def b_set(ip, args, kwargs):
    if not args:
        return PSet()
    items = ip.iterate_concrete(args[0])
    out = PSet()
    for x in items:
        pset_method(ip, out, "add", [x], {})
    return out


def b_dict(ip, args, kwargs):
    d = PDict()
    if args:
        if isinstance(args[0], PDict):
            d.d.update(args[0].d)
        else:
            for k, v in ip.iterate_concrete(args[0]):
                d.d[ip.hashable(k)] = v
    d.d.update(kwargs)
    return d


def b_str(ip, args, kwargs):
    if not args:
        return ""
    return ip.to_str(args[0])


def b_int(ip, args, kwargs):
    v = args[0]
    if isinstance(v, Struct) and (v.cls, "__int__") in C.STRUCT_METHODS:
        return C.STRUCT_METHODS[(v.cls, "__int__")](ip, v, [], {})
    if isinstance(v, bool):
        return int(v)
    if isinstance(v, int):
        return v
    if isinstance(v, str):
        try:
            return int(v)
        except ValueError:
            raise RaiseEx("ValueError", "int()")
    if isinstance(v, Sym) and z3.is_string(v.t):
        # int(s) for a non-empty all-digit string; otherwise ValueError
        # (signs/whitespace/underscores: assumption - not used on such input)
        isd = symstr_method(ip, v, "isdigit", [], {})
        if not ip.vc.decide(_b2t(isd)):
            raise RaiseEx("ValueError", "int() of a non digit string")
        return wrap(z3.StrToInt(v.t))
    if isinstance(v, Sym) and z3.is_int(v.t):
        return v
    raise Unsupported(f"int({v!r})")


def b_bool(ip, args, kwargs):
    t = ip.truth_term(args[0]) if args else False
    return wrap(t) if z3.is_expr(t) else t


def b_abs(ip, args, kwargs):
    v = args[0]
    if isinstance(v, (int, float)):
        return abs(v)
    t = term(v)
    return wrap(z3.If(t >= 0, t, -t))


def b_reversed(ip, args, kwargs):
    return PList(list(reversed(ip.iterate_concrete(args[0]))))


def b_print(ip, args, kwargs):
    return None


def b_hash(ip, args, kwargs):
    # CPython's hash of an object is an arbitrary integer per process: a
    # fresh unconstrained integer for every call site evaluation.  (Equal
    # objects hash equal: modelled by an uninterpreted function for Sym.)
    v = args[0]
    if isinstance(v, Struct) and "_hash" in v.f:
        return v.f["_hash"]
    if isinstance(v, Sym):
        f = z3.Function("py_hash_" + str(v.t.sort()), v.t.sort(), z3.IntSort())
        return wrap(f(v.t))
    return wrap(ip.vc.fresh_int("hash"))


def b_type(ip, args, kwargs):
    v = args[0]
    if isinstance(v, Inst):
        return ClassRef(v.cls)
    raise Unsupported("type()")


def b_getattr(ip, args, kwargs):
    if not isinstance(args[1], str):
        raise Unsupported("getattr with symbolic name")
    try:
        return ip.getattr(args[0], args[1])
    except RaiseEx as e:
        if e.exc == "AttributeError" and len(args) > 2:
            return args[2]
        raise


def b_hasattr(ip, args, kwargs):
    try:
        ip.getattr(args[0], args[1])
        return True
    except RaiseEx as e:
        if e.exc == "AttributeError":
            return False
        raise


def b_callable(ip, args, kwargs):
    return isinstance(args[0], (FuncRef, LambdaVal, PyFunc, BoundMethod, ClassRef))


BUILTINS = {
    "len": PyFunc(b_len, "len"),
    "range": PyFunc(b_range, "range"),
    "enumerate": PyFunc(b_enumerate, "enumerate"),
    "map": PyFunc(lambda ip, args, kwargs: b_map(ip, args, kwargs), "map"),
    "zip": PyFunc(b_zip, "zip"),
    "isinstance": PyFunc(b_isinstance, "isinstance"),
    "all": PyFunc(b_all, "all"),
    "any": PyFunc(b_any, "any"),
    "sum": PyFunc(b_sum, "sum"),
    "sorted": PyFunc(b_sorted, "sorted"),
    "min": PyFunc(b_min, "min"),
    "max": PyFunc(lambda ip, a, k: b_min(ip, a, k, want_max=True), "max"),
    "list": PyFunc(b_list, "list"),
    "tuple": PyFunc(b_tuple, "tuple"),
    "set": PyFunc(b_set, "set"),
    "dict": PyFunc(b_dict, "dict"),
    "str": PyFunc(b_str, "str"),
    "int": PyFunc(b_int, "int"),
    "bool": PyFunc(b_bool, "bool"),
    "float": PyFunc(lambda ip, a, k: a[0], "float"),
    "abs": PyFunc(b_abs, "abs"),
    "reversed": PyFunc(b_reversed, "reversed"),
    "print": PyFunc(b_print, "print"),
    "hash": PyFunc(b_hash, "hash"),
    "type": PyFunc(b_type, "type"),
    "getattr": PyFunc(b_getattr, "getattr"),
    "hasattr": PyFunc(b_hasattr, "hasattr"),
    "callable": PyFunc(b_callable, "callable"),
    "None": None, "True": True, "False": False,
}
