"""Runs the executable (run-time) contracts of a property on the real code:
bounded stand-ins and counterexample search for replays.

    python -m runtime.runner C09 --tier quick --seed 0 [--only name]

Output: one line `RUNTIME-JSON {...}`.
"""
import argparse
import importlib
import json
import os
import signal
import sys
import time
import traceback
import warnings

warnings.filterwarnings("ignore")
import logging  # noqa: E402
logging.disable(logging.CRITICAL)


class _CaseTimeout(Exception):
    pass


def _on_alarm(signum, frame):
    raise _CaseTimeout()


def main():
    ap = argparse.ArgumentParser()
    ap.add_argument("prop")
    ap.add_argument("--tier", default="quick")
    ap.add_argument("--seed", type=int, default=0)
    ap.add_argument("--only", default=None)
    ap.add_argument("--max-failures", type=int, default=3)
    args = ap.parse_args()
    out = {"checks": [], "error": None}
    try:
        mod = importlib.import_module(f"runtime.{args.prop.lower()}")
    except Exception:
        out["error"] = "import failed: " + traceback.format_exc()
        print("RUNTIME-JSON " + json.dumps(out))
        return
    budget = getattr(mod, "BUDGET_S", {"quick": 60, "thorough": 600})[args.tier]
    case_limit = getattr(mod, "CASE_TIMEOUT_S", {"quick": 120, "thorough": 600})[args.tier]
    for name, ch in mod.CHECKS.items():
        if args.only and args.only != name:
            continue
        if args.tier == "quick" and ch.get("thorough_only"):
            continue
        t0 = time.time()
        res = {"name": name, "function": ch.get("function"), "cases": 0,
               "failures": [], "failures_n": 0, "bound": ch.get("bound", ""),
               "error": None, "exhausted": True}
        try:
            for case in ch["cases"](args.tier, args.seed):
                if time.time() - t0 > ch.get("budget_s", budget):
                    res["exhausted"] = False
                    break
                res["cases"] += 1
                # per case watchdog: a case whose symbolic processing does not
                # finish in time is skipped (recorded, neither pass nor failure)
                limit = int(ch.get("case_timeout_s", case_limit))
                signal.signal(signal.SIGALRM, _on_alarm)
                signal.alarm(limit)
                try:
                    ok, detail = ch["check"](case)
                except _CaseTimeout:
                    res["timeouts"] = res.get("timeouts", 0) + 1
                    res["exhausted"] = False
                    continue
                except Exception as e:
                    ok, detail = False, "exception: " + repr(e) + " " + \
                        traceback.format_exc(limit=4)
                finally:
                    signal.alarm(0)
                if not ok:
                    res["failures_n"] += 1
                    if len(res["failures"]) < args.max_failures:
                        res["failures"].append({"case": case, "detail": str(detail)[:3000]})
        except Exception:
            res["error"] = traceback.format_exc()
        res["wall_s"] = round(time.time() - t0, 2)
        out["checks"].append(res)
    print("RUNTIME-JSON " + json.dumps(out))


if __name__ == "__main__":
    main()
