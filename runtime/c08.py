"""Executable contracts for C08 on the real code (bounded stand-ins)."""
import itertools
import random

from sympy import S, Mul

from adcgen.indices import (get_symbols, order_substitutions, get_lowest_avail_indices,
                            split_idx_string, Indices, Index, minimize_tensor_indices)
from adcgen.sympy_objects import NonSymmetricTensor, AntiSymmetricTensor
from adcgen.expr_container import Expr
from runtime.tensor_model import Model, orbital_space, evaluate, all_assignments
from runtime.c10 import build_term, random_term, OCC, VIRT

BUDGET_S = {"quick": 90, "thorough": 1200}
NAMES = ["i", "j", "k", "l", "m"]


def os_cases(tier, seed):
    n = 4 if tier == "quick" else 5
    names = NAMES[:n]
    for image in itertools.product([None] + NAMES[:n + 1 if n < 5 else 5], repeat=n):
        yield {"map": {k: v for k, v in zip(names, image) if v is not None}}


def os_check(case):
    idx = {n: get_symbols(n)[0] for n in NAMES}
    m = {idx[k]: idx[v] for k, v in case["map"].items()}
    x = NonSymmetricTensor("X", tuple(idx[n] for n in NAMES))
    subs = order_substitutions(m)
    got = x.subs(subs)
    exp = x.xreplace(m)
    if got != exp:
        return False, f"order_substitutions({m}) = {subs}: X{tuple(NAMES)} -> {got}, simultaneous substitution gives {exp}"
    # no intermediate step merges two indices that the map keeps apart
    cur = {s: s for s in idx.values()}
    for o, n_ in subs:
        cur = {s: (n_ if img is o else img) for s, img in cur.items()}
        for a, b in itertools.combinations(idx.values(), 2):
            if cur[a] is cur[b] and m.get(a, a) is not m.get(b, b):
                return False, f"order_substitutions({m}) = {subs}: step ({o},{n_}) merges {a} and {b}"
    return True, ""


def perm_cases(tier, seed):
    pairs = list(itertools.combinations(NAMES[:4], 2))
    for n in (1, 2, 3):
        for seq in itertools.product(pairs, repeat=n):
            yield {"perms": [list(p) for p in seq]}


def perm_check(case):
    idx = {n: get_symbols(n)[0] for n in NAMES}
    x = NonSymmetricTensor("X", tuple(idx[n] for n in NAMES))
    e = Expr(x)
    perms = [(idx[a], idx[b]) for a, b in case["perms"]]
    got = e.permute(*perms).sympy
    exp = x
    for a, b in perms:
        exp = exp.xreplace({a: b, b: a})
    return got == exp, f"permute{tuple(case['perms'])}: {got}, one transposition after another: {exp}"


def lowest_cases(tier, seed):
    rng = random.Random(seed)
    base = {"occ": "ijklmno", "virt": "abcdefgh", "general": "pqrstuvw"}
    for sp, letters in base.items():
        pool = list(letters) + [c + "1" for c in letters] + [c + "2" for c in letters]
        for _ in range(40 if tier == "quick" else 400):
            used = rng.sample(pool, rng.randint(0, 12))
            yield {"n": rng.randint(0, 10), "used": used, "space": sp}


def lowest_check(case):
    base = {"occ": "ijklmno", "virt": "abcdefgh", "general": "pqrstuvw"}[case["space"]]
    got = get_lowest_avail_indices(case["n"], case["used"], case["space"])
    pool = list(base)
    k = 1
    while len(pool) < len(case["used"]) + case["n"] + len(base):
        pool += [c + str(k) for c in base]
        k += 1
    exp = [s for s in pool if s not in case["used"]][:case["n"]]
    return got == exp, f"get_lowest_avail_indices({case['n']}, {case['used']}, {case['space']}) = {got}, lowest unused names {exp}"


def split_cases(tier, seed):
    rng = random.Random(seed)
    for _ in range(200 if tier == "quick" else 3000):
        parts = [rng.choice("ijabpq") + rng.choice(["", "", "1", "23", "007"]) for _ in range(rng.randint(0, 6))]
        yield {"parts": parts}


def split_check(case):
    s = "".join(case["parts"])
    got = split_idx_string(s)
    return got == case["parts"], f"split_idx_string({s!r}) = {got}, expected {case['parts']}"


def registry_cases(tier, seed):
    rng = random.Random(seed)
    for _ in range(20 if tier == "quick" else 200):
        hist = []
        for _h in range(rng.randint(0, 6)):
            r = rng.random()
            if r < 0.3:
                hist.append(["get", rng.choice("ijab") + str(rng.randint(3, 12)), rng.choice(["", "a", "b"])])
            elif r < 0.45:
                # explicit request for a name of the generation that will be generated next, followed
                # by a generic request that is large enough to generate it
                sp_ = rng.choice(["occ", "virt", "general"])
                sn_ = rng.choice(["", "a"])
                hist.append(["get_future", sp_, sn_, rng.randint(0, 6)])
                hist.append(["generic", sp_, rng.randint(8, 12), sn_])
            elif r < 0.6:
                # explicit request for a name that is waiting in the pool of generated names
                hist.append(["get_pool", rng.choice(["occ", "virt", "general"]), rng.choice(["", "a"]),
                             rng.randint(0, 7)])
            else:
                hist.append(["generic", rng.choice(["occ", "virt", "general"]), rng.randint(1, 9), rng.choice(["", "a"])])
        yield {"history": hist}


def registry_check(case):
    reg = Indices()
    issued = set()
    for h in case["history"]:
        if h[0] == "get_future":
            base = Indices.base[h[1]]
            name = base[h[3] % len(base)] + str(reg._counter[h[1]][h[2]])
            a = get_symbols(name, h[2] or None)[0]
            if (a.name, a.space, a.spin) != (name, h[1], h[2]):
                return False, f"index {a} requested by the name {name} has the wrong name / space / spin"
            continue
        if h[0] == "get_pool":
            pool = reg._generic_indices[h[1]][h[2]]
            if not pool:
                continue
            name = pool[h[3] % len(pool)]
            a = get_symbols(name, h[2] or None)[0]
            if (a.name, a.space, a.spin) != (name, h[1], h[2]):
                return False, f"index {a} requested by the name {name} has the wrong name / space / spin"
            if get_symbols(name, h[2] or None)[0] is not a:
                return False, f"two requests for {name} returned different objects"
            continue
        if h[0] == "get":
            first = get_symbols(h[1], h[2] or None)
            a = first[0]
            first.clear()       # the caller owns the returned list
            again = get_symbols(h[1], h[2] or None)
            if len(again) != 1:
                return False, (f"get_symbols({h[1]!r}) returns {again} after the list returned by an earlier "
                               "request was emptied by its owner")
            b = again[0]
            if a is not b:
                return False, f"two requests for {h[1]}_{h[2]} returned different objects"
            if (a.name, a.space, a.spin) != (h[1], a.space, h[2]):
                return False, f"index {a} has the wrong name/spin"
            issued.add((a.name, a.spin, a.space))
        else:
            key = h[1] + (f"_{h[3]}" if h[3] else "")
            before = {(n, sp, h[1]) for sp in ("", "a", "b") for n in reg._symbols[h[1]][sp]}
            res = reg.get_generic_indices(**{key: h[2]})
            got = res[(h[1], h[3])]
            if len(got) != h[2] or len(set(got)) != h[2]:
                return False, f"get_generic_indices({key}={h[2]}) returned {got}"
            for s in got:
                if (s.name, h[3], h[1]) in before:
                    return False, f"generic index {s} had been handed out before"
                if s.space != h[1] or s.spin != h[3]:
                    return False, f"generic index {s} has wrong space/spin"
    return True, ""


def subst_cases(tier, seed):
    rng = random.Random(seed + 1)
    for _ in range(60 if tier == "quick" else 800):
        names = rng.sample(OCC, 3) + rng.sample(VIRT, 3)
        yield {"term": random_term(rng, names)}


def subst_check(case):
    idx = {n: get_symbols(n)[0] for n in OCC + VIRT}
    sym = build_term(case["term"], idx)
    if sym is S.Zero or sym.is_number:
        return True, "trivial"
    e = Expr(sym, real=True)
    term = e.terms[0]
    targets = list(term.target)
    res = term.substitute_contracted()
    rt = res.terms[0]
    if set(rt.target) != set(targets):
        return False, f"substitute_contracted changed the targets of {term}: {rt.target}"
    # names: lowest available per space (targets excluded), in order
    for space in ("occ", "virt"):
        used = [s.name for s in targets if s.space == space]
        n = len([s for s in rt.contracted if s.space == space])
        exp = set(get_lowest_avail_indices(n, used, space))
        got = {s.name for s in rt.contracted if s.space == space}
        if got != exp:
            return False, f"contracted {space} indices of {rt} are {got}, lowest available {exp}"
    m = Model(orbital_space(1, 1), seed=5, braket={"V": 1, "f": 1, "K": -1})
    for asg in all_assignments(targets, m.orbs, limit=6, rng=random.Random(1)):
        if evaluate(term.sympy, asg, m) != evaluate(res.sympy, asg, m):
            return False, f"substitute_contracted changed the value of {term}: {res}"
    gen = term.substitute_with_generic(return_sympy=False)
    gt = gen.terms[0]
    if set(gt.target) != set(targets) or set(gt.contracted) & set(term.contracted):
        return False, f"substitute_with_generic of {term}: {gen} reuses contracted indices or touches targets"
    for asg in all_assignments(targets, m.orbs, limit=4, rng=random.Random(2)):
        if evaluate(term.sympy, asg, m) != evaluate(gen.sympy, asg, m):
            return False, f"substitute_with_generic changed the value of {term}: {gen}"
    # the target set is redefined after the term has been looked at: the renaming
    # respects the set that is valid when it is done
    rng = random.Random(len(str(case)))
    all_idx = sorted(set(term.idx), key=lambda s_: (s_.space, s_.name))
    for _ in range(3):
        new_targets = rng.sample(all_idx, rng.randint(0, len(all_idx)))
        e2 = Expr(sym, real=True)
        t2 = e2.terms[0]
        if set(t2.contracted) & set(t2.target):
            return False, f"contracted and target indices of {t2} overlap"
        e2.set_target_idx(new_targets)
        for generic in (False, True):
            r2 = t2.substitute_with_generic(return_sympy=False) if generic else t2.substitute_contracted()
            if r2.sympy is S.Zero and t2.sympy is not S.Zero:
                return False, f"renaming of {t2} with targets {new_targets} gives zero"
            rt2 = r2.terms[0]
            if not set(new_targets) >= set(rt2.target) or not set(rt2.idx) >= set(new_targets):
                return False, (f"after set_target_idx({new_targets}) the renamed term {rt2} has lost / renamed "
                               f"a target index (generic={generic})")
            if not generic:
                for space in ("occ", "virt"):
                    used = [s_.name for s_ in new_targets if s_.space == space]
                    cont = {s_.name for s_ in set(rt2.idx) - set(new_targets) if s_.space == space}
                    exp = set(get_lowest_avail_indices(len(cont), used, space))
                    if cont != exp:
                        return False, (f"after set_target_idx({new_targets}): contracted {space} indices of "
                                       f"{rt2} are {cont}, lowest available {exp}")
            for asg in all_assignments(list(new_targets), m.orbs, limit=3, rng=random.Random(4)):
                if evaluate(sym, asg, m) != evaluate(r2.sympy, asg, m):
                    return False, (f"after set_target_idx({new_targets}) the renaming (generic={generic}) changed "
                                   f"the value of {t2}: {r2}")
    return True, ""


def minimize_cases(tier, seed):
    rng = random.Random(seed + 2)
    pool = ["i", "j", "k", "l", "i3", "j7", "a", "b", "c", "a4"]
    for _ in range(100 if tier == "quick" else 1500):
        t = [rng.choice(pool) for _ in range(rng.randint(1, 5))]
        tg = rng.sample(sorted(set(t)), rng.randint(0, min(2, len(set(t)))))
        yield {"tensor": t, "target": tg}


def minimize_check(case):
    syms = {n: get_symbols(n)[0] for n in set(case["tensor"])}
    tensor = tuple(syms[n] for n in case["tensor"])
    target = {}
    for n in case["target"]:
        target.setdefault(syms[n].space_and_spin, []).append(n)
    new, perms = minimize_tensor_indices(tensor, target)
    # applying the permutations in order to the input tuple gives the result
    cur = list(tensor)
    for p, q in perms:
        cur = [q if s is p else (p if s is q else s) for s in cur]
    if tuple(cur) != tuple(new):
        return False, f"minimize_tensor_indices({tensor}, {target}): permutations {perms} give {cur}, returned {new}"
    for old, n_ in zip(tensor, new):
        if old.name in case["target"] and n_ is not old:
            return False, f"target index {old} was renamed to {n_}"
        if old.space_and_spin != n_.space_and_spin:
            return False, f"{old} -> {n_} changes space or spin"
    # non target indices end up on the lowest available names in order of first occurrence
    for key in {s.space_and_spin for s in tensor}:
        firsts = []
        for s in new:
            if s.space_and_spin == key and s.name not in target.get(key, []) and s not in firsts:
                firsts.append(s)
        exp = get_lowest_avail_indices(len(firsts), target.get(key, []), key[0])
        if [s.name for s in firsts] != exp:
            return False, f"non target indices {firsts} are not the lowest available names {exp}"
    if len(set(new)) != len(set(tensor)):
        return False, "distinct indices were merged"
    return True, ""


CHECKS = {
    "order_substitutions.simultaneous": {
        "function": "adcgen.indices:order_substitutions", "cases": os_cases, "check": os_check,
        "bound": "ALL maps on 4 (thorough: 5) index names incl. chains, cycles, many-to-one (exhaustive)"},
    "permute.sequential": {
        "function": "adcgen.expr_container:Container.permute", "cases": perm_cases, "check": perm_check,
        "bound": "ALL sequences of <= 3 transpositions on 4 names (exhaustive)"},
    "get_lowest_avail_indices.spec": {
        "function": "adcgen.indices:get_lowest_avail_indices", "cases": lowest_cases, "check": lowest_check,
        "bound": "n <= 10, <= 12 used names out of three generations of the name pool, all spaces"},
    "split_idx_string.roundtrip": {
        "function": "adcgen.indices:split_idx_string", "cases": split_cases, "check": split_check,
        "bound": "concatenations of <= 6 names (letter + digits incl. leading zeros)"},
    "registry.identity_and_freshness": {
        "function": "adcgen.indices:Indices.get_generic_indices", "cases": registry_cases,
        "check": registry_check, "bound": "20 (200) random request histories of <= 6 operations on the process wide registry: explicit names (the returned list is emptied by its owner), names waiting in the pool, names of the next generation followed by a large generic request, generic requests of 1-12 indices"},
    "substitute_contracted.spec": {
        "function": "adcgen.expr_container:Term.substitute_contracted", "cases": subst_cases,
        "check": subst_check, "bound": "random terms of <= 3 objects: targets untouched, lowest names, value; substitute_with_generic: fresh names, value"},
    "minimize_tensor_indices.spec": {
        "function": "adcgen.indices:minimize_tensor_indices", "cases": minimize_cases,
        "check": minimize_check, "bound": "index tuples of length <= 5 over 10 names (repeats, numbered), <= 2 target names"},
}
