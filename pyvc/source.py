"""Function table built from the working tree of the repository (re-read on
every run; nothing is cached between runs)."""
import ast
import hashlib
import os


def repo_root():
    return os.environ.get("PYVC_REPO", "/repo")


class ModuleInfo:
    def __init__(self, name, path, tree, src):
        self.name = name
        self.path = path
        self.tree = tree
        self.src = src
        self.imports = {}      # local name -> ("adcgen", module, attr) | ("ext", dotted)
        self.functions = {}    # name -> FunctionDef (module level)
        self.classes = {}      # name -> ClassDef
        self.assigns = {}      # name -> ast expr (module level constants)


class SourceTable:
    def __init__(self, root=None, package="adcgen"):
        self.root = root or repo_root()
        self.package = package
        self.modules = {}
        self.functions = {}   # "adcgen.func:_contraction" / "adcgen.x:Cls.meth" / nested "f.g"
        self.func_module = {}
        self.func_parent = {}  # nested function -> key of the enclosing function
        self.func_class = {}   # method key -> class key
        self.classes = {}     # "adcgen.indices:Indices" -> ClassDef
        self._load()

    # -- loading ----------------------------------------------------------
    def _load(self):
        pkgdir = os.path.join(self.root, self.package)
        for dirpath, _dirs, files in sorted(os.walk(pkgdir)):
            for fn in sorted(files):
                if not fn.endswith(".py"):
                    continue
                path = os.path.join(dirpath, fn)
                rel = os.path.relpath(path, self.root)[:-3].replace(os.sep, ".")
                if rel.endswith(".__init__"):
                    rel = rel[: -len(".__init__")]
                with open(path) as f:
                    src = f.read()
                tree = ast.parse(src, filename=path)
                mi = ModuleInfo(rel, path, tree, src)
                self.modules[rel] = mi
                self._scan_module(mi)

    def _resolve_rel(self, mi, level, module):
        if level == 0:
            return module
        parts = mi.name.split(".")
        is_pkg = mi.path.endswith("__init__.py")
        base = parts if is_pkg else parts[:-1]
        if level > 1:
            base = base[: len(base) - (level - 1)]
        return ".".join(base + ([module] if module else []))

    def _scan_imports(self, mi, body, table):
        for node in body:
            if isinstance(node, ast.ImportFrom):
                mod = self._resolve_rel(mi, node.level, node.module)
                for a in node.names:
                    local = a.asname or a.name
                    if mod.startswith(self.package):
                        table[local] = ("adcgen", mod, a.name)
                    else:
                        table[local] = ("ext", mod + "." + a.name)
            elif isinstance(node, ast.Import):
                for a in node.names:
                    local = a.asname or a.name.split(".")[0]
                    table[local] = ("ext", a.name if a.asname else a.name.split(".")[0])

    def _scan_module(self, mi):
        self._scan_imports(mi, mi.tree.body, mi.imports)
        for node in mi.tree.body:
            if isinstance(node, (ast.FunctionDef,)):
                mi.functions[node.name] = node
                self._add_function(mi, node.name, node, None, None)
            elif isinstance(node, ast.ClassDef):
                mi.classes[node.name] = node
                ckey = f"{mi.name}:{node.name}"
                self.classes[ckey] = node
                for sub in node.body:
                    if isinstance(sub, ast.FunctionDef):
                        self._add_function(mi, f"{node.name}.{sub.name}", sub,
                                           None, ckey)
            elif isinstance(node, ast.Assign) and len(node.targets) == 1 \
                    and isinstance(node.targets[0], ast.Name):
                mi.assigns[node.targets[0].id] = node.value
            elif isinstance(node, ast.AnnAssign) and node.value is not None \
                    and isinstance(node.target, ast.Name):
                mi.assigns[node.target.id] = node.value

    def _add_function(self, mi, qual, node, parent, ckey):
        key = f"{mi.name}:{qual}"
        self.functions[key] = node
        self.func_module[key] = mi
        if parent:
            self.func_parent[key] = parent
        if ckey:
            self.func_class[key] = ckey
        # nested functions
        for sub in ast.walk(node):
            if sub is node:
                continue
        for sub in self._direct_nested(node):
            self._add_function(mi, f"{qual}.{sub.name}", sub, key, ckey)

    @staticmethod
    def _direct_nested(node):
        """FunctionDefs nested directly (not inside another nested def)."""
        out = []

        def walk(n):
            for ch in ast.iter_child_nodes(n):
                if isinstance(ch, ast.FunctionDef):
                    out.append(ch)
                elif isinstance(ch, (ast.ClassDef, ast.Lambda)):
                    continue
                else:
                    walk(ch)
        walk(node)
        return out

    # -- queries ----------------------------------------------------------
    def get(self, key):
        return self.functions.get(key)

    def source_text(self, key):
        node = self.functions[key]
        mi = self.func_module[key]
        return ast.get_source_segment(mi.src, node)

    def sha1(self, key):
        # hash of the AST dump (without docstring): position and comment free
        node = self.functions[key]
        return hashlib.sha1(ast.dump(strip_doc(node)).encode()).hexdigest()

    def class_attr(self, ckey, attr):
        """Class-level assignment `attr = <expr>` in the class body (follows
        adcgen base classes)."""
        seen = set()
        while ckey and ckey not in seen:
            seen.add(ckey)
            node = self.classes.get(ckey)
            if node is None:
                return None
            for sub in node.body:
                if isinstance(sub, ast.Assign) and len(sub.targets) == 1 and \
                        isinstance(sub.targets[0], ast.Name) and \
                        sub.targets[0].id == attr:
                    return sub.value
                if isinstance(sub, ast.AnnAssign) and sub.value is not None \
                        and isinstance(sub.target, ast.Name) \
                        and sub.target.id == attr:
                    return sub.value
            ckey = self._first_adcgen_base(ckey)
        return None

    def _first_adcgen_base(self, ckey):
        node = self.classes[ckey]
        mod = ckey.split(":")[0]
        mi = self.modules[mod]
        for b in node.bases:
            if isinstance(b, ast.Name):
                if b.id in mi.classes:
                    return f"{mod}:{b.id}"
                imp = mi.imports.get(b.id)
                if imp and imp[0] == "adcgen":
                    return f"{imp[1]}:{imp[2]}"
        return None

    def class_bases(self, ckey):
        """All (transitive) base class *names* of an adcgen class, incl.
        external ones (by their local name)."""
        out = []
        todo = [ckey]
        while todo:
            c = todo.pop()
            node = self.classes.get(c)
            if node is None:
                continue
            mod = c.split(":")[0]
            mi = self.modules[mod]
            for b in node.bases:
                if isinstance(b, ast.Name):
                    out.append(b.id)
                    if b.id in mi.classes:
                        todo.append(f"{mod}:{b.id}")
                    else:
                        imp = mi.imports.get(b.id)
                        if imp and imp[0] == "adcgen":
                            todo.append(f"{imp[1]}:{imp[2]}")
        return out

    def find_method(self, ckey, name):
        seen = set()
        while ckey and ckey not in seen:
            seen.add(ckey)
            mod, cname = ckey.split(":")
            k = f"{mod}:{cname}.{name}"
            if k in self.functions:
                return k
            ckey = self._first_adcgen_base(ckey)
        return None


def strip_doc(node):
    """Copy of a FunctionDef without docstring (the extraction drops it)."""
    import copy
    n = copy.deepcopy(node)
    for sub in ast.walk(n):
        if isinstance(sub, (ast.FunctionDef, ast.ClassDef)):
            if sub.body and isinstance(sub.body[0], ast.Expr) and \
                    isinstance(sub.body[0].value, ast.Constant) and \
                    isinstance(sub.body[0].value.value, str):
                sub.body = sub.body[1:] or [ast.Pass()]
            sub.returns = None
        if isinstance(sub, ast.arg):
            sub.annotation = None
    return n
