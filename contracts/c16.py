"""C16 - contraction schemes.  Contracts on
adcgen.generate_code.contraction:Contraction._split_contracted_and_target /
_determine_contracted_and_target / _determine_scaling."""
import z3
from pyvc import contract as C
from pyvc.contract import Contract, LoopContract, register
from pyvc.values import (Struct, Sym, SymSeq, SymMap, PList, PDict, Inst, term, wrap, zand,
                         zor, znot, zeq, Unsupported)
from pyvc.vc import RaiseEx
from spec.idx import IdxSort, idx_space, SPACES, new_index

ASSUMPTIONS = [
    "collections.Counter(iterable) maps every element to its number of occurrences; itertools.chain.from_iterable concatenates (language library semantics)",
    "every Index belongs to exactly one of the three spaces (sum over the spaces of the per-space counts = length)",
    "Obj.longname / Obj.idx / base_and_exponent (inputs of optimize_contractions) are not under contract",
]
TRUSTED = []
CK = "adcgen.generate_code.contraction:Contraction"
CNT = z3.Function("occurrences", z3.DeclareSort("IdxTuples"), IdxSort, z3.IntSort())
TuplesSort = CNT.domain(0)
IdxSet = z3.ArraySort(IdxSort, z3.BoolSort())


# --- models ---------------------------------------------------------------------
def model_chain_from_iterable(ip, args, kwargs):
    v = args[0]
    if isinstance(v, Struct) and v.cls == "IdxTuples":
        return Struct("Chain", src=v)
    raise Unsupported("chain.from_iterable of a concrete collection")


def model_Counter(ip, args, kwargs):
    v = args[0]
    if isinstance(v, Struct) and v.cls == "Chain":
        t = v.f["src"].f["t"]
        x = z3.Const("x!cnt", IdxSort)
        cnt = z3.Lambda([x], CNT(t, x))
        dom = z3.Lambda([x], CNT(t, x) >= 1)
        return SymMap(dom, [cnt], ("sym", z3.IntSort()), key_schema="Index")
    if isinstance(v, Struct) and v.cls == "SpaceOf":
        return Struct("SpaceCounter", seq=v.f["seq"])
    raise Unsupported("Counter of this iterable")


C.EXTERNALS["itertools.chain.from_iterable"] = model_chain_from_iterable
C.EXTERNALS["collections.Counter"] = model_Counter

# list built by append only, abstracted by its membership set
def listset_append(ip, obj, args, kwargs):
    x = args[0]
    ip.vc.check("append#no-duplicate-entry", z3.Not(obj.f["mem"][x.t]))
    obj.f["mem"] = z3.Store(obj.f["mem"], x.t, True)
    return None


C.STRUCT_METHODS[("ListSet", "append")] = listset_append
C.STRUCT_CONTAINS["IdxSetView"] = lambda ip, o, x: z3.Select(o.f["mem"], x.t)


def members(v):
    """membership array of a PList (concrete, empty) / ListSet"""
    if isinstance(v, PList):
        a = z3.K(IdxSort, False)
        for it in v.items:
            a = z3.Store(a, it.t, True)
        return a
    return v.f["mem"]


def is_target_spec(tuples_t, tt, x):
    """an index of the contraction is a target index iff it occurs once or is
    a target index of the term"""
    return z3.Or(CNT(tuples_t, x) == 1, tt[x])


class SplitLoop(LoopContract):
    def iter_spec(self, vc, frame, seq):
        ok = seq.kind == "mapitems" and seq.map is frame["idx_counter"]
        return [("runs-over-the-counted-indices", ok)]

    def havoc(self, vc, frame, k, seq):
        for nm in ("contracted", "target"):
            frame[nm] = Struct("ListSet", mem=vc.fresh(nm, IdxSet))
        for nm in ("idx", "count"):
            frame.locals.pop(nm, None)
        vc.ghost["_split_iter"] = seq



def _split_invariant_full(self, vc, frame, k, seq):
    """invariant instantiated at the arbitrary element x0 and at the loop's
    current / previous element"""
    t = frame["indices"].f["t"]
    tt = frame["term_target_indices"].f["mem"]
    kk = term(k)
    done = seq.done[kk]
    mc, mt = members(frame["contracted"]), members(frame["target"])
    out = []
    for name, x in (("processed-indices-are-split-by-the-rule", vc.ghost["_x0"]),
                    ("@instance:current-index", seq.enum[kk])):
        out.append((name,
                    z3.And(mc[x] == z3.And(done[x], z3.Not(is_target_spec(t, tt, x))),
                           mt[x] == z3.And(done[x], is_target_spec(t, tt, x)))))
    return out


SplitLoop.invariant = _split_invariant_full


@register
class SplitContractedAndTarget(Contract):
    key = CK + "._split_contracted_and_target"
    props = ["C16"]
    loops = {0: SplitLoop()}

    def setup(self, vc):
        t = vc.fresh("indices", TuplesSort)
        tt = vc.fresh("term_targets", IdxSet)
        x = z3.Const("x!a", IdxSort)
        vc.assume(z3.ForAll([x], CNT(t, x) >= 0))
        vc.ghost["_x0"] = vc.fresh("x0", IdxSort)
        return {"indices": Struct("IdxTuples", t=t),
                "term_target_indices": Struct("IdxSetView", mem=tt)}

    def post(self, vc, a, result):
        if not (isinstance(result, tuple) and len(result) == 2):
            return [("returns-(contracted, target)", False)]
        contracted, target = result
        t, tt = a["indices"].f["t"], a["term_target_indices"].f["mem"]
        x = vc.ghost["_x0"]
        mc, mt = members(contracted), members(target)
        occurs = CNT(t, x) >= 1
        return [
            ("contracted-iff-occurs-at-least-twice-and-not-a-term-target",
             mc[x] == z3.And(CNT(t, x) >= 2, z3.Not(tt[x]))),
            ("target-iff-occurs-once-or-is-a-term-target",
             mt[x] == z3.And(occurs, z3.Or(CNT(t, x) == 1, tt[x]))),
            ("partition-of-the-occurring-indices",
             z3.And(z3.Or(mc[x], mt[x]) == occurs, z3.Not(z3.And(mc[x], mt[x])))),
        ]


# --- scaling ----------------------------------------------------------------------
SeqId = z3.DeclareSort("IdxSeq")
CNTSP = z3.Function("count_in_space", SeqId, z3.IntSort(), z3.IntSort())
SEQLEN = z3.Function("seq_len", SeqId, z3.IntSort())


def space_counter_subscript(ip, obj, idx):
    sp = ip.vc.concretize(idx) if not isinstance(idx, str) else idx
    return wrap(CNTSP(obj.f["seq"].f["t"], SPACES.index(sp)))


C.STRUCT_SUBSCRIPT["SpaceCounter"] = space_counter_subscript
C.STRUCT_LEN["IdxSeqV"] = lambda ip, v: wrap(SEQLEN(v.f["t"]))
C.SYMBOLIC_ITERABLES.add("IdxSeqV")


def _space_comp(ip, frame, node):
    """Counter(idx.space for idx in <index sequence>)"""
    it = ip.eval(node.generators[0].iter, frame)
    if isinstance(it, Struct) and it.cls == "IdxSeqV":
        return Struct("SpaceOf", seq=it)
    return None


def model_ScalingComponent(ip, args, kwargs):
    return Struct("ScalingComponent", **kwargs)


def model_Scaling(ip, args, kwargs):
    return Struct("Scaling", **kwargs)


C.CLASS_MODELS["adcgen.generate_code.contraction:ScalingComponent"] = model_ScalingComponent
C.CLASS_MODELS["adcgen.generate_code.contraction:Scaling"] = model_Scaling


@register
class DetermineScaling(Contract):
    key = CK + "._determine_scaling"
    props = ["C16"]
    comprehensions = {"idx.space for idx in self.contracted": _space_comp,
                      "idx.space for idx in self.target": _space_comp}

    def setup(self, vc):
        c, t = vc.fresh("contracted", SeqId), vc.fresh("target", SeqId)
        for s in (c, t):
            vc.assume(z3.And(*[CNTSP(s, k) >= 0 for k in range(3)]))
            vc.assume(CNTSP(s, 0) + CNTSP(s, 1) + CNTSP(s, 2) == SEQLEN(s))
        return {"self": Inst(CK, {"contracted": Struct("IdxSeqV", t=c),
                                  "target": Struct("IdxSeqV", t=t), "scaling": None})}

    def post(self, vc, a, result):
        sc = a["self"].attrs.get("scaling")
        if not (isinstance(sc, Struct) and sc.cls == "Scaling"):
            return [("scaling-is-set", False)]
        comp, mem = sc.f.get("computational"), sc.f.get("memory")
        c, t = a["self"].attrs["contracted"].f["t"], a["self"].attrs["target"].f["t"]
        out = []
        for s in SPACES:
            k = SPACES.index(s)
            out.append((f"computational[{s}]-counts-contracted-plus-target-indices",
                        zeq(comp.f[s], CNTSP(c, k) + CNTSP(t, k))))
            out.append((f"memory[{s}]-counts-target-indices", zeq(mem.f[s], CNTSP(t, k))))
        out.append(("computational-total-is-number-of-indices",
                    zeq(comp.f["total"], SEQLEN(c) + SEQLEN(t))))
        out.append(("memory-total-is-number-of-target-indices", zeq(mem.f["total"], SEQLEN(t))))
        return out


# --- _determine_contracted_and_target ------------------------------------------------
def _split_fresh_result(self, vc, a):
    t, tt = a["indices"].f["t"], a["term_target_indices"].f["mem"]
    x = z3.Const("x!r", IdxSort)
    mc = z3.Lambda([x], z3.And(CNT(t, x) >= 2, z3.Not(tt[x])))
    mt = z3.Lambda([x], z3.And(CNT(t, x) >= 1, z3.Or(CNT(t, x) == 1, tt[x])))
    return (Struct("ListSet", mem=mc), Struct("ListSet", mem=mt))


SplitContractedAndTarget.fresh_result = _split_fresh_result
_orig_split_post = SplitContractedAndTarget.post


def _split_post(self, vc, a, result):
    if a.get("_callsite"):
        return []
    return _orig_split_post(self, vc, a, result)


SplitContractedAndTarget.post = _split_post


def model_sorted_idx(ip, args, kwargs):
    v = args[0]
    key = kwargs.get("key")
    from pyvc.values import FuncRef
    canonical = isinstance(key, FuncRef) and key.key == "adcgen.indices:sort_idx_canonical"
    if isinstance(v, Struct) and v.cls in ("ListSet", "IdxSetView"):
        return Struct("SortedIdx", mem=v.f["mem"], canonical=canonical)
    return None


def sorted_eq(ip, a, b):
    if isinstance(a, Struct) and isinstance(b, Struct) and a.cls == b.cls == "SortedIdx":
        # two duplicate free lists sorted with the same injective key are
        # equal iff they have the same elements
        return a.f["mem"] == b.f["mem"]
    return a is b


C.STRUCT_EQ["SortedIdx"] = sorted_eq


@register
class DetermineContractedAndTarget(Contract):
    key = CK + "._determine_contracted_and_target"
    props = ["C16"]

    def setup(self, vc):
        from pyvc.builtins import BUILTINS, b_sorted, b_tuple
        from pyvc.values import PyFunc

        def sorted_model(ip, args, kwargs):
            r = model_sorted_idx(ip, args, kwargs)
            return r if r is not None else b_sorted(ip, args, kwargs)

        def tuple_model(ip, args, kwargs):
            if args and isinstance(args[0], Struct) and args[0].cls in ("SortedIdx", "IdxSetView"):
                return args[0]
            return b_tuple(ip, args, kwargs)
        vc.ip.builtins = dict(vc.ip.builtins, sorted=PyFunc(sorted_model, "sorted"),
                              tuple=PyFunc(tuple_model, "tuple"))
        t = vc.fresh("indices", TuplesSort)
        tt = vc.fresh("term_targets", IdxSet)
        x = z3.Const("x!a", IdxSort)
        vc.assume(z3.ForAll([x], CNT(t, x) >= 0))
        vc.ghost["_x0"] = vc.fresh("x0", IdxSort)
        term_targets = Struct("IdxSetView", mem=tt)
        return {"self": Inst(CK, {"indices": Struct("IdxTuples", t=t)}),
                "term_target_indices": term_targets}

    def post(self, vc, a, result):
        me = a["self"].attrs
        t, tt = me["indices"].f["t"], a["term_target_indices"].f["mem"]
        c, tg = me.get("contracted"), me.get("target")
        x = vc.ghost["_x0"]
        spec_c = z3.And(CNT(t, x) >= 2, z3.Not(tt[x]))
        spec_t = z3.And(CNT(t, x) >= 1, z3.Or(CNT(t, x) == 1, tt[x]))
        out = []
        if not (isinstance(c, Struct) and c.cls == "SortedIdx"):
            return [("contracted-is-the-sorted-list-of-summed-indices", False)]
        out.append(("contracted-holds-exactly-the-summed-indices", c.f["mem"][x] == spec_c))
        out.append(("contracted-in-canonical-order", c.f["canonical"]))
        if tg is a["term_target_indices"]:
            # replaced by the term's own target tuple: same elements
            out.append(("term-target-order-used-only-for-the-same-index-set", tt[x] == spec_t))
        elif isinstance(tg, Struct) and tg.cls == "SortedIdx":
            out.append(("target-holds-exactly-the-remaining-indices", tg.f["mem"][x] == spec_t))
            out.append(("target-in-canonical-order", tg.f["canonical"]))
            xs = vc.fresh("xs", IdxSort)
            out.append(("requested-target-order-is-used-when-the-index-sets-coincide",
                        z3.Not(z3.ForAll([xs], tt[xs] == z3.And(CNT(t, xs) >= 1, z3.Or(CNT(t, xs) == 1, tt[xs]))))))
        else:
            out.append(("target-shape", False))
        return out


# --- _group_objects: the limit on simultaneously contracted objects ---------------------
# Abstraction: index tuples, occurrence tables and position sets are opaque; of a set of
# positions only its cardinality is tracked.  Proved: every group that is stored (and
# therefore every group that is returned) has at most `max_group_size` members, for any
# number of objects and any number of growth steps.
GK = "adcgen.generate_code.optimize_contractions:_group_objects"
ASSUMPTIONS.append("_group_objects: position sets are abstracted by their cardinality; "
                   "itertools.combinations(enumerate(x), 2) yields pairs ((p1, x[p1]), (p2, x[p2])) with p1 < p2")


def _fresh_card(vc, name):
    c = vc.fresh_int(name)
    vc.assume(c >= 0)
    return c


def _objidx_symiter(ip, obj):
    from pyvc.builtins import SymIter
    return SymIter("objidx", obj, Sym(obj.f["n"]),
                   lambda ip_, k: Struct("IdxTupleV", pos=term(k)))


def _idxtuple_symiter(ip, obj):
    from pyvc.builtins import SymIter
    vc = ip.vc
    return SymIter("idxtuple", obj, Sym(_fresh_card(vc, "rank")),
                   lambda ip_, k: new_index(ip_.vc, "gidx"))


def _pairs_symiter(ip, obj):
    from pyvc.builtins import SymIter
    vc = ip.vc
    n = obj.f["n"]

    def item(ip_, k):
        p1, p2 = ip_.vc.fresh_int("pos1"), ip_.vc.fresh_int("pos2")
        ip_.vc.assume(z3.And(0 <= p1, p1 < p2, p2 < n))
        return ((Sym(p1), Struct("IdxTupleV", pos=p1)), (Sym(p2), Struct("IdxTupleV", pos=p2)))
    return SymIter("pairs", obj, Sym(_fresh_card(vc, "npairs")), item)


C.STRUCT_SYMITER["ObjIdxSeq"] = _objidx_symiter
C.STRUCT_SYMITER["IdxTupleV"] = _idxtuple_symiter
C.STRUCT_SYMITER["PairsV"] = _pairs_symiter
C.STRUCT_LEN["ObjIdxSeq"] = lambda ip, v: Sym(v.f["n"])
C.STRUCT_LEN["PosSet"] = lambda ip, v: Sym(v.f["card"])
C.STRUCT_LEN["KeyV"] = lambda ip, v: Sym(v.f["card"])
C.STRUCT_CONTAINS["OccMap"] = lambda ip, o, x: ip.vc.fresh_bool("seen")
C.STRUCT_STORE["OccMap"] = lambda ip, obj, idx, v: None
C.STRUCT_SUBSCRIPT["OccMap"] = lambda ip, obj, idx: Struct("PosListV")
C.STRUCT_METHODS[("PosListV", "append")] = lambda ip, obj, args, kwargs: None
C.STRUCT_TRUTH["ListSet"] = lambda ip, v: ip.vc.fresh_bool("nonempty")
C.STRUCT_EQ["ListSet"] = lambda ip, a, b: (a.f["mem"] == b.f["mem"]) \
    if isinstance(a, Struct) and isinstance(b, Struct) and a.cls == b.cls else (a is b)
C.STRUCT_CONTAINS["GroupsV"] = lambda ip, o, x: ip.vc.fresh_bool("known_group")


def _posset_eq(ip, a, b):
    if not (isinstance(a, Struct) and isinstance(b, Struct) and a.cls == b.cls == "PosSet"):
        return a is b
    e = ip.vc.fresh_bool("same_positions")
    ip.vc.assume(z3.Implies(e, a.f["card"] == b.f["card"]))
    return e


C.STRUCT_EQ["PosSet"] = _posset_eq


def _groups_store(ip, obj, key, v):
    vc = ip.vc
    ok = isinstance(key, Struct) and key.cls == "KeyV"
    vc.check("store#stored-group-has-at-most-max_group_size-objects",
             (key.f["card"] <= term(obj.f["max"])) if ok else False)
    return None


C.STRUCT_STORE["GroupsV"] = _groups_store
C.STRUCT_METHODS[("GroupsV", "keys")] = lambda ip, obj, args, kwargs: Struct("GroupKeysV", of=obj)


def _groupkeys_iter(ip, v):
    # one arbitrary stored group: its size bound is the store-time obligation
    c = _fresh_card(ip.vc, "group_size")
    ip.vc.assume(c <= term(v.f["of"].f["max"]))
    return [Struct("KeyV", card=c)]


C.STRUCT_ITER["GroupKeysV"] = _groupkeys_iter
C.STRUCT_ITER["OuterV"] = lambda ip, v: [Struct("KeyV", card=z3.IntVal(2))]


def _outer_append(ip, obj, args, kwargs):
    ok = isinstance(args[0], tuple) and len(args[0]) == 2
    ip.vc.check("append#outer-product-is-a-pair-of-objects", ok)
    return None


C.STRUCT_METHODS[("OuterV", "append")] = _outer_append


def _positions_comp(ip, frame, node):
    return Struct("PosSet", card=_fresh_card(ip.vc, "npos"))


def _group_tuples_comp(ip, frame, node):
    t = ip.vc.fresh("group_indices", TuplesSort)
    return Struct("IdxTuples", t=t)


def _model_combinations_pairs(prev):
    def model(ip, args, kwargs):
        from pyvc.builtins import EnumVal
        v = args[0]
        if isinstance(v, EnumVal) and isinstance(v.inner, Struct) and v.inner.cls == "ObjIdxSeq" \
                and args[1] == 2:
            return Struct("PairsV", n=v.inner.f["n"])
        if prev is not None:
            return prev(ip, args, kwargs)
        raise Unsupported("itertools.combinations of this iterable")
    return model


C.EXTERNALS["itertools.combinations"] = _model_combinations_pairs(C.EXTERNALS.get("itertools.combinations"))
C.SYMBOLIC_ITERABLES.add("PosSet")


class _OccLoop(LoopContract):
    """fills the occurrence table (abstracted)"""

    def havoc(self, vc, frame, k, seq):
        frame["idx_occurences"] = Struct("OccMap")
        for nm in ("pos", "indices", "idx"):
            frame.locals.pop(nm, None)


class _OccInnerLoop(LoopContract):
    def havoc(self, vc, frame, k, seq):
        frame["idx_occurences"] = Struct("OccMap")
        frame.locals.pop("idx", None)


class _PairLoop(LoopContract):
    def havoc(self, vc, frame, k, seq):
        frame["groups"] = Struct("GroupsV", max=frame["max_group_size"])
        frame["outer_products"] = Struct("OuterV")
        for nm in ("pos1", "pos2", "indices1", "indices2", "contracted", "_", "positions", "key",
                   "new_contracted", "new_positions"):
            frame.locals.pop(nm, None)


class _GrowLoop(LoopContract):
    # `groups` is an abstract object whose only property (size bound of every key) is an
    # obligation at each store
    modifies = ("groups", "_")
    def havoc(self, vc, frame, k, seq):
        frame["positions"] = Struct("PosSet", card=_fresh_card(vc, "npos"))
        frame["contracted"] = Struct("ListSet", mem=vc.fresh("contracted", IdxSet))
        for nm in ("new_contracted", "new_positions"):
            frame.locals.pop(nm, None)

    def invariant(self, vc, frame, k, seq):
        p = frame["positions"]
        ok = isinstance(p, Struct) and p.cls == "PosSet"
        return [("current-group-is-within-the-limit",
                 (p.f["card"] <= term(frame["max_group_size"])) if ok else False)]


_orig_fresh = SplitContractedAndTarget.fresh_result


def _split_fresh_result_any(self, vc, a):
    ind = a["indices"]
    if not (isinstance(ind, Struct) and ind.cls == "IdxTuples"):
        # any collection of index tuples
        a = dict(a, indices=Struct("IdxTuples", t=vc.fresh("indices", TuplesSort)))
    return _orig_fresh(self, vc, a)


SplitContractedAndTarget.fresh_result = _split_fresh_result_any


@register
class GroupObjects(Contract):
    key = GK
    props = ["C16"]
    loops = {0: _OccLoop(), 1: _OccInnerLoop(), 2: _PairLoop(), 3: _GrowLoop()}
    comprehensions = {"for pos in idx_occurences[idx]": _positions_comp,
                      "obj_indices[pos] for pos in positions": _group_tuples_comp}

    def setup(self, vc):
        from pyvc.builtins import b_sorted, b_tuple
        from pyvc.values import PyFunc

        def sorted_model(ip, args, kwargs):
            if args and isinstance(args[0], Struct) and args[0].cls == "PosSet":
                return Struct("SortedPos", card=args[0].f["card"])
            return b_sorted(ip, args, kwargs)

        def tuple_model(ip, args, kwargs):
            if args and isinstance(args[0], Struct) and args[0].cls == "SortedPos":
                return Struct("KeyV", card=args[0].f["card"])
            return b_tuple(ip, args, kwargs)
        vc.ip.builtins = dict(vc.ip.builtins, sorted=PyFunc(sorted_model, "sorted"),
                              tuple=PyFunc(tuple_model, "tuple"))
        n = vc.fresh_int("n_objects")
        vc.assume(n >= 0)
        limited = vc.choose(2, "limit") == 1
        mgs = Sym(vc.fresh_int("max_group_size")) if limited else None
        return {"obj_indices": Struct("ObjIdxSeq", n=n),
                "target_indices": Struct("IdxSetView", mem=vc.fresh("term_targets", IdxSet)),
                "max_group_size": mgs}

    def raises(self, vc, a):
        n = a["obj_indices"].f["n"]
        bad = n <= 1
        if a["max_group_size"] is not None:
            bad = z3.Or(bad, term(a["max_group_size"]) <= 1)
        return [("AssertionError", bad)]

    def post(self, vc, a, result):
        if not isinstance(result, tuple):
            return [("returns-a-tuple-of-groups", False)]
        n = a["obj_indices"].f["n"]
        limit = term(a["max_group_size"]) if a["max_group_size"] is not None else n
        out = []
        for g in result:
            ok = isinstance(g, Struct) and g.cls == "KeyV"
            out.append(("every-returned-group-obeys-the-limit-on-simultaneously-contracted-objects",
                        (g.f["card"] <= limit) if ok else False))
        return out
