"""Abstract models shared by the series-level contracts (C02-C05): tensor name
configuration, index registry calls, excitation operators, amplitudes,
orbital energies, gen_term_orders, validate_input."""
import z3
from pyvc import contract as C
from pyvc.contract import Contract, register
from pyvc.values import (Struct, Sym, SymSeq, PList, PDict, Inst, term, wrap, zand, zor,
                         znot, is_enum, Unsupported)
from pyvc.vc import RaiseEx
from spec.idx import IdxSort, idx_space, idx_spin, SPACES, SPINS
from spec.names import BASE, LETTERS, name_letter
from spec.exprval import mk_expr, as_expr, real
from spec.series import (AtomSort, RulesSort, atom_nc, mk_nc, new_stamp, stamps_of)

# --- configured tensor names -----------------------------------------------------
TN_FIELDS = ["eri", "coulomb", "fock", "operator", "gs_amplitude", "gs_density",
             "left_adc_amplitude", "right_adc_amplitude", "orb_energy", "sym_orb_denom"]
C.EXTERNALS["adcgen.tensor_names:tensor_names"] = Struct("TensorNames")
for _f in TN_FIELDS:
    C.STRUCT_ATTR[("TensorNames", _f)] = (lambda f: lambda ip, o: Struct("TName", parts=(("field", f),)))(_f)


def tname_add(ip, opn, a, b):
    """name + "cc" / f-string pieces: symbolic concatenation"""
    if opn != "Add":
        raise Unsupported("operator on a tensor name")
    pa = a.f["parts"] if isinstance(a, Struct) else (("lit", a),)
    pb = b.f["parts"] if isinstance(b, Struct) else (("lit", b),)
    return Struct("TName", parts=tuple(pa) + tuple(pb))


C.STRUCT_ARITH["TName"] = tname_add
C.STRUCT_INPLACE["TName"] = lambda ip, opn, cur, rhs: (True, tname_add(ip, opn, cur, rhs))


def fstring_parts(ip, parts):
    """hook for f-strings that contain abstract name pieces"""
    out = []
    for p in parts:
        if isinstance(p, Struct) and p.cls == "TName":
            out.extend(p.f["parts"])
        elif isinstance(p, str):
            if p:
                out.append(("lit", p))
        elif isinstance(p, int):
            out.append(("int", z3.IntVal(p)))
        elif isinstance(p, Sym) and z3.is_int(p.t):
            out.append(("int", p.t))
        else:
            raise Unsupported(f"f-string part {p!r}")
    return Struct("TName", parts=tuple(out))


C.FSTRING_HOOK = fstring_parts


def parse_amp_name(name):
    """(order term, is complex conjugate) of a ground-state amplitude name
    <gs_amplitude><order>[cc]"""
    if not (isinstance(name, Struct) and name.cls == "TName"):
        raise Unsupported(f"amplitude name {name!r}")
    parts = list(name.f["parts"])
    if len(parts) >= 2 and parts[0] == ("field", "gs_amplitude") and parts[1][0] == "int":
        rest = parts[2:]
        if rest == []:
            return parts[1][1], False
        if rest == [("lit", "cc")]:
            return parts[1][1], True
    raise Unsupported(f"unexpected tensor name {parts}")


# --- index registry (assumed contracts, proved under C08/C19) ---------------------
def registry_index(vc, name, spin=""):
    """the Index object of a concrete name: one object per (name, spin)"""
    cache = vc.ghost.setdefault("_registry", {})
    key = (name, spin)
    if key not in cache:
        t = vc.fresh("idx_" + name + spin, IdxSort)
        space = [s for s, letters in BASE.items() if name[0] in letters]
        if not space:
            raise RaiseEx("Inputerror", "index space")
        vc.assume(idx_space(t) == SPACES.index(space[0]))
        vc.assume(idx_spin(t) == SPINS.index(spin))
        vc.assume(name_letter(t) == LETTERS.index(name[0]))
        for other in cache.values():
            vc.assume(other.t != t)
        cache[key] = Sym(t, "Index")
    return cache[key]


def split_names(s):
    out, cur = [], ""
    for ch in s:
        if ch.isdigit() and cur:
            cur += ch
        else:
            if cur:
                out.append(cur)
            cur = ch
    if cur:
        out.append(cur)
    return out


def model_get_indices(ip, obj, args, kwargs):
    names = args[0] if args else kwargs["indices"]
    spins = args[1] if len(args) > 1 else kwargs.get("spins")
    if isinstance(names, str):
        names = split_names(names)
    else:
        names = [n for n in ip.iterate_concrete(names)]
    if not all(isinstance(n, str) for n in names):
        raise Unsupported("get_indices with symbolic names")
    spins = list(spins) if spins is not None else [""] * len(names)
    ret = PDict()
    for n, sp in zip(names, spins):
        s = registry_index(ip.vc, n, sp)
        key = ([k for k, letters in BASE.items() if n[0] in letters][0], sp)
        ret.d.setdefault(key, PList()).items.append(s)
    return ret


def fresh_index_list(vc, space, n, label):
    """list of n (symbolic) never used generic indices of one space: SymSeq
    whose elements are pairwise different fresh Index objects"""
    arr = vc.fresh(f"generic_{space}", z3.ArraySort(z3.IntSort(), IdxSort))
    return SymSeq(n, [arr], ("sym", IdxSort, "Index"), mutable=False)


def model_get_generic_indices(ip, obj, args, kwargs):
    ret = PDict()
    stamp = new_stamp(ip.vc, "generic-indices", closed=False)
    for key, n in kwargs.items():
        parts = key.split("_")
        space, spin = parts[0], (parts[1] if len(parts) > 1 else "")
        if isinstance(n, int) and n == 0:
            continue
        seq = fresh_index_list(ip.vc, space, n, key)
        seq.stamp = stamp
        ret.d[(space, spin)] = seq
    ip.vc.ghost["_last_generic_stamp"] = stamp
    return ret


C.STRUCT_METHODS[("Indices", "get_indices")] = model_get_indices
C.STRUCT_METHODS[("Indices", "get_generic_indices")] = model_get_generic_indices
C.CLASS_MODELS["adcgen.indices:Indices"] = lambda ip, a, k: Struct("Indices")


# --- index tuples as atom arguments ---------------------------------------------
SeqIdSort = z3.DeclareSort("IdxTuple")
_TUP = {}
slice_id = z3.Function("idx_slice", z3.ArraySort(z3.IntSort(), IdxSort), z3.IntSort(),
                       z3.IntSort(), SeqIdSort)


def tuple_id(v):
    """abstract identity of an index tuple: concrete tuples of Index terms or
    a slice [lo:hi) of a symbolic index list"""
    if isinstance(v, SymSeq):
        base = v.arrs[0]
        lo = getattr(v, "slice_lo", z3.IntVal(0))
        return slice_id(getattr(v, "slice_base", base), lo, term(v.len) + lo)
    items = list(v) if isinstance(v, tuple) else list(v.items)
    n = len(items)
    if n not in _TUP:
        _TUP[n] = z3.Function(f"idx_tuple{n}", *([IdxSort] * n + [SeqIdSort]))
    return _TUP[n](*[x.t for x in items]) if n else z3.Const("idx_tuple0", SeqIdSort)


def length_of(v):
    if isinstance(v, SymSeq):
        return term(v.len)
    return z3.IntVal(len(v) if isinstance(v, tuple) else len(v.items))


# amplitudes t^{(order)}[upper; lower] (value) and excitation operator strings
AMPV = z3.Function("AMPV", z3.IntSort(), z3.BoolSort(), SeqIdSort, SeqIdSort, z3.RealSort())
XOP = z3.Function("XOP", SeqIdSort, SeqIdSort, z3.BoolSort(), AtomSort)   # creation, annihilation, reversed
DAGGER = z3.Function("DAGGER", AtomSort, AtomSort)
NORMAL = z3.Function("NO", AtomSort, AtomSort)
EPS = z3.Function("EPS", IdxSort, z3.RealSort())
NO_TUPLE = z3.Const("no_idx_tuple", SeqIdSort)


def model_Amplitude(ip, args, kwargs):
    name, upper, lower = args[0], args[1], args[2]
    order, cc = parse_amp_name(name)
    st = frozenset()
    for v in (upper, lower):
        st |= getattr(v, "stamp", frozenset())
    e = mk_expr(AMPV(order, cc, tuple_id(upper), tuple_id(lower)), False)
    e.f["stamps"] = st
    return e


C.CLASS_MODELS["adcgen.sympy_objects:Amplitude"] = model_Amplitude


@register
class ExcitationOperator(Contract):
    """assumed here, verified under C02 in contracts/c02_ops.py"""
    key = "adcgen.operators:Operators.excitation_operator"
    props = []
    assumed = True
    note = "string of creation operators followed by (reversed) annihilation operators over the given indices"

    def apply(self, vc, a):
        cre, ann = a.get("creation"), a.get("annihilation")
        rev = a.get("reverse_annihilation", True)
        st = frozenset()
        for v in (cre, ann):
            st |= getattr(v, "stamp", frozenset())
        atom = XOP(tuple_id(cre) if cre is not None else NO_TUPLE,
                   tuple_id(ann) if ann is not None else NO_TUPLE,
                   term(rev) if not isinstance(rev, bool) else z3.BoolVal(rev))
        return atom_nc(atom, st)


def nc_single_atom(v):
    if isinstance(v, Struct) and v.cls == "NC" and len(v.f["terms"]) == 1:
        c, w = v.f["terms"][0]
        if len(w) == 1:
            return c, w[0]
    raise Unsupported("expected a single operator string")


def model_Dagger(ip, args, kwargs):
    c, atom = nc_single_atom(args[0])
    return mk_nc([(c, (DAGGER(atom),))], stamps_of(args[0]))


def model_NO(ip, args, kwargs):
    c, atom = nc_single_atom(args[0])
    return mk_nc([(c, (NORMAL(atom),))], stamps_of(args[0]))


C.EXTERNALS["sympy.physics.secondquant.Dagger"] = model_Dagger
C.EXTERNALS["sympy.physics.secondquant.NO"] = model_NO

FACT = z3.Function("factorial", z3.IntSort(), z3.IntSort())


def model_factorial(ip, args, kwargs):
    n = args[0]
    if isinstance(n, int):
        import math
        return math.factorial(n)
    ip.vc.assume(FACT(term(n)) >= 1)
    return wrap(FACT(term(n)))


def model_Rational(ip, args, kwargs):
    p, q = args
    return mk_expr(real(p) / real(q), False)


C.EXTERNALS["math.factorial"] = model_factorial
C.EXTERNALS["sympy.factorial"] = model_factorial
C.EXTERNALS["sympy.Rational"] = model_Rational
C.EXTERNALS["sympy.latex"] = lambda ip, a, k: "<latex>"


def model_sympify_series(ip, args, kwargs):
    v = args[0]
    if isinstance(v, int) and not isinstance(v, bool):
        return mk_expr(v, v == 0, singleton={0: "Zero", 1: "One", -1: "NegativeOne"}.get(v))
    return v


C.EXTERNALS["sympy.sympify"] = model_sympify_series


@register
class OrbEnergy(Contract):
    key = "adcgen.intermediates:orb_energy"
    props = []
    assumed = True
    note = "NonSymmetricTensor(orb_energy, (idx,)); value EPS(idx)"

    def apply(self, vc, a):
        idx = a["idx"]
        if not (isinstance(idx, Sym) and idx.schema == "Index"):
            raise Unsupported("orb_energy of a non Index")
        return mk_expr(EPS(idx.t), False)


# --- validate_input ---------------------------------------------------------------
@register
class ValidateInput(Contract):
    key = "adcgen.misc:validate_input"
    props = []
    assumed = True
    note = "raises Inputerror iff an argument is outside its documented domain (non-negative int orders, 'bra'/'ket', p/h space strings, 1 or 2 index strings)"

    def bind(self, vc, args, kwargs, interp):
        return dict(kwargs)

    def apply(self, vc, a):
        bad = False
        for k, v in a.items():
            if k in ("order", "min_order", "adc_order"):
                if isinstance(v, bool) or not isinstance(v, (int, Sym)):
                    bad = True
                elif isinstance(v, int):
                    bad = zor(bad, v < 0)
                else:
                    bad = zor(bad, v.t < 0)
            elif k == "braket":
                v = vc.concretize(v) if is_enum(v) else v
                bad = zor(bad, v not in ("bra", "ket"))
            elif k in ("lr", "lr_isr"):
                v = vc.concretize(v) if is_enum(v) else v
                bad = zor(bad, v not in ("left", "right"))
            elif k in ("space", "block", "indices"):
                if isinstance(v, str):
                    tpl = tuple(v.split(","))
                elif isinstance(v, tuple):
                    tpl = v
                elif isinstance(v, PList):
                    tpl = tuple(v.items)
                else:
                    raise Unsupported(f"symbolic {k}")
                if not all(isinstance(x, str) for x in tpl):
                    raise Unsupported(f"symbolic {k} entries")
                if k == "space":
                    bad = zor(bad, len(tpl) != 1 or not all(c in "ph" for c in tpl[0]))
                elif k == "block":
                    bad = zor(bad, len(tpl) != 2 or not all(c in "ph" for p in tpl for c in p))
                else:
                    bad = zor(bad, len(tpl) not in (1, 2))
            else:
                raise Unsupported(f"validate_input({k})")
        if vc.decide(bad):
            raise RaiseEx("Inputerror", "validate_input")
        return None


def call_contract_with_kwargs(interp_cls):
    """`validate_input(**kwargs)` has no positional parameters: bind hook"""


# --- gen_term_orders (callers' view for term_length 2; verified in c02) -----------
def term_orders2(vc, order, min_order):
    """[(m, n-m), (m+1, n-m-1), ..., (n-m, m)]: product order of itertools"""
    n, m = term(order), term(min_order)
    k = z3.Int("k!g")
    length = z3.If(n - 2 * m + 1 > 0, n - 2 * m + 1, z3.IntVal(0))
    a0 = z3.Lambda([k], m + k)
    a1 = z3.Lambda([k], n - m - k)
    return SymSeq(wrap(length), [a0, a1],
                  ("tuple", [("sym", z3.IntSort()), ("sym", z3.IntSort())]), mutable=False)


C.INLINE.add("adcgen.indices:n_ov_from_space")
