"""Symbolic interpreter for the supported Python subset (DESIGN 2.3).

One call of `Interp.run_function` executes ONE path of the function; branch
decisions are taken from / appended to the decision trace of the `VC`.
"""
import ast
import z3

from .values import (
    KDict,
    is_enum, enum_eq, enum_less,
    Sym, Struct, PList, PDict, PSet, Inst, SymSeq, SymSet, SymMap, FuncRef,
    ClassRef, ExtRef, BoundMethod, LambdaVal, PyFunc, Unsupported, term, wrap,
    zand, zor, znot, zeq, zite,
)
from .vc import PathEnd, ReturnEx, BreakEx, ContinueEx, RaiseEx
from . import contract as C

EXC_HIER = {
    "IndexError": ["LookupError", "Exception"],
    "KeyError": ["LookupError", "Exception"],
    "ValueError": ["Exception"],
    "TypeError": ["Exception"],
    "AssertionError": ["Exception"],
    "NotImplementedError": ["RuntimeError", "Exception"],
    "RuntimeError": ["Exception"],
    "AttributeError": ["Exception"],
    "Inputerror": ["ValueError", "Exception"],
    "ZeroDivisionError": ["ArithmeticError", "Exception"],
    "StopIteration": ["Exception"],
}


class Frame:
    def __init__(self, fkey, module, parent=None):
        self.fkey = fkey
        self.module = module      # ModuleInfo
        self.parent = parent
        self.locals = {}
        self.nonlocals = set()
        self.local_imports = {}

    def lookup(self, name):
        f = self
        while f is not None:
            if name in f.locals:
                return True, f.locals[name]
            f = f.parent
        return False, None

    def assign(self, name, value):
        if name in self.nonlocals:
            f = self.parent
            while f is not None:
                if name in f.locals:
                    f.locals[name] = value
                    return
                f = f.parent
        self.locals[name] = value

    def __getitem__(self, name):
        ok, v = self.lookup(name)
        if not ok:
            raise KeyError(name)
        return v

    def __setitem__(self, name, v):
        self.assign(name, v)

    def __contains__(self, name):
        return self.lookup(name)[0]


class Interp:
    def __init__(self, src, vc, top_key, top_contract):
        self.src = src
        self.vc = vc
        self.top_key = top_key
        self.top_contract = top_contract
        self.depth = 0
        from .builtins import BUILTINS
        self.builtins = BUILTINS

    # ------------------------------------------------------------------
    # function calls
    # ------------------------------------------------------------------
    def bind_args(self, node, args, kwargs, self_obj, key):
        a = node.args
        params = [p.arg for p in a.posonlyargs + a.args]
        bound = {}
        args = list(args)
        is_method = key in self.src.func_class
        decos = [d.id for d in node.decorator_list if isinstance(d, ast.Name)]
        if is_method and "staticmethod" not in decos and self_obj is not None:
            args = [self_obj] + args
        if len(args) > len(params) and a.vararg is None:
            raise Unsupported(f"too many positional arguments for {key}")
        for p, v in zip(params, args):
            bound[p] = v
        if a.vararg is not None:
            bound[a.vararg.arg] = tuple(args[len(params):])
        for k, v in kwargs.items():
            if k in params or k in [p.arg for p in a.kwonlyargs]:
                if k in bound:
                    raise RaiseEx("TypeError", "multiple values")
                bound[k] = v
            elif a.kwarg is not None:
                bound.setdefault(a.kwarg.arg, PDict()).d[k] = v
            else:
                raise RaiseEx("TypeError", f"unexpected keyword {k}")
        if a.kwarg is not None and a.kwarg.arg not in bound:
            bound[a.kwarg.arg] = PDict()
        # defaults
        defaults = a.defaults
        firstdef = len(params) - len(defaults)
        mod_frame = Frame(key, self.src.func_module[key])
        for i, p in enumerate(params):
            if p not in bound:
                if i >= firstdef:
                    bound[p] = self.eval(defaults[i - firstdef], mod_frame)
                else:
                    raise RaiseEx("TypeError", f"missing argument {p}")
        for p, d in zip(a.kwonlyargs, a.kw_defaults):
            if p.arg not in bound:
                if d is None:
                    raise RaiseEx("TypeError", f"missing kw argument {p.arg}")
                bound[p.arg] = self.eval(d, mod_frame)
        return bound

    def run_body(self, key, bound, closure=None):
        node = self.src.get(key)
        frame = Frame(key, self.src.func_module[key], parent=closure)
        frame.locals.update(bound)
        frame.loop_ordinals = self._loop_ordinals(node)
        self.depth += 1
        if self.depth > 40:
            raise Unsupported("inlining depth exceeded")
        try:
            self.exec_block(node.body, frame)
            return None
        except ReturnEx as r:
            return r.value
        finally:
            self.depth -= 1

    @staticmethod
    def _loop_ordinals(fnode):
        out = {}
        n = [0]

        def walk(nd):
            for ch in ast.iter_child_nodes(nd):
                if isinstance(ch, (ast.FunctionDef, ast.Lambda, ast.ClassDef)):
                    continue
                if isinstance(ch, (ast.For, ast.While)):
                    out[id(ch)] = n[0]
                    n[0] += 1
                walk(ch)
        walk(fnode)
        return out

    def call_function(self, key, args, kwargs, closure=None, self_obj=None):
        node = self.src.get(key)
        if node is None:
            raise Unsupported(f"unknown function {key}")
        con = C.REGISTRY.get(key)
        decos = [d.id for d in node.decorator_list if isinstance(d, ast.Name)]
        use_contract = con is not None and not con.inline
        if use_contract:
            if type(con).bind is not C.Contract.bind:
                bound = con.bind(self.vc, args, kwargs, self)
            else:
                bound = self.bind_args(node, args, kwargs, self_obj, key)
            return con.apply(self.vc, bound)
        nested_in_top = key.startswith(self.top_key + ".")
        if key in C.INLINE or (con is not None and con.inline) or nested_in_top \
                or closure is not None:
            bound = self.bind_args(node, args, kwargs, self_obj, key)
            return self.run_body(key, bound, closure)
        raise Unsupported(f"call to {key}: no contract and not inlinable")

    def call_value(self, fv, args, kwargs, frame):
        if isinstance(fv, PyFunc):
            return fv.fn(self, args, kwargs)
        if isinstance(fv, FuncRef):
            return self.call_function(fv.key, args, kwargs, fv.closure,
                                      fv.self_obj)
        if isinstance(fv, LambdaVal):
            return self.call_lambda(fv, args, kwargs)
        if isinstance(fv, BoundMethod):
            from .builtins import call_method
            return call_method(self, fv.obj, fv.name, args, kwargs)
        if isinstance(fv, ClassRef):
            return self.construct(fv, args, kwargs)
        if isinstance(fv, Struct) and (fv.cls, "__call__") in C.STRUCT_METHODS:
            return C.STRUCT_METHODS[(fv.cls, "__call__")](self, fv, args, kwargs)
        if isinstance(fv, ExtRef):
            m = C.EXTERNALS.get(fv.dotted)
            if m is None:
                raise Unsupported(f"no model for external {fv.dotted}")
            return m(self, args, kwargs)
        raise Unsupported(f"call of {fv!r}")

    def call_lambda(self, lv, args, kwargs):
        node = lv.node
        fr = Frame(lv.frame.fkey, lv.frame.module, parent=lv.frame)
        params = [p.arg for p in node.args.args]
        for p, v in zip(params, args):
            fr.locals[p] = v
        for k, v in kwargs.items():
            fr.locals[k] = v
        return self.eval(node.body, fr)

    def construct(self, cref, args, kwargs):
        m = C.CLASS_MODELS.get(cref.key)
        if m is not None:
            return m(self, args, kwargs)
        short = cref.key.split(":")[-1].split(".")[-1]
        if short in EXC_HIER or short.endswith("Error"):
            return Struct("exception", name=short)
        if cref.key in self.src.classes:
            inst = Inst(cref.key)
            init = self.src.find_method(cref.key, "__init__")
            if init is not None:
                self.call_function(init, args, kwargs, self_obj=inst)
            return inst
        raise Unsupported(f"constructor of {cref.key}")

    # ------------------------------------------------------------------
    # name resolution
    # ------------------------------------------------------------------
    def resolve_global(self, name, frame):
        mi = frame.module
        f = frame
        while f is not None:
            if name in f.local_imports:
                return self._import_value(f.local_imports[name])
            f = f.parent
        if name in mi.functions:
            return FuncRef(f"{mi.name}:{name}")
        if name in mi.classes:
            return ClassRef(f"{mi.name}:{name}")
        if name in mi.assigns:
            key = f"{mi.name}:{name}"
            if key in C.EXTERNALS:
                return C.EXTERNALS[key]
            return self.eval(mi.assigns[name], Frame(None, mi))
        if name in mi.imports:
            return self._import_value(mi.imports[name])
        if name in self.builtins:
            return self.builtins[name]
        if name in EXC_HIER or name == "Exception":
            return ClassRef(name)
        raise Unsupported(f"unresolved name {name}")

    def _import_value(self, imp):
        if imp[0] == "adcgen":
            _, mod, attr = imp
            mi = self.src.modules.get(mod)
            if mi is None:
                raise Unsupported(f"unknown module {mod}")
            if attr in mi.functions:
                return FuncRef(f"{mod}:{attr}")
            if attr in mi.classes:
                return ClassRef(f"{mod}:{attr}")
            if attr in mi.assigns:
                key = f"{mod}:{attr}"
                if key in C.EXTERNALS:
                    return C.EXTERNALS[key]
                return self.eval(mi.assigns[attr], Frame(None, mi))
            if attr in mi.imports:
                return self._import_value(mi.imports[attr])
            sub = f"{mod}.{attr}"
            if sub in self.src.modules:
                return ExtRef(sub)
            raise Unsupported(f"cannot import {attr} from {mod}")
        dotted = imp[1]
        if dotted in C.EXTERNALS and not callable(C.EXTERNALS[dotted]):
            return C.EXTERNALS[dotted]
        return ExtRef(dotted)

    # ------------------------------------------------------------------
    # truthiness / comparison
    # ------------------------------------------------------------------
    def truth_term(self, v):
        """python bool or z3 Bool for the truthiness of v."""
        if isinstance(v, bool):
            return v
        if v is None:
            return False
        if isinstance(v, (int, float, str, tuple)):
            return bool(v)
        if is_enum(v):
            return zor(*[v.t == c for c, d in enumerate(v.enum) if d])
        if isinstance(v, Sym):
            t = v.t
            if z3.is_bool(t):
                return t
            if z3.is_int(t) or z3.is_real(t):
                return t != 0
            if z3.is_string(t):
                return z3.Length(t) > 0
            return True
        if isinstance(v, PList):
            return len(v.items) > 0
        if isinstance(v, PDict):
            return len(v.d) > 0
        if isinstance(v, KDict):
            return len(v.pairs) > 0
        if isinstance(v, PSet):
            return len(v.items) > 0
        if isinstance(v, SymSeq):
            return term(v.len) > 0 if not isinstance(v.len, int) else v.len > 0
        if isinstance(v, Struct):
            tm = C.STRUCT_TRUTH.get(v.cls)
            if tm:
                return tm(self, v)
            return True
        if isinstance(v, (Inst, FuncRef, ClassRef, ExtRef, LambdaVal, PyFunc)):
            return True
        if isinstance(v, SymSet):
            raise Unsupported("truthiness of a symbolic set")
        raise Unsupported(f"truthiness of {v!r}")

    def truth(self, v):
        return self.vc.decide(self.truth_term(v))

    def values_eq(self, a, b):
        """python bool or z3 Bool: a == b (Python semantics on the subset)."""
        if is_enum(a) or is_enum(b):
            if (is_enum(a) or isinstance(a, str)) and (is_enum(b) or isinstance(b, str)):
                return enum_eq(a, b)
            if isinstance(a, Sym) and isinstance(b, Sym):
                return zeq(a, b)
            return False
        if isinstance(a, Sym) or isinstance(b, Sym):
            if isinstance(a, (Sym, int, str, bool, float)) and \
                    isinstance(b, (Sym, int, str, bool, float)):
                if isinstance(a, bool) and isinstance(b, Sym) and not z3.is_bool(b.t):
                    a = int(a)
                if isinstance(b, bool) and isinstance(a, Sym) and not z3.is_bool(a.t):
                    b = int(b)
                return zeq(a, b)
            return False
        if isinstance(a, (tuple, PList)) and isinstance(b, (tuple, PList)):
            if isinstance(a, tuple) != isinstance(b, tuple):
                return False
            ia = a if isinstance(a, tuple) else a.items
            ib = b if isinstance(b, tuple) else b.items
            if len(ia) != len(ib):
                return False
            return zand(*[self.values_eq(x, y) for x, y in zip(ia, ib)])
        if isinstance(a, Struct) or isinstance(b, Struct):
            eqm = C.STRUCT_EQ
            for s in (a, b):
                if isinstance(s, Struct) and s.cls in eqm:
                    return eqm[s.cls](self, a, b)
            return a is b
        if isinstance(a, (PDict, PSet, Inst, SymSeq, SymSet, SymMap)) or \
                isinstance(b, (PDict, PSet, Inst, SymSeq, SymSet, SymMap)):
            if isinstance(a, PSet) and isinstance(b, PSet):
                if all(not isinstance(x, Sym) for x in a.items + b.items):
                    return set(a.items) == set(b.items)
            if isinstance(a, SymSeq) and isinstance(b, SymSeq):
                return self.seq_eq(a, b)
            if a is b:
                return True
            raise Unsupported(f"equality of {type(a).__name__} and {type(b).__name__}")
        try:
            return a == b
        except Exception:
            return a is b

    def seq_eq(self, a, b):
        k = self.vc.fresh_int("k")
        body = zand(*[x[k] == y[k] for x, y in zip(a.arrs, b.arrs)])
        return zand(zeq(a.len, b.len),
                    z3.ForAll([k], z3.Implies(z3.And(k >= 0, k < term(a.len)), term(body))))

    def values_is(self, a, b):
        if is_enum(a) or is_enum(b):
            return self.values_eq(a, b)
        if isinstance(a, Sym) and isinstance(b, Sym):
            if a.t.sort() == b.t.sort():
                return a.t == b.t
            return False
        if isinstance(a, Sym) or isinstance(b, Sym):
            # symbolic object vs. a concrete singleton (None, True...)
            other = b if isinstance(a, Sym) else a
            s = a if isinstance(a, Sym) else b
            if other is None:
                return False
            if isinstance(other, Struct) and other.f.get("singleton") in ("Zero", "One", "NegativeOne") \
                    and (z3.is_real(s.t) or z3.is_int(s.t)):
                # sympy numbers equal to 0 / 1 / -1 are the singletons
                return s.t == {"Zero": 0, "One": 1, "NegativeOne": -1}[other.f["singleton"]]
            if isinstance(other, bool) and z3.is_bool(s.t):
                return zeq(s, other)
            if isinstance(other, (int, str)):
                return zeq(s, other)
            return False
        if isinstance(a, Struct) or isinstance(b, Struct):
            ism = C.STRUCT_IS
            for s in (a, b):
                if isinstance(s, Struct) and s.cls in ism:
                    return ism[s.cls](self, a, b)
        if isinstance(a, (int, str, bool, float, type(None))) and \
                isinstance(b, (int, str, bool, float, type(None))):
            return type(a) is type(b) and a == b
        if isinstance(a, ClassRef) and isinstance(b, ClassRef):
            return a.key == b.key
        return a is b

    def less(self, a, b, strict=True):
        """a < b (strict) or a <= b."""
        if isinstance(a, (tuple, PList)) and isinstance(b, (tuple, PList)):
            ia = a if isinstance(a, tuple) else a.items
            ib = b if isinstance(b, tuple) else b.items
            # lexicographic
            n = min(len(ia), len(ib))
            res = (len(ia) < len(ib)) if strict else (len(ia) <= len(ib))
            for i in reversed(range(n)):
                eq = self.values_eq(ia[i], ib[i])
                lt = self.less(ia[i], ib[i], True)
                res = zor(lt, zand(eq, res))
            return res
        for s_ in (a, b):
            if isinstance(s_, Struct) and s_.cls in C.STRUCT_LESS:
                return C.STRUCT_LESS[s_.cls](self, a, b, strict)
        if isinstance(a, (int, float)) and isinstance(b, (int, float)):
            return a < b if strict else a <= b
        if isinstance(a, str) and isinstance(b, str):
            return a < b if strict else a <= b
        if (is_enum(a) or isinstance(a, str)) and (is_enum(b) or isinstance(b, str)):
            return enum_less(a, b, strict)
        ta, tb = term(a), term(b)
        if z3.is_string(ta) or z3.is_string(tb):
            # code-point lexicographic order == z3 str.< on the strings used
            return (ta < tb) if strict else (ta <= tb)
        return (ta < tb) if strict else (ta <= tb)

    def contains(self, container, x):
        if isinstance(container, (tuple, PList)):
            items = container if isinstance(container, tuple) else container.items
            return zor(*[self.values_eq(x, e) for e in items])
        if isinstance(container, PSet):
            return zor(*[self.values_eq(x, e) for e in container.items])
        if isinstance(container, KDict):
            return zor(*[self.values_eq(x, k) for k, _ in container.pairs])
        if isinstance(container, PDict):
            if not isinstance(x, Sym):
                try:
                    return x in container.d
                except TypeError:
                    pass
            return zor(*[self.values_eq(x, e) for e in container.d])
        if isinstance(container, str):
            if isinstance(x, str):
                return x in container
            if is_enum(x):
                return zor(*[x.t == c for c, d in enumerate(x.enum) if d in container])
            return z3.Contains(z3.StringVal(container), term(x))
        if isinstance(container, Sym) and z3.is_string(container.t):
            return z3.Contains(container.t, term(x))
        if isinstance(container, SymSet):
            return z3.Select(container.arr, term(x))
        if isinstance(container, SymMap):
            return z3.Select(container.dom, term(x))
        if isinstance(container, SymSeq):
            if len(container.arrs) != 1:
                raise Unsupported("membership in a sequence of tuples")
            k = self.vc.fresh_int("k")
            return z3.Exists([k], z3.And(k >= 0, k < term(container.len),
                                         container.arrs[0][k] == term(x)))
        if isinstance(container, Struct):
            cm = C.STRUCT_CONTAINS.get(container.cls)
            if cm:
                return cm(self, container, x)
        raise Unsupported(f"'in' on {type(container).__name__}")

    # ------------------------------------------------------------------
    # expressions
    # ------------------------------------------------------------------
    def eval(self, node, frame):
        m = getattr(self, "e_" + type(node).__name__, None)
        if m is None:
            raise Unsupported(f"expression {type(node).__name__}")
        return m(node, frame)

    def e_Constant(self, node, frame):
        return node.value

    def e_Name(self, node, frame):
        ok, v = frame.lookup(node.id)
        if ok:
            return v
        return self.resolve_global(node.id, frame)

    def e_Tuple(self, node, frame):
        return tuple(self.eval_seq_items(node.elts, frame))

    def e_List(self, node, frame):
        return PList(self.eval_seq_items(node.elts, frame))

    def e_Set(self, node, frame):
        return PSet(self.eval_seq_items(node.elts, frame))

    def eval_seq_items(self, elts, frame):
        out = []
        for e in elts:
            if isinstance(e, ast.Starred):
                out.extend(self.iterate_concrete(self.eval(e.value, frame)))
            else:
                out.append(self.eval(e, frame))
        return out

    def e_Dict(self, node, frame):
        if node.keys and all(k is not None for k in node.keys):
            keys = [self.eval(k, frame) for k in node.keys]
            if any(isinstance(k, Sym) and k.schema for k in keys):
                from .builtins import kd_set
                d = KDict()
                for k, v in zip(keys, node.values):
                    kd_set(self, d, k, self.eval(v, frame))
                return d
        d = PDict()
        for k, v in zip(node.keys, node.values):
            if k is None:
                other = self.eval(v, frame)
                if not isinstance(other, PDict):
                    raise Unsupported("** of a non concrete dict")
                d.d.update(other.d)
            else:
                d.d[self.hashable(self.eval(k, frame))] = self.eval(v, frame)
        return d

    def hashable(self, k):
        if is_enum(k):
            return self.vc.concretize(k)
        if isinstance(k, (int, str, bool, float, type(None), ClassRef)):
            return k
        if isinstance(k, tuple):
            return tuple(self.hashable(x) for x in k)
        raise Unsupported(f"dict key {k!r} on a concrete-shape dict")

    def e_JoinedStr(self, node, frame):
        parts = []
        for v in node.values:
            if isinstance(v, ast.Constant):
                parts.append(v.value)
            else:
                val = self.eval(v.value, frame)
                if v.format_spec is not None or v.conversion not in (-1, 115):
                    raise Unsupported("f-string format spec")
                parts.append(val)
        hook = getattr(C, "FSTRING_HOOK", None)
        if hook is not None and any(isinstance(p, Struct) for p in parts):
            return hook(self, parts)
        parts = [p if isinstance(p, str) else self.to_str(p) for p in parts]
        from .builtins import str_concat
        res = ""
        for p in parts:
            res = str_concat(res, p)
        return res

    def to_str(self, val):
        if isinstance(val, Struct) and "_str" in val.f:
            return val.f["_str"]
        if isinstance(val, Sym) and val.schema and "__str__" in C.SCHEMAS[val.schema].methods:
            return C.SCHEMAS[val.schema].methods["__str__"](self, val, [], {})
        if is_enum(val):
            return self.vc.concretize(val)
        if isinstance(val, str):
            return val
        if isinstance(val, bool) or val is None:
            return str(val)
        if isinstance(val, int):
            return str(val)
        if isinstance(val, Sym):
            if z3.is_string(val.t):
                return val
            if z3.is_int(val.t):
                # str(int): exact for non-negative ints
                self.vc.notes.append("str(int) via int.to.str (non-negative)")
                if not self.vc.decide(val.t >= 0):
                    raise Unsupported("str() of a negative symbolic int")
                return Sym(z3.IntToStr(val.t))
        raise Unsupported(f"str() of {val!r}")

    def e_Lambda(self, node, frame):
        return LambdaVal(node, frame)

    def e_NamedExpr(self, node, frame):
        v = self.eval(node.value, frame)
        frame.assign(node.target.id, v)
        return v

    def e_IfExp(self, node, frame):
        if self.truth(self.eval(node.test, frame)):
            return self.eval(node.body, frame)
        return self.eval(node.orelse, frame)

    def e_BoolOp(self, node, frame):
        is_and = isinstance(node.op, ast.And)
        v = None
        for i, sub in enumerate(node.values):
            v = self.eval(sub, frame)
            if i == len(node.values) - 1:
                return v
            t = self.truth(v)
            if is_and and not t:
                return v
            if not is_and and t:
                return v
        return v

    def e_UnaryOp(self, node, frame):
        v = self.eval(node.operand, frame)
        if isinstance(node.op, ast.Not):
            return wrap(term(znot(self.truth_term(v)))) \
                if not isinstance(self.truth_term(v), bool) \
                else (not self.truth_term(v))
        if isinstance(node.op, ast.USub):
            from .builtins import arith
            return arith(self, "neg", v, None)
        if isinstance(node.op, ast.UAdd):
            return v
        raise Unsupported("unary op")

    def e_BinOp(self, node, frame):
        from .builtins import arith
        a = self.eval(node.left, frame)
        b = self.eval(node.right, frame)
        opn = type(node.op).__name__
        return arith(self, opn, a, b)

    def e_Compare(self, node, frame):
        left = self.eval(node.left, frame)
        result = True
        for op, comp in zip(node.ops, node.comparators):
            right = self.eval(comp, frame)
            r = self.compare(op, left, right)
            if len(node.ops) == 1:
                return wrap(r) if z3.is_expr(r) else r
            # chained: short circuit
            if not self.vc.decide(r):
                return False
            left = right
        return result

    def compare(self, op, a, b):
        if isinstance(op, ast.Eq):
            return self.values_eq(a, b)
        if isinstance(op, ast.NotEq):
            return znot(self.values_eq(a, b))
        if isinstance(op, ast.Is):
            return self.values_is(a, b)
        if isinstance(op, ast.IsNot):
            return znot(self.values_is(a, b))
        if isinstance(op, ast.In):
            return self.contains(b, a)
        if isinstance(op, ast.NotIn):
            return znot(self.contains(b, a))
        if isinstance(op, ast.Lt):
            return self.less(a, b, True)
        if isinstance(op, ast.LtE):
            return self.less(a, b, False)
        if isinstance(op, ast.Gt):
            return self.less(b, a, True)
        if isinstance(op, ast.GtE):
            return self.less(b, a, False)
        raise Unsupported("comparison operator")

    def e_Attribute(self, node, frame):
        obj = self.eval(node.value, frame)
        return self.getattr(obj, node.attr)

    def getattr(self, obj, name):
        from .builtins import get_attribute
        return get_attribute(self, obj, name)

    def e_Subscript(self, node, frame):
        from .builtins import subscript
        obj = self.eval(node.value, frame)
        if isinstance(node.slice, ast.Slice):
            sl = node.slice
            lo = self.eval(sl.lower, frame) if sl.lower else None
            hi = self.eval(sl.upper, frame) if sl.upper else None
            st = self.eval(sl.step, frame) if sl.step else None
            return subscript(self, obj, ("slice", lo, hi, st))
        idx = self.eval(node.slice, frame)
        return subscript(self, obj, idx)

    def e_Call(self, node, frame):
        # logger calls have no effect on results: dropped by the extraction
        if isinstance(node.func, ast.Attribute) and \
                isinstance(node.func.value, ast.Name) and \
                node.func.value.id == "logger" and "logger" not in frame:
            return None
        # super().__new__/__init__ are handled by class models
        fv = self.eval(node.func, frame)
        args = []
        for a in node.args:
            if isinstance(a, ast.Starred):
                v = self.eval(a.value, frame)
                if isinstance(v, (SymSeq,)) or (isinstance(v, Struct)):
                    args.append(("*", v))
                else:
                    args.extend(self.iterate_concrete(v))
            elif isinstance(a, ast.GeneratorExp):
                args.append(self.e_GeneratorExp(a, frame, lazy_ok=True))
            else:
                args.append(self.eval(a, frame))
        kwargs = {}
        for kw in node.keywords:
            if kw.arg is None:
                v = self.eval(kw.value, frame)
                if not isinstance(v, PDict):
                    raise Unsupported("** of a non concrete dict")
                kwargs.update(v.d)
            else:
                kwargs[kw.arg] = self.eval(kw.value, frame)
        return self.call_value(fv, args, kwargs, frame)

    # comprehensions ------------------------------------------------------
    def _comp(self, node, frame, emit):
        gens = node.generators

        def rec(i, fr):
            if i == len(gens):
                emit(fr)
                return
            g = gens[i]
            it = self.eval(g.iter, fr)
            for item in self.iterate_concrete(it):
                self.assign_target(g.target, item, fr)
                ok = True
                for cond in g.ifs:
                    if not self.truth(self.eval(cond, fr)):
                        ok = False
                        break
                if ok:
                    rec(i + 1, fr)
        fr = Frame(frame.fkey, frame.module, parent=frame)
        rec(0, fr)

    def guarded_comp(self, node, frame):
        """[elt for x in <concrete iterable> if cond]: evaluates the real element and
        condition expressions for every item WITHOUT splitting the path on the
        condition; the result is the list of (guard, element) pairs
        (Struct GuardedList).  Contracts opt in per comprehension (their consumers
        have to understand guarded lists)."""
        if len(node.generators) != 1:
            raise Unsupported("guarded comprehension with several generators")
        g = node.generators[0]
        fr = Frame(frame.fkey, frame.module, parent=frame)
        out = []
        for item in self.iterate_concrete(self.eval(g.iter, fr)):
            self.assign_target(g.target, item, fr)
            guard = zand(*[self.truth_term(self.eval(c, fr)) for c in g.ifs]) if g.ifs else True
            out.append((guard, self.eval(node.elt, fr)))
        return Struct("GuardedList", items=out)

    def e_ListComp(self, node, frame):
        hook = self._comp_model(node, frame)
        if hook is not None:
            return hook
        sym = self._symbolic_comp(node, frame)
        if sym is not None:
            return sym
        out = []
        self._comp(node, frame, lambda fr: out.append(self.eval(node.elt, fr)))
        return PList(out)

    def e_GeneratorExp(self, node, frame, lazy_ok=False):
        if not lazy_ok:
            # a generator expression that is not consumed by the call it is an
            # argument of (stored in a variable / container, returned) is
            # evaluated lazily by Python, i.e. against the LATER state: not modelled -
            # unless the contract supplies a model that discharges the side conditions
            # of eager evaluation itself (marked `handles_lazy`)
            hook = self._comp_model(node, frame, lazy=True)
            if hook is not None:
                return hook
            raise Unsupported("generator expression that is not consumed immediately "
                              f"({ast.unparse(node)[:70]}): lazy evaluation is outside the modelled subset")
        hook = self._comp_model(node, frame)
        if hook is not None:
            return hook
        sym = self._symbolic_comp(node, frame)
        if sym is not None:
            return sym
        out = []
        self._comp(node, frame, lambda fr: out.append(self.eval(node.elt, fr)))
        return PList(out)

    def e_SetComp(self, node, frame):
        hook = self._comp_model(node, frame)
        if hook is not None:
            return hook
        out = []
        self._comp(node, frame, lambda fr: out.append(self.eval(node.elt, fr)))
        return PSet(out)

    def e_DictComp(self, node, frame):
        hook = self._comp_model(node, frame)
        if hook is not None:
            return hook
        items = []
        self._comp(node, frame, lambda fr: items.append((self.eval(node.key, fr), self.eval(node.value, fr))))
        if any(isinstance(k, Sym) and k.schema for k, _ in items):
            from .builtins import kd_set
            kd = KDict()
            for k, v in items:
                kd_set(self, kd, k, v)
            return kd
        d = PDict()
        for k, v in items:
            d.d[self.hashable(k)] = v
        return d

    def _comp_model(self, node, frame, lazy=False):
        """contract supplied model of a comprehension over a symbolic
        collection (keyed by the unparsed comprehension text)"""
        f = frame
        key = None
        while f is not None and key is None:
            key = f.fkey
            f = f.parent
        con = C.REGISTRY.get(key) or C.REGISTRY.get(self.top_key)
        models = getattr(con, "comprehensions", None) if con is not None else None
        if not models:
            return None
        text = ast.unparse(node)
        for pat, fn in models.items():
            if pat in text and (not lazy or getattr(fn, "handles_lazy", False)):
                return fn(self, frame, node)
        return None

    def _symbolic_comp(self, node, frame):
        """[elt for x in <symbolic seq>] (single generator): handled as a
        quantified comprehension object `CompVal` that `all`/`any`/`sum`-like
        consumers and contracts understand."""
        if len(node.generators) != 1:
            return None
        g = node.generators[0]
        it = self.eval(g.iter, frame)
        if not isinstance(it, (SymSeq, SymSet, SymMap)) and not \
                (isinstance(it, Struct) and it.cls in C.SYMBOLIC_ITERABLES):
            # concrete: make sure evaluation of the iterable is not repeated
            node._pyvc_iter = None
            return None
        from .builtins import CompVal
        return CompVal(node, frame, it)

    # iteration over concrete shapes ------------------------------------
    def iterate_concrete(self, v):
        if is_enum(v):
            v = self.vc.concretize(v)
        if isinstance(v, tuple):
            return list(v)
        if isinstance(v, PList):
            return list(v.items)
        if isinstance(v, PSet):
            return list(v.items)
        if isinstance(v, PDict):
            return list(v.d.keys())
        if isinstance(v, KDict):
            return [k for k, _ in v.pairs]
        if isinstance(v, str):
            return list(v)
        if isinstance(v, range):
            return list(v)
        if isinstance(v, SymSeq) and isinstance(v.len, int):
            from .builtins import seq_get
            return [seq_get(self, v, i) for i in range(v.len)]
        if isinstance(v, Struct):
            itm = C.STRUCT_ITER.get(v.cls)
            if itm:
                return itm(self, v)
        raise Unsupported(f"iteration over {type(v).__name__} needs a loop contract")

    # ------------------------------------------------------------------
    # statements
    # ------------------------------------------------------------------
    def exec_block(self, stmts, frame):
        for s in stmts:
            self.exec(s, frame)

    def exec(self, node, frame):
        m = getattr(self, "s_" + type(node).__name__, None)
        if m is None:
            raise Unsupported(f"statement {type(node).__name__}")
        return m(node, frame)

    def s_Pass(self, node, frame):
        pass

    def s_Expr(self, node, frame):
        if isinstance(node.value, ast.Constant):
            return   # docstring
        self.eval(node.value, frame)

    def s_Return(self, node, frame):
        raise ReturnEx(self.eval(node.value, frame) if node.value else None)

    def s_Break(self, node, frame):
        raise BreakEx()

    def s_Continue(self, node, frame):
        raise ContinueEx()

    def s_Global(self, node, frame):
        raise Unsupported("global statement")

    def s_Nonlocal(self, node, frame):
        frame.nonlocals.update(node.names)

    def s_Import(self, node, frame):
        self.src._scan_imports(frame.module, [node], frame.local_imports)

    def s_ImportFrom(self, node, frame):
        self.src._scan_imports(frame.module, [node], frame.local_imports)

    def s_FunctionDef(self, node, frame):
        key = f"{frame.fkey}.{node.name}"
        if key not in self.src.functions:
            raise Unsupported(f"nested function {key} not in table")
        frame.assign(node.name, FuncRef(key, closure=frame))

    def s_Assign(self, node, frame):
        v = self.eval(node.value, frame)
        for t in node.targets:
            self.assign_target(t, v, frame)

    def s_AnnAssign(self, node, frame):
        if node.value is not None:
            self.assign_target(node.target, self.eval(node.value, frame), frame)

    def s_AugAssign(self, node, frame):
        from .builtins import arith, inplace
        t = node.target
        opn = type(node.op).__name__
        if isinstance(t, ast.Name):
            cur = self.eval(t, frame)
            rhs = self.eval(node.value, frame)
            done, res = inplace(self, opn, cur, rhs)
            if not done:
                res = arith(self, opn, cur, rhs)
            frame.assign(t.id, res)
        elif isinstance(t, ast.Subscript):
            from .builtins import subscript, store_subscript
            obj = self.eval(t.value, frame)
            idx = self.eval(t.slice, frame)
            cur = subscript(self, obj, idx)
            rhs = self.eval(node.value, frame)
            done, res = inplace(self, opn, cur, rhs)
            if not done:
                res = arith(self, opn, cur, rhs)
            store_subscript(self, obj, idx, res)
        elif isinstance(t, ast.Attribute):
            obj = self.eval(t.value, frame)
            cur = self.getattr(obj, t.attr)
            rhs = self.eval(node.value, frame)
            done, res = inplace(self, opn, cur, rhs)
            if not done:
                res = arith(self, opn, cur, rhs)
            self.setattr(obj, t.attr, res)
        else:
            raise Unsupported("augmented assignment target")

    def setattr(self, obj, name, v):
        if isinstance(obj, Inst):
            obj.attrs[name] = v
        elif isinstance(obj, Struct):
            obj.f[name] = v
        else:
            raise Unsupported(f"attribute store on {type(obj).__name__}")

    def assign_target(self, t, v, frame):
        if isinstance(t, ast.Name):
            frame.assign(t.id, v)
        elif isinstance(t, (ast.Tuple, ast.List)):
            items = self.unpack(v, len(t.elts))
            for sub, item in zip(t.elts, items):
                self.assign_target(sub, item, frame)
        elif isinstance(t, ast.Subscript):
            from .builtins import store_subscript
            obj = self.eval(t.value, frame)
            if isinstance(t.slice, ast.Slice):
                raise Unsupported("slice assignment")
            idx = self.eval(t.slice, frame)
            store_subscript(self, obj, idx, v)
        elif isinstance(t, ast.Attribute):
            obj = self.eval(t.value, frame)
            self.setattr(obj, t.attr, v)
        else:
            raise Unsupported("assignment target")

    def unpack(self, v, n):
        if v is None:
            raise RaiseEx("TypeError", "cannot unpack None")
        items = self.iterate_concrete(v)
        if len(items) != n:
            raise RaiseEx("ValueError", "unpack")
        return items

    def s_Delete(self, node, frame):
        for t in node.targets:
            if isinstance(t, ast.Subscript):
                obj = self.eval(t.value, frame)
                idx = self.eval(t.slice, frame)
                from .builtins import delete_subscript
                delete_subscript(self, obj, idx)
            elif isinstance(t, ast.Name):
                frame.locals.pop(t.id, None)
            else:
                raise Unsupported("del target")

    def s_If(self, node, frame):
        if self.truth(self.eval(node.test, frame)):
            self.exec_block(node.body, frame)
        else:
            self.exec_block(node.orelse, frame)

    def s_Assert(self, node, frame):
        if not self.truth(self.eval(node.test, frame)):
            raise RaiseEx("AssertionError", "assert")

    def s_Raise(self, node, frame):
        if node.exc is None:
            raise Unsupported("bare raise")
        e = node.exc
        if isinstance(e, ast.Call):
            e = e.func
        if isinstance(e, ast.Name):
            name = e.id
        elif isinstance(e, ast.Attribute):
            name = e.attr
        else:
            raise Unsupported("raise of a computed exception")
        ok, v = frame.lookup(name)
        if ok and isinstance(v, Struct) and v.cls == "exception":
            name = v.f["name"]
        raise RaiseEx(name, "raise")

    @staticmethod
    def exc_matches(exc, handler_type):
        if handler_type is None:
            return True
        names = []
        if isinstance(handler_type, ast.Tuple):
            for e in handler_type.elts:
                names.append(e.id if isinstance(e, ast.Name) else e.attr)
        elif isinstance(handler_type, ast.Name):
            names.append(handler_type.id)
        elif isinstance(handler_type, ast.Attribute):
            names.append(handler_type.attr)
        for n in names:
            if n == exc or n in EXC_HIER.get(exc, ["Exception"]):
                return True
        return False

    def s_Try(self, node, frame):
        if node.finalbody:
            raise Unsupported("try/finally")
        try:
            self.exec_block(node.body, frame)
        except RaiseEx as ex:
            for h in node.handlers:
                if self.exc_matches(ex.exc, h.type):
                    if h.name:
                        frame.assign(h.name, Struct("exception", name=ex.exc))
                    self.exec_block(h.body, frame)
                    return
            raise
        else:
            self.exec_block(node.orelse, frame)

    # loops ------------------------------------------------------------------
    def loop_contract(self, node, frame):
        top = frame
        ordinals = None
        while top is not None and ordinals is None:
            ordinals = getattr(top, "loop_ordinals", None)
            key = top.fkey
            top = top.parent
        if ordinals is None or id(node) not in ordinals:
            return None
        con = C.REGISTRY.get(key)
        if con is None:
            return None
        lc = con.loops.get(ordinals[id(node)])
        if lc is None:
            return None
        if lc.header is not None:
            hdr = ast.unparse(node.iter) if isinstance(node, ast.For) \
                else ast.unparse(node.test)
            if lc.header not in hdr:
                raise Unsupported(
                    f"loop contract #{ordinals[id(node)]} of {key} expects "
                    f"header containing {lc.header!r}, found {hdr!r}")
        return lc

    def s_For(self, node, frame):
        from .builtins import SymIter, make_symiter
        it = self.eval(node.iter, frame)
        si = make_symiter(self, it)
        if si is None:
            items = self.iterate_concrete(it)
            broke = False
            for item in items:
                self.assign_target(node.target, item, frame)
                try:
                    self.exec_block(node.body, frame)
                except ContinueEx:
                    continue
                except BreakEx:
                    broke = True
                    break
            if not broke:
                self.exec_block(node.orelse, frame)
            return
        lc = self.loop_contract(node, frame)
        if lc is None:
            raise Unsupported("loop over a symbolic collection without loop "
                              f"contract: for ... in {ast.unparse(node.iter)}")
        vc = self.vc
        lname = f"loop{frame_loop_ordinal(frame, node)}"
        inst = getattr(si, "instantiate", None)
        if inst is not None:
            inst(vc, 0)
        for n, f in lc.iter_spec(vc, frame, si):
            vc.check(f"loop.iter#{lname}.{n}", f)
        for n, f in lc.invariant(vc, frame, 0, si):
            if not n.startswith("@instance"):
                vc.check(f"inv.init#{lname}.{n}", f)
        branch = vc.choose(2, "loop")
        if branch == 0:
            # an arbitrary iteration
            k = vc.fresh_int("k")
            vc.assume(z3.And(k >= 0, k < term(si.length())))
            if inst is not None:
                inst(vc, k)
            before = frame_snapshot(frame)
            lc.havoc(vc, frame, k, si)
            check_loop_frame(node, frame, lc, before)
            for _n, f in lc.invariant(vc, frame, k, si):
                vc.assume(f)
            if not vc.feasible():
                raise PathEnd()
            vc.cover(f"{lname}.body")
            self.assign_target(node.target, si.item(self, k), frame)
            try:
                self.exec_block(node.body, frame)
            except ContinueEx:
                pass
            except BreakEx:
                for n, f in lc.at_break(vc, frame, k, si):
                    vc.check(f"inv.break#{lname}.{n}", f)
                return
            for n, f in lc.invariant(vc, frame, k + 1, si):
                # "@instance": a further instantiation point of a clause that
                # is proved for an arbitrary element; only ever assumed
                if not n.startswith("@instance"):
                    vc.check(f"inv.keep#{lname}.{n}", f)
            raise PathEnd()
        else:
            before = frame_snapshot(frame)
            lc.havoc(vc, frame, si.length(), si)
            check_loop_frame(node, frame, lc, before)
            for _n, f in lc.invariant(vc, frame, si.length(), si):
                vc.assume(f)
            if not vc.feasible():
                raise PathEnd()
            vc.cover(f"{lname}.exit")
            self.exec_block(node.orelse, frame)

    def s_While(self, node, frame):
        lc = self.loop_contract(node, frame)
        if lc is None:
            # try bounded concrete execution (only if the condition stays
            # concrete): otherwise unsupported
            n = 0
            while True:
                c = self.truth_term(self.eval(node.test, frame))
                if not isinstance(c, bool):
                    raise Unsupported("while loop with symbolic condition "
                                      "needs a loop contract")
                if not c:
                    break
                n += 1
                if n > 2000:
                    raise Unsupported("concrete while loop does not terminate")
                try:
                    self.exec_block(node.body, frame)
                except ContinueEx:
                    continue
                except BreakEx:
                    return
            self.exec_block(node.orelse, frame)
            return
        vc = self.vc
        lname = f"loop{frame_loop_ordinal(frame, node)}"
        for n, f in lc.invariant(vc, frame, 0, None):
            vc.check(f"inv.init#{lname}.{n}", f)
        branch = vc.choose(2, "loop")
        k = vc.fresh_int("k")
        vc.assume(k >= 0)
        before = frame_snapshot(frame)
        lc.havoc(vc, frame, k, None)
        check_loop_frame(node, frame, lc, before)
        for _n, f in lc.invariant(vc, frame, k, None):
            vc.assume(f)
        if not vc.feasible():
            raise PathEnd()
        cond = self.truth(self.eval(node.test, frame))
        if branch == 0:
            if not cond:
                raise PathEnd()
            vc.cover(f"{lname}.body")
            dec0 = lc.decreases(vc, frame) if lc.decreases else None
            try:
                self.exec_block(node.body, frame)
            except ContinueEx:
                pass
            except BreakEx:
                for n, f in lc.at_break(vc, frame, k, None):
                    vc.check(f"inv.break#{lname}.{n}", f)
                return
            for n, f in lc.invariant(vc, frame, k + 1, None):
                vc.check(f"inv.keep#{lname}.{n}", f)
            if dec0 is not None:
                dec1 = lc.decreases(vc, frame)
                vc.check(f"decreases#{lname}",
                         zand(term(dec1) < term(dec0), term(dec0) > 0))
            raise PathEnd()
        else:
            if cond:
                raise PathEnd()
            vc.cover(f"{lname}.exit")
            self.exec_block(node.orelse, frame)


_MUTATORS = {"append", "extend", "add", "update", "clear", "pop", "remove", "insert", "setdefault",
             "sort", "reverse", "discard", "popitem", "appendleft"}


def loop_written_names(node):
    """names that the loop body (re)binds or mutates in place (syntactic);
    comprehension variables and the bodies of nested function definitions
    are not part of the enclosing scope"""
    names = set()

    def base(t):
        while isinstance(t, (ast.Subscript, ast.Attribute, ast.Starred)):
            t = t.value
        return t.id if isinstance(t, ast.Name) else None

    def targets(t):
        if isinstance(t, (ast.Tuple, ast.List)):
            for e in t.elts:
                targets(e)
        else:
            b = base(t)
            if b is not None:
                names.add(b)

    class V(ast.NodeVisitor):
        def visit_Assign(self, n):
            for t in n.targets:
                targets(t)
            self.generic_visit(n)

        def visit_AugAssign(self, n):
            targets(n.target)
            self.generic_visit(n)

        def visit_AnnAssign(self, n):
            if n.value is not None:
                targets(n.target)
            self.generic_visit(n)

        def visit_NamedExpr(self, n):
            targets(n.target)
            self.generic_visit(n)

        def visit_For(self, n):
            targets(n.target)
            self.generic_visit(n)

        def visit_Delete(self, n):
            for t in n.targets:
                targets(t)

        def visit_With(self, n):
            for it in n.items:
                if it.optional_vars is not None:
                    targets(it.optional_vars)
            self.generic_visit(n)

        def visit_Call(self, n):
            if isinstance(n.func, ast.Attribute) and n.func.attr in _MUTATORS:
                b = base(n.func.value)
                if b is not None and isinstance(n.func.value, (ast.Name, ast.Subscript)):
                    names.add(b)
            self.generic_visit(n)

        def visit_FunctionDef(self, n):
            names.add(n.name)

        def visit_Lambda(self, n):
            pass

        def visit_ListComp(self, n):
            for g in n.generators:
                self.visit(g.iter)

        visit_SetComp = visit_DictComp = visit_GeneratorExp = visit_ListComp

    v = V()
    for st in list(node.body) + list(node.orelse):
        v.visit(st)
    own = set()
    if isinstance(node, ast.For):
        saved, names = names, set()
        targets(node.target)
        own, names = names, saved
    return names, own


def frame_snapshot(frame):
    snap = {}
    f = frame
    while f is not None:
        for k, v in f.locals.items():
            snap.setdefault(k, id(v))
        f = f.parent
    return snap


def check_loop_frame(node, frame, lc, before):
    """every name the loop body writes has to be in the frame (modifies
    clause) of the loop contract: replaced / removed by its `havoc`, or listed
    in `modifies` / `scratch`.  Anything else would silently keep its
    pre-loop value in the arbitrary iteration."""
    after = frame_snapshot(frame)
    declared = {k for k in set(before) | set(after) if before.get(k) != after.get(k)}
    declared |= set(getattr(lc, "modifies", ())) | set(getattr(lc, "scratch", ()))
    written, own = loop_written_names(node)
    missing = sorted(n for n in written - own - declared
                     if n in before or n in after)
    if missing:
        raise Unsupported("the loop writes " + ", ".join(missing) + ": outside the frame "
                          "(modifies clause) of its loop contract")


def frame_loop_ordinal(frame, node):
    f = frame
    while f is not None:
        o = getattr(f, "loop_ordinals", None)
        if o is not None and id(node) in o:
            return o[id(node)]
        f = f.parent
    return "?"
