"""C16 - contraction schemes.  Contracts on
adcgen.generate_code.contraction:Contraction._split_contracted_and_target /
_determine_contracted_and_target / _determine_scaling."""
import z3
from pyvc import contract as C
from pyvc.contract import Contract, LoopContract, register
from pyvc.values import (Struct, Sym, SymSeq, SymMap, PList, PDict, Inst, term, wrap, zand,
                         zor, znot, zeq, Unsupported)
from pyvc.vc import RaiseEx
from spec.idx import IdxSort, idx_space, SPACES, new_index

ASSUMPTIONS = [
    "collections.Counter(iterable) maps every element to its number of occurrences; itertools.chain.from_iterable concatenates (language library semantics)",
    "every Index belongs to exactly one of the three spaces (sum over the spaces of the per-space counts = length)",
    "Obj.longname / Obj.idx / base_and_exponent (inputs of optimize_contractions) are not under contract",
    "optimize_contractions: the scheme search _optimize_contractions (a generator function) is an assumed callee that yields an arbitrary number of schemes; ranking proved for schemes of 1, 2 and 3 contractions (all schemes of one run of equal length) with arbitrary integer scalings; ranking_key(k, .) names the list the code builds for scheme k (ghost definition), which is compared with the documented ranking; ties between equally ranked schemes are not constrained; terms of 0-2 objects of every kind (number, symbol, tensor with exponent 1-3 or -1, delta, other) and one term of three objects",
    "integer max()/min() are evaluated as if-then-else terms (no path split)",
]
TRUSTED = []
CK = "adcgen.generate_code.contraction:Contraction"
CNT = z3.Function("occurrences", z3.DeclareSort("IdxTuples"), IdxSort, z3.IntSort())
TuplesSort = CNT.domain(0)
IdxSet = z3.ArraySort(IdxSort, z3.BoolSort())


# --- models ---------------------------------------------------------------------
def model_chain_from_iterable(ip, args, kwargs):
    v = args[0]
    if isinstance(v, Struct) and v.cls == "IdxTuples":
        return Struct("Chain", src=v)
    raise Unsupported("chain.from_iterable of a concrete collection")


def model_Counter(ip, args, kwargs):
    v = args[0]
    if isinstance(v, Struct) and v.cls == "Chain":
        t = v.f["src"].f["t"]
        x = z3.Const("x!cnt", IdxSort)
        cnt = z3.Lambda([x], CNT(t, x))
        dom = z3.Lambda([x], CNT(t, x) >= 1)
        return SymMap(dom, [cnt], ("sym", z3.IntSort()), key_schema="Index")
    if isinstance(v, Struct) and v.cls == "SpaceOf":
        return Struct("SpaceCounter", seq=v.f["seq"])
    raise Unsupported("Counter of this iterable")


C.EXTERNALS["itertools.chain.from_iterable"] = model_chain_from_iterable
C.EXTERNALS["collections.Counter"] = model_Counter

# list built by append only, abstracted by its membership set
def listset_append(ip, obj, args, kwargs):
    x = args[0]
    ip.vc.check("append#no-duplicate-entry", z3.Not(obj.f["mem"][x.t]))
    obj.f["mem"] = z3.Store(obj.f["mem"], x.t, True)
    return None


C.STRUCT_METHODS[("ListSet", "append")] = listset_append
C.STRUCT_CONTAINS["IdxSetView"] = lambda ip, o, x: z3.Select(o.f["mem"], x.t)


def members(v):
    """membership array of a PList (concrete, empty) / ListSet"""
    if isinstance(v, PList):
        a = z3.K(IdxSort, False)
        for it in v.items:
            a = z3.Store(a, it.t, True)
        return a
    return v.f["mem"]


def is_target_spec(tuples_t, tt, x):
    """an index of the contraction is a target index iff it occurs once or is
    a target index of the term"""
    return z3.Or(CNT(tuples_t, x) == 1, tt[x])


class SplitLoop(LoopContract):
    def iter_spec(self, vc, frame, seq):
        ok = seq.kind == "mapitems" and seq.map is frame["idx_counter"]
        return [("runs-over-the-counted-indices", ok)]

    def havoc(self, vc, frame, k, seq):
        for nm in ("contracted", "target"):
            frame[nm] = Struct("ListSet", mem=vc.fresh(nm, IdxSet))
        for nm in ("idx", "count"):
            frame.locals.pop(nm, None)
        vc.ghost["_split_iter"] = seq



def _split_invariant_full(self, vc, frame, k, seq):
    """invariant instantiated at the arbitrary element x0 and at the loop's
    current / previous element"""
    t = frame["indices"].f["t"]
    tt = frame["term_target_indices"].f["mem"]
    kk = term(k)
    done = seq.done[kk]
    mc, mt = members(frame["contracted"]), members(frame["target"])
    out = []
    for name, x in (("processed-indices-are-split-by-the-rule", vc.ghost["_x0"]),
                    ("@instance:current-index", seq.enum[kk])):
        out.append((name,
                    z3.And(mc[x] == z3.And(done[x], z3.Not(is_target_spec(t, tt, x))),
                           mt[x] == z3.And(done[x], is_target_spec(t, tt, x)))))
    return out


SplitLoop.invariant = _split_invariant_full


@register
class SplitContractedAndTarget(Contract):
    key = CK + "._split_contracted_and_target"
    props = ["C16"]
    loops = {0: SplitLoop()}

    def setup(self, vc):
        t = vc.fresh("indices", TuplesSort)
        tt = vc.fresh("term_targets", IdxSet)
        x = z3.Const("x!a", IdxSort)
        vc.assume(z3.ForAll([x], CNT(t, x) >= 0))
        vc.ghost["_x0"] = vc.fresh("x0", IdxSort)
        return {"indices": Struct("IdxTuples", t=t),
                "term_target_indices": Struct("IdxSetView", mem=tt)}

    def post(self, vc, a, result):
        if not (isinstance(result, tuple) and len(result) == 2):
            return [("returns-(contracted, target)", False)]
        contracted, target = result
        t, tt = a["indices"].f["t"], a["term_target_indices"].f["mem"]
        x = vc.ghost["_x0"]
        mc, mt = members(contracted), members(target)
        occurs = CNT(t, x) >= 1
        return [
            ("contracted-iff-occurs-at-least-twice-and-not-a-term-target",
             mc[x] == z3.And(CNT(t, x) >= 2, z3.Not(tt[x]))),
            ("target-iff-occurs-once-or-is-a-term-target",
             mt[x] == z3.And(occurs, z3.Or(CNT(t, x) == 1, tt[x]))),
            ("partition-of-the-occurring-indices",
             z3.And(z3.Or(mc[x], mt[x]) == occurs, z3.Not(z3.And(mc[x], mt[x])))),
        ]


# --- scaling ----------------------------------------------------------------------
SeqId = z3.DeclareSort("IdxSeq")
CNTSP = z3.Function("count_in_space", SeqId, z3.IntSort(), z3.IntSort())
SEQLEN = z3.Function("seq_len", SeqId, z3.IntSort())


def space_counter_subscript(ip, obj, idx):
    sp = ip.vc.concretize(idx) if not isinstance(idx, str) else idx
    return wrap(CNTSP(obj.f["seq"].f["t"], SPACES.index(sp)))


C.STRUCT_SUBSCRIPT["SpaceCounter"] = space_counter_subscript
C.STRUCT_LEN["IdxSeqV"] = lambda ip, v: wrap(SEQLEN(v.f["t"]))
C.SYMBOLIC_ITERABLES.add("IdxSeqV")


def _space_comp(ip, frame, node):
    """Counter(idx.space for idx in <index sequence>)"""
    it = ip.eval(node.generators[0].iter, frame)
    if isinstance(it, Struct) and it.cls == "IdxSeqV":
        return Struct("SpaceOf", seq=it)
    return None


def model_ScalingComponent(ip, args, kwargs):
    return Struct("ScalingComponent", **kwargs)


def model_Scaling(ip, args, kwargs):
    return Struct("Scaling", **kwargs)


C.CLASS_MODELS["adcgen.generate_code.contraction:ScalingComponent"] = model_ScalingComponent
C.CLASS_MODELS["adcgen.generate_code.contraction:Scaling"] = model_Scaling


@register
class DetermineScaling(Contract):
    key = CK + "._determine_scaling"
    props = ["C16"]
    comprehensions = {"idx.space for idx in self.contracted": _space_comp,
                      "idx.space for idx in self.target": _space_comp}

    def setup(self, vc):
        c, t = vc.fresh("contracted", SeqId), vc.fresh("target", SeqId)
        for s in (c, t):
            vc.assume(z3.And(*[CNTSP(s, k) >= 0 for k in range(3)]))
            vc.assume(CNTSP(s, 0) + CNTSP(s, 1) + CNTSP(s, 2) == SEQLEN(s))
        return {"self": Inst(CK, {"contracted": Struct("IdxSeqV", t=c),
                                  "target": Struct("IdxSeqV", t=t), "scaling": None})}

    def post(self, vc, a, result):
        sc = a["self"].attrs.get("scaling")
        if not (isinstance(sc, Struct) and sc.cls == "Scaling"):
            return [("scaling-is-set", False)]
        comp, mem = sc.f.get("computational"), sc.f.get("memory")
        c, t = a["self"].attrs["contracted"].f["t"], a["self"].attrs["target"].f["t"]
        out = []
        for s in SPACES:
            k = SPACES.index(s)
            out.append((f"computational[{s}]-counts-contracted-plus-target-indices",
                        zeq(comp.f[s], CNTSP(c, k) + CNTSP(t, k))))
            out.append((f"memory[{s}]-counts-target-indices", zeq(mem.f[s], CNTSP(t, k))))
        out.append(("computational-total-is-number-of-indices",
                    zeq(comp.f["total"], SEQLEN(c) + SEQLEN(t))))
        out.append(("memory-total-is-number-of-target-indices", zeq(mem.f["total"], SEQLEN(t))))
        return out


# --- _determine_contracted_and_target ------------------------------------------------
def _split_fresh_result(self, vc, a):
    t, tt = a["indices"].f["t"], a["term_target_indices"].f["mem"]
    x = z3.Const("x!r", IdxSort)
    mc = z3.Lambda([x], z3.And(CNT(t, x) >= 2, z3.Not(tt[x])))
    mt = z3.Lambda([x], z3.And(CNT(t, x) >= 1, z3.Or(CNT(t, x) == 1, tt[x])))
    return (Struct("ListSet", mem=mc), Struct("ListSet", mem=mt))


SplitContractedAndTarget.fresh_result = _split_fresh_result
_orig_split_post = SplitContractedAndTarget.post


def _split_post(self, vc, a, result):
    if a.get("_callsite"):
        return []
    return _orig_split_post(self, vc, a, result)


SplitContractedAndTarget.post = _split_post


def model_sorted_idx(ip, args, kwargs):
    v = args[0]
    key = kwargs.get("key")
    from pyvc.values import FuncRef
    canonical = isinstance(key, FuncRef) and key.key == "adcgen.indices:sort_idx_canonical"
    if isinstance(v, Struct) and v.cls in ("ListSet", "IdxSetView"):
        return Struct("SortedIdx", mem=v.f["mem"], canonical=canonical)
    return None


def sorted_eq(ip, a, b):
    if isinstance(a, Struct) and isinstance(b, Struct) and a.cls == b.cls == "SortedIdx":
        # two duplicate free lists sorted with the same injective key are
        # equal iff they have the same elements
        return a.f["mem"] == b.f["mem"]
    return a is b


C.STRUCT_EQ["SortedIdx"] = sorted_eq


@register
class DetermineContractedAndTarget(Contract):
    key = CK + "._determine_contracted_and_target"
    props = ["C16"]

    def setup(self, vc):
        from pyvc.builtins import BUILTINS, b_sorted, b_tuple
        from pyvc.values import PyFunc

        def sorted_model(ip, args, kwargs):
            r = model_sorted_idx(ip, args, kwargs)
            return r if r is not None else b_sorted(ip, args, kwargs)

        def tuple_model(ip, args, kwargs):
            if args and isinstance(args[0], Struct) and args[0].cls in ("SortedIdx", "IdxSetView"):
                return args[0]
            return b_tuple(ip, args, kwargs)
        vc.ip.builtins = dict(vc.ip.builtins, sorted=PyFunc(sorted_model, "sorted"),
                              tuple=PyFunc(tuple_model, "tuple"))
        t = vc.fresh("indices", TuplesSort)
        tt = vc.fresh("term_targets", IdxSet)
        x = z3.Const("x!a", IdxSort)
        vc.assume(z3.ForAll([x], CNT(t, x) >= 0))
        vc.ghost["_x0"] = vc.fresh("x0", IdxSort)
        term_targets = Struct("IdxSetView", mem=tt)
        return {"self": Inst(CK, {"indices": Struct("IdxTuples", t=t)}),
                "term_target_indices": term_targets}

    def post(self, vc, a, result):
        me = a["self"].attrs
        t, tt = me["indices"].f["t"], a["term_target_indices"].f["mem"]
        c, tg = me.get("contracted"), me.get("target")
        x = vc.ghost["_x0"]
        spec_c = z3.And(CNT(t, x) >= 2, z3.Not(tt[x]))
        spec_t = z3.And(CNT(t, x) >= 1, z3.Or(CNT(t, x) == 1, tt[x]))
        out = []
        if not (isinstance(c, Struct) and c.cls == "SortedIdx"):
            return [("contracted-is-the-sorted-list-of-summed-indices", False)]
        out.append(("contracted-holds-exactly-the-summed-indices", c.f["mem"][x] == spec_c))
        out.append(("contracted-in-canonical-order", c.f["canonical"]))
        if tg is a["term_target_indices"]:
            # replaced by the term's own target tuple: same elements
            out.append(("term-target-order-used-only-for-the-same-index-set", tt[x] == spec_t))
        elif isinstance(tg, Struct) and tg.cls == "SortedIdx":
            out.append(("target-holds-exactly-the-remaining-indices", tg.f["mem"][x] == spec_t))
            out.append(("target-in-canonical-order", tg.f["canonical"]))
            xs = vc.fresh("xs", IdxSort)
            out.append(("requested-target-order-is-used-when-the-index-sets-coincide",
                        z3.Not(z3.ForAll([xs], tt[xs] == z3.And(CNT(t, xs) >= 1, z3.Or(CNT(t, xs) == 1, tt[xs]))))))
        else:
            out.append(("target-shape", False))
        return out


# --- _group_objects: the limit on simultaneously contracted objects ---------------------
# Abstraction: index tuples, occurrence tables and position sets are opaque; of a set of
# positions only its cardinality is tracked.  Proved: every group that is stored (and
# therefore every group that is returned) has at most `max_group_size` members, for any
# number of objects and any number of growth steps.
GK = "adcgen.generate_code.optimize_contractions:_group_objects"
ASSUMPTIONS.append("_group_objects: position sets are abstracted by their cardinality; "
                   "itertools.combinations(enumerate(x), 2) yields pairs ((p1, x[p1]), (p2, x[p2])) with p1 < p2")


def _fresh_card(vc, name):
    c = vc.fresh_int(name)
    vc.assume(c >= 0)
    return c


def _objidx_symiter(ip, obj):
    from pyvc.builtins import SymIter
    return SymIter("objidx", obj, Sym(obj.f["n"]),
                   lambda ip_, k: Struct("IdxTupleV", pos=term(k)))


def _idxtuple_symiter(ip, obj):
    from pyvc.builtins import SymIter
    vc = ip.vc
    return SymIter("idxtuple", obj, Sym(_fresh_card(vc, "rank")),
                   lambda ip_, k: new_index(ip_.vc, "gidx"))


def _pairs_symiter(ip, obj):
    from pyvc.builtins import SymIter
    vc = ip.vc
    n = obj.f["n"]

    def item(ip_, k):
        p1, p2 = ip_.vc.fresh_int("pos1"), ip_.vc.fresh_int("pos2")
        ip_.vc.assume(z3.And(0 <= p1, p1 < p2, p2 < n))
        return ((Sym(p1), Struct("IdxTupleV", pos=p1)), (Sym(p2), Struct("IdxTupleV", pos=p2)))
    return SymIter("pairs", obj, Sym(_fresh_card(vc, "npairs")), item)


C.STRUCT_SYMITER["ObjIdxSeq"] = _objidx_symiter
C.STRUCT_SYMITER["IdxTupleV"] = _idxtuple_symiter
C.STRUCT_SYMITER["PairsV"] = _pairs_symiter
C.STRUCT_LEN["ObjIdxSeq"] = lambda ip, v: Sym(v.f["n"])
C.STRUCT_LEN["PosSet"] = lambda ip, v: Sym(v.f["card"])
C.STRUCT_LEN["KeyV"] = lambda ip, v: Sym(v.f["card"])
C.STRUCT_CONTAINS["OccMap"] = lambda ip, o, x: ip.vc.fresh_bool("seen")
C.STRUCT_STORE["OccMap"] = lambda ip, obj, idx, v: None
C.STRUCT_SUBSCRIPT["OccMap"] = lambda ip, obj, idx: Struct("PosListV")
C.STRUCT_METHODS[("PosListV", "append")] = lambda ip, obj, args, kwargs: None
C.STRUCT_TRUTH["ListSet"] = lambda ip, v: ip.vc.fresh_bool("nonempty")
C.STRUCT_EQ["ListSet"] = lambda ip, a, b: (a.f["mem"] == b.f["mem"]) \
    if isinstance(a, Struct) and isinstance(b, Struct) and a.cls == b.cls else (a is b)
C.STRUCT_CONTAINS["GroupsV"] = lambda ip, o, x: ip.vc.fresh_bool("known_group")


def _posset_eq(ip, a, b):
    if not (isinstance(a, Struct) and isinstance(b, Struct) and a.cls == b.cls == "PosSet"):
        return a is b
    e = ip.vc.fresh_bool("same_positions")
    ip.vc.assume(z3.Implies(e, a.f["card"] == b.f["card"]))
    return e


C.STRUCT_EQ["PosSet"] = _posset_eq


def _groups_store(ip, obj, key, v):
    vc = ip.vc
    ok = isinstance(key, Struct) and key.cls == "KeyV"
    vc.check("store#stored-group-has-at-most-max_group_size-objects",
             (key.f["card"] <= term(obj.f["max"])) if ok else False)
    return None


C.STRUCT_STORE["GroupsV"] = _groups_store
C.STRUCT_METHODS[("GroupsV", "keys")] = lambda ip, obj, args, kwargs: Struct("GroupKeysV", of=obj)


def _groupkeys_iter(ip, v):
    # one arbitrary stored group: its size bound is the store-time obligation
    c = _fresh_card(ip.vc, "group_size")
    ip.vc.assume(c <= term(v.f["of"].f["max"]))
    return [Struct("KeyV", card=c)]


C.STRUCT_ITER["GroupKeysV"] = _groupkeys_iter
C.STRUCT_ITER["OuterV"] = lambda ip, v: [Struct("KeyV", card=z3.IntVal(2))]


def _outer_append(ip, obj, args, kwargs):
    ok = isinstance(args[0], tuple) and len(args[0]) == 2
    ip.vc.check("append#outer-product-is-a-pair-of-objects", ok)
    return None


C.STRUCT_METHODS[("OuterV", "append")] = _outer_append


def _positions_comp(ip, frame, node):
    return Struct("PosSet", card=_fresh_card(ip.vc, "npos"))


def _group_tuples_comp(ip, frame, node):
    t = ip.vc.fresh("group_indices", TuplesSort)
    return Struct("IdxTuples", t=t)


def _model_combinations_pairs(prev):
    def model(ip, args, kwargs):
        from pyvc.builtins import EnumVal
        v = args[0]
        if isinstance(v, EnumVal) and isinstance(v.inner, Struct) and v.inner.cls == "ObjIdxSeq" \
                and args[1] == 2:
            return Struct("PairsV", n=v.inner.f["n"])
        if prev is not None:
            return prev(ip, args, kwargs)
        raise Unsupported("itertools.combinations of this iterable")
    return model


C.EXTERNALS["itertools.combinations"] = _model_combinations_pairs(C.EXTERNALS.get("itertools.combinations"))
C.SYMBOLIC_ITERABLES.add("PosSet")


class _OccLoop(LoopContract):
    """fills the occurrence table (abstracted)"""

    def havoc(self, vc, frame, k, seq):
        frame["idx_occurences"] = Struct("OccMap")
        for nm in ("pos", "indices", "idx"):
            frame.locals.pop(nm, None)


class _OccInnerLoop(LoopContract):
    def havoc(self, vc, frame, k, seq):
        frame["idx_occurences"] = Struct("OccMap")
        frame.locals.pop("idx", None)


class _PairLoop(LoopContract):
    def havoc(self, vc, frame, k, seq):
        frame["groups"] = Struct("GroupsV", max=frame["max_group_size"])
        frame["outer_products"] = Struct("OuterV")
        for nm in ("pos1", "pos2", "indices1", "indices2", "contracted", "_", "positions", "key",
                   "new_contracted", "new_positions"):
            frame.locals.pop(nm, None)


class _GrowLoop(LoopContract):
    # `groups` is an abstract object whose only property (size bound of every key) is an
    # obligation at each store
    modifies = ("groups", "_")
    def havoc(self, vc, frame, k, seq):
        frame["positions"] = Struct("PosSet", card=_fresh_card(vc, "npos"))
        frame["contracted"] = Struct("ListSet", mem=vc.fresh("contracted", IdxSet))
        for nm in ("new_contracted", "new_positions"):
            frame.locals.pop(nm, None)

    def invariant(self, vc, frame, k, seq):
        p = frame["positions"]
        ok = isinstance(p, Struct) and p.cls == "PosSet"
        return [("current-group-is-within-the-limit",
                 (p.f["card"] <= term(frame["max_group_size"])) if ok else False)]


_orig_fresh = SplitContractedAndTarget.fresh_result


def _split_fresh_result_any(self, vc, a):
    ind = a["indices"]
    if not (isinstance(ind, Struct) and ind.cls == "IdxTuples"):
        # any collection of index tuples
        a = dict(a, indices=Struct("IdxTuples", t=vc.fresh("indices", TuplesSort)))
    return _orig_fresh(self, vc, a)


SplitContractedAndTarget.fresh_result = _split_fresh_result_any


@register
class GroupObjects(Contract):
    key = GK
    props = ["C16"]
    loops = {0: _OccLoop(), 1: _OccInnerLoop(), 2: _PairLoop(), 3: _GrowLoop()}
    comprehensions = {"for pos in idx_occurences[idx]": _positions_comp,
                      "obj_indices[pos] for pos in positions": _group_tuples_comp}

    def setup(self, vc):
        from pyvc.builtins import b_sorted, b_tuple
        from pyvc.values import PyFunc

        def sorted_model(ip, args, kwargs):
            if args and isinstance(args[0], Struct) and args[0].cls == "PosSet":
                return Struct("SortedPos", card=args[0].f["card"])
            return b_sorted(ip, args, kwargs)

        def tuple_model(ip, args, kwargs):
            if args and isinstance(args[0], Struct) and args[0].cls == "SortedPos":
                return Struct("KeyV", card=args[0].f["card"])
            return b_tuple(ip, args, kwargs)
        vc.ip.builtins = dict(vc.ip.builtins, sorted=PyFunc(sorted_model, "sorted"),
                              tuple=PyFunc(tuple_model, "tuple"))
        n = vc.fresh_int("n_objects")
        vc.assume(n >= 0)
        limited = vc.choose(2, "limit") == 1
        mgs = Sym(vc.fresh_int("max_group_size")) if limited else None
        return {"obj_indices": Struct("ObjIdxSeq", n=n),
                "target_indices": Struct("IdxSetView", mem=vc.fresh("term_targets", IdxSet)),
                "max_group_size": mgs}

    def raises(self, vc, a):
        n = a["obj_indices"].f["n"]
        bad = n <= 1
        if a["max_group_size"] is not None:
            bad = z3.Or(bad, term(a["max_group_size"]) <= 1)
        return [("AssertionError", bad)]

    def post(self, vc, a, result):
        if not isinstance(result, tuple):
            return [("returns-a-tuple-of-groups", False)]
        n = a["obj_indices"].f["n"]
        limit = term(a["max_group_size"]) if a["max_group_size"] is not None else n
        out = []
        for g in result:
            ok = isinstance(g, Struct) and g.cls == "KeyV"
            out.append(("every-returned-group-obeys-the-limit-on-simultaneously-contracted-objects",
                        (g.f["card"] <= limit) if ok else False))
        return out


# --- optimize_contractions / unoptimized_contraction: what enters the scheme -----------------------
# Every tensor and delta of the term enters with its multiplicity (exponent), numbers and symbols are
# skipped, divisions and other objects are refused; the target indices are the requested ones (with
# the requested spin) or the canonical ones of the term; the limits reach the scheme search unchanged.
OC = "adcgen.generate_code.optimize_contractions:"
_OBJ_KINDS = [("number", 1), ("symbol", 1), ("tensor", 1), ("tensor", 2), ("tensor", 3), ("delta", 1),
              ("tensor", -1), ("other", 1)]


def _oc_objects(vc):
    """0-2 objects of every kind / exponent, and one term with three objects"""
    n = vc.choose(4, "n_objects")
    objs = []
    for k in range(n):
        kind, exp = _OBJ_KINDS[vc.choose(len(_OBJ_KINDS), f"object_{k}")] if n < 3 else \
            [("tensor", 1), ("number", 1), ("delta", 1)][k]
        objs.append(Struct("TermObj", kind=kind, exp=exp, pos=k,
                           lname=Struct("LongName", pos=k), oidx=Struct("ObjIdx", pos=k)))
    return objs


def _oc_install():
    C.STRUCT_ATTR[("TermArg", "objects")] = lambda ip, o: tuple(o.f["objs"])
    C.STRUCT_ATTR[("TermArg", "target")] = lambda ip, o: o.f["target"]
    C.STRUCT_ATTR[("TermObj", "base_and_exponent")] = lambda ip, o: (Struct("BaseOf", kind=o.f["kind"]), o.f["exp"])
    C.STRUCT_ATTR[("TermObj", "sympy")] = lambda ip, o: Struct("SympyOf", number=o.f["kind"] == "number")
    C.STRUCT_ATTR[("SympyOf", "is_number")] = lambda ip, o: o.f["number"]
    C.STRUCT_ATTR[("TermObj", "idx")] = lambda ip, o: o.f["oidx"]
    C.STRUCT_METHODS[("TermObj", "longname")] = lambda ip, o, a, k: o.f["lname"]
    # the indices of an object are opaque: nothing is known about their membership in the targets
    C.STRUCT_ITER["ObjIdx"] = lambda ip, o: []

    def isinst(ip, v, cls):
        names = {(c.key if hasattr(c, "key") else getattr(c, "dotted", str(c))).split(":")[-1].split(".")[-1]
                 for c in (cls if isinstance(cls, tuple) else (cls,))}
        kind = v.f["kind"]
        if kind == "symbol":
            return "Symbol" in names
        if kind == "tensor":
            return "SymbolicTensor" in names
        if kind == "delta":
            return "KroneckerDelta" in names
        return False
    C.STRUCT_ISINSTANCE["BaseOf"] = isinst
    C.CLASS_MODELS["adcgen.generate_code.contraction:Contraction"] = \
        lambda ip, a, k: Struct("ContractionV", args=tuple(a), kw=dict(k))


def _oc_expected(objs):
    """(names, indices) of the objects that enter, None if the term is refused"""
    names, idx = [], []
    for o in objs:
        kind, exp = o.f["kind"], o.f["exp"]
        if kind == "number":
            continue
        if exp < 0:
            return None, "NotImplementedError"
        if kind == "symbol":
            continue
        if kind == "other":
            return None, "NotImplementedError"
        names.extend([o.f["lname"]] * exp)
        idx.extend([o.f["oidx"]] * exp)
    return (names, idx), None


def _same_items(got, want):
    items = got.items if isinstance(got, PList) else list(got) if isinstance(got, tuple) else None
    return items is not None and len(items) == len(want) and all(x is y for x, y in zip(items, want))


@register
class _GetSymbolsMarker(Contract):
    key = "adcgen.indices:get_symbols"
    props = []
    assumed = True
    note = "import of the requested target names with the requested spins (C08 registry checks)"

    def apply(self, vc, a):
        return PList([Struct("ImportedTargets", names=a["indices"], spins=a.get("spins"))])


def _oc_target_ok(a, got):
    if a["target_indices"] is None:
        return got is a["term"].f["target"]
    return isinstance(got, tuple) and len(got) == 1 and isinstance(got[0], Struct) \
        and got[0].cls == "ImportedTargets" and got[0].f["names"] is a["target_indices"] \
        and got[0].f["spins"] is a["target_spin"]


class _ExtractionContract(Contract):
    props = ["C16"]

    def setup(self, vc):
        _oc_install()
        objs = _oc_objects(vc)
        named = vc.choose(2, "target_indices_given") == 1
        a = {"term": Struct("TermArg", objs=objs, target=Struct("CanonicalTargets")),
             "target_indices": Struct("TargetNames") if named else None,
             "target_spin": (Struct("TargetSpin") if vc.choose(2, "target_spin_given") == 1 else None)
             if named else None}
        return a

    def raises(self, vc, a):
        exp, exc = _oc_expected(a["term"].f["objs"])
        return [("NotImplementedError", exc is not None)]


@register
class UnoptimizedContraction(_ExtractionContract):
    key = OC + "unoptimized_contraction"

    def post(self, vc, a, result):
        (names, idx), _ = _oc_expected(a["term"].f["objs"])
        ok = isinstance(result, PList) and len(result.items) == 1 and isinstance(result.items[0], Struct) \
            and result.items[0].cls == "ContractionV" and not result.items[0].f["args"]
        kw = result.items[0].f["kw"] if ok else {}
        return [("a-single-contraction-is-returned", ok),
                ("every-tensor-and-delta-enters-with-its-multiplicity", ok and _same_items(kw.get("names"), names)),
                ("with-its-indices", ok and _same_items(kw.get("indices"), idx)),
                ("the-target-indices-are-the-requested-ones-with-the-requested-spin-or-the-canonical-ones",
                 ok and _oc_target_ok(a, kw.get("term_target_indices")))]


# --- optimize_contractions: extraction, single object case and the ranking of the schemes -----------
SCAL = z3.Function("scaling_of", z3.IntSort(), z3.IntSort(), z3.IntSort(), z3.IntSort(), z3.IntSort())
KEYF = z3.Function("ranking_key", z3.IntSort(), z3.IntSort(), z3.IntSort())    # (scheme, position) -> int
_FIELDS = []


def _scaling_fields():
    """field names of ScalingComponent in the order of the real dataclass (read from the source)"""
    if not _FIELDS:
        import ast
        from pyvc.source import SourceTable
        node = SourceTable().classes["adcgen.generate_code.contraction:ScalingComponent"]
        _FIELDS.extend(st.target.id for st in node.body if isinstance(st, ast.AnnAssign))
    return list(_FIELDS)


def _scheme(k, length):
    return PList([Struct("ContrV", scheme=k, pos=j) for j in range(length)])


def _rank_install():
    C.STRUCT_ATTR[("ContrV", "scaling")] = lambda ip, o: Struct("ScalingV", scheme=o.f["scheme"], pos=o.f["pos"])
    for w, which in enumerate(("computational", "memory")):
        C.STRUCT_ATTR[("ScalingV", which)] = (lambda w: lambda ip, o: Struct(
            "ScalingCompV", scheme=o.f["scheme"], pos=o.f["pos"], which=w))(w)
    for f, name in enumerate(_scaling_fields()):
        C.STRUCT_ATTR[("ScalingCompV", name)] = (lambda f: lambda ip, o: Sym(
            SCAL(term(o.f["scheme"]), o.f["pos"], o.f["which"], f)))(f)
    C.STRUCT_ATTR[("FieldV", "name")] = lambda ip, o: o.f["fname"]
    C.EXTERNALS["dataclasses.fields"] = lambda ip, a, k: tuple(Struct("FieldV", fname=n) for n in _scaling_fields())

    def gen_symiter(ip, obj):
        from pyvc.builtins import SymIter
        return SymIter("schemes", obj, Sym(obj.f["n"]), lambda ip_, k: _scheme(k, obj.f["length"]))
    C.STRUCT_SYMITER["SchemeGen"] = gen_symiter


def _spec_key(k, length):
    """the documented ranking: per field (in dataclass order) the maximal computational scaling of the
    scheme and the number of contractions that reach it, then the same for the memory scaling"""
    key = []
    for which in (0, 1):
        for f in range(len(_scaling_fields())):
            vals = [SCAL(term(k), j, which, f) for j in range(length)]
            mx = vals[0]
            for v in vals[1:]:
                mx = z3.If(v > mx, v, mx)
            key.append((mx, z3.Sum([z3.If(v == mx, 1, 0) for v in vals]) if length > 1 else z3.IntVal(1)))
    # computational (max, count) pairs first, then the memory pairs
    return [x for pair in key for x in pair]


def _lex_less(a, b, strict):
    """lexicographic order of two equally long lists of integer terms"""
    res = z3.BoolVal(not strict)
    for x, y in reversed(list(zip(a, b))):
        res = z3.Or(x < y, z3.And(x == y, res))
    return res


def _keyf(o, npos):
    return [KEYF(term(o), p) for p in range(npos)]


class _RankLoop(LoopContract):
    header = "contraction_schemes"
    modifies = ("scheme", "scaling", "mem", "field", "comp_values", "mem_values", "optimal_scheme",
                "optimal_scaling")

    def iter_spec(self, vc, frame, seq):
        return [("runs-over-the-schemes-of-the-search", isinstance(seq.obj, Struct) and seq.obj.cls == "SchemeGen")]

    def havoc(self, vc, frame, k, seq):
        for nm in ("scheme", "scaling", "mem", "field", "comp_values", "mem_values"):
            frame.locals.pop(nm, None)
        gen = vc.ghost["_schemes"]
        npos = 4 * len(_scaling_fields())
        if vc.decide(term(k) == 0):
            frame["optimal_scheme"], frame["optimal_scaling"] = None, None
            vc.ghost["_best"] = None
        else:
            o = vc.fresh_int("best_so_far")
            vc.ghost["_best"] = o
            frame["optimal_scheme"] = _scheme(Sym(o), gen.f["length"])
            frame["optimal_scaling"] = PList([Sym(t) for t in _keyf(o, npos)])

    def invariant(self, vc, frame, k, seq):
        gen = vc.ghost["_schemes"]
        npos = 4 * len(_scaling_fields())
        kk = term(k)
        best, key = frame["optimal_scheme"], frame["optimal_scaling"]
        if best is None or key is None:
            return [("no-scheme-is-selected-only-before-the-first-one", z3.And(kk == 0, best is None, key is None))]
        cur = frame.locals.get("scheme")
        extra = []
        if cur is not None:
            # end of the body: the list the code built for this scheme is named ranking_key(k, .)
            # (ghost definition at a fresh point of the uninterpreted function) and compared with
            # the documented ranking
            built = frame.locals.get("scaling")
            okb = isinstance(built, PList) and len(built.items) == npos
            if okb:
                for p, x in enumerate(built.items):
                    vc.assume(KEYF(kk - 1, p) == term(x))
            spec = _spec_key(kk - 1, gen.f["length"])
            extra = [("the-ranking-key-is-per-field-the-maximal-scaling-and-how-often-it-is-reached-computational-before-memory",
                      z3.And(*[term(x) == t for x, t in zip(built.items, spec)]) if okb else False)]
        if cur is not None and best is cur:
            # the scheme of this iteration was selected: its ranking key is the list the code built
            o = term(cur.items[0].f["scheme"])
        else:
            o = vc.ghost.get("_best")
            if o is None:
                return [("selected-scheme-is-one-of-the-schemes-seen", False)]
        same = isinstance(best, PList) and len(best.items) == gen.f["length"] and \
            all(isinstance(c, Struct) and c.cls == "ContrV" and c.f["pos"] == j for j, c in enumerate(best.items))
        sch = z3.And(*[term(c.f["scheme"]) == o for c in best.items]) if same else False
        keyok = isinstance(key, PList) and len(key.items) == npos
        keyeq = z3.And(*[term(x) == t for x, t in zip(key.items, _keyf(o, npos))]) if keyok else False
        m = z3.Int("m!rank")
        return extra + [("selected-scheme-is-one-of-the-schemes-seen", z3.And(sch, o >= 0, o < kk)),
                ("its-ranking-key-is-kept-with-it", keyeq),
                ("no-scheme-seen-so-far-ranks-lower",
                 z3.ForAll([m], z3.Implies(z3.And(m >= 0, m < kk), _lex_less(_keyf(o, npos), _keyf(m, npos), False))))]
        # (which of several equally ranked schemes is kept is not part of the property)


def _rank_key_defined(ip, frame):
    """ghost: names the list the code built for scheme k as ranking_key(k, .) and checks it against the
    documented ranking (called when `scaling.extend(mem)` completed the list)"""


class _SchemeSearch(Contract):
    key = OC + "_optimize_contractions"
    props = []
    assumed = True
    note = "generator function (scheme enumeration): bounded stand-in schemes.execute; here: an arbitrary sequence of schemes"

    def pre(self, vc, a):
        want = vc.ghost["_oc_expected"]
        req = vc.ghost["_oc_args"]
        return [("every-tensor-and-delta-enters-the-search-with-its-multiplicity",
                 _same_items(a["relevant_obj_names"], want[0])),
                ("with-its-indices", _same_items(a["relevant_obj_indices"], want[1])),
                ("the-target-indices-are-the-requested-ones-with-the-requested-spin-or-the-canonical-ones",
                 _oc_target_ok(req, a["target_indices"])),
                ("the-limits-reach-the-search-unchanged",
                 a["max_itmd_dim"] is req["max_itmd_dim"]
                 and a["max_n_simultaneous_contracted"] is req["max_n_simultaneous_contracted"])]

    def fresh_result(self, vc, a):
        n = vc.fresh_int("n_schemes")
        vc.assume(n >= 0)
        gen = Struct("SchemeGen", n=n, length=1 + vc.choose(3, "contractions_per_scheme"))
        vc.ghost["_schemes"] = gen
        return gen


register(_SchemeSearch)


def _list_extend_hook(ip, obj, args, kwargs):
    raise Unsupported("unused")


@register
class OptimizeContractions(_ExtractionContract):
    key = OC + "optimize_contractions"
    loops = {1: _RankLoop()}

    def setup(self, vc):
        a = super().setup(vc)
        _rank_install()
        a["max_itmd_dim"] = Struct("MaxItmdDim")
        a["max_n_simultaneous_contracted"] = Struct("MaxN")
        exp, _ = _oc_expected(a["term"].f["objs"])
        vc.ghost["_oc_expected"] = exp
        vc.ghost["_oc_args"] = a
        return a

    def may_raise(self, vc, a):
        # (the search is an assumed callee: whether it finds a scheme is only known after the call)
        gen = vc.ghost.get("_schemes")
        return [("RuntimeError", gen.f["n"] == 0)] if gen is not None else []

    def post(self, vc, a, result):
        (names, idx), _ = _oc_expected(a["term"].f["objs"])
        if not names:
            return [("no-contraction-for-a-term-without-tensors", isinstance(result, PList) and not result.items)]
        if len(names) == 1:
            ok = isinstance(result, PList) and len(result.items) == 1 and isinstance(result.items[0], Struct) \
                and result.items[0].cls == "ContractionV" and not result.items[0].f["args"]
            kw = result.items[0].f["kw"] if ok else {}
            return [("a-single-contraction-for-a-single-object", ok),
                    ("of-that-object", ok and _same_items(kw.get("names"), names)
                     and _same_items(kw.get("indices"), idx)),
                    ("the-target-indices-are-the-requested-ones-with-the-requested-spin-or-the-canonical-ones",
                     ok and _oc_target_ok(a, kw.get("term_target_indices")))]
        gen = vc.ghost["_schemes"]
        npos = 4 * len(_scaling_fields())
        ok = isinstance(result, PList) and len(result.items) == gen.f["length"] and \
            all(isinstance(c, Struct) and c.cls == "ContrV" and c.f["pos"] == j for j, c in enumerate(result.items))
        if not ok:
            return [("one-of-the-schemes-of-the-search-is-returned", False)]
        o = term(result.items[0].f["scheme"])
        m = z3.Int("m!post")
        n = gen.f["n"]
        return [("one-of-the-schemes-of-the-search-is-returned",
                 z3.And(o >= 0, o < n, *[term(c.f["scheme"]) == o for c in result.items])),
                ("no-scheme-of-the-search-ranks-lower-than-the-returned-one",
                 z3.ForAll([m], z3.Implies(z3.And(m >= 0, m < n),
                                           _lex_less(_keyf(o, npos), _keyf(m, npos), False))))]
