"""C19 - independence of history, hash seed and tensor-name configuration.
Contracts: the canonical sort key never needs its hash component (shared with
C06), tensor-name classification under an arbitrary admissible configuration,
and the syntactic frame condition that wave functions / overlaps / norm
factors are not cached."""
import ast
import z3
from pyvc import contract as C
from pyvc.contract import Contract, register, lemma
from pyvc.values import Struct, Sym, term, wrap, zand, zor, znot, zeq, Unsupported
import contracts.c06 as c06        # noqa: F401  sort_idx_canonical (props C06, C19)
import contracts.registry as registry        # noqa: F401  index registry (props C08, C19)
import contracts.c04 as c04        # noqa: F401  IntermediateStates.precursor / s_root / norm factor (index hygiene)

# wave functions that meet in one product never share contracted indices: the precursor's cache of
# ground state wave functions (which orders may be reused inside one projector term) and the products
# inside s_root carry `index-hygiene` obligations - listed under C19 as well
c04.Precursor.props = c04.Precursor.props + ["C19"]
c04.SRoot.props = c04.SRoot.props + ["C19"]

ASSUMPTIONS = c06.ASSUMPTIONS + [
    "tensor names and configured base names are arbitrary strings (z3 string theory, ASCII digits for str.isnumeric); the configured base names are non empty",
    "cached_member / cached_property / Singleton and is_t_amplitude / is_gs_density (str.replace and str.isnumeric over arbitrary strings: z3 and cvc5 both left the obligation open within 80 s, so no contract is claimed; the split_* functions they build on are under contract) are only covered by bounded stand-ins (registry.identity_and_freshness under C08, independence.hashseed_history_config)",
]
ASSUMPTIONS = ASSUMPTIONS + registry.ASSUMPTIONS
TRUSTED = []
DIGITS1 = z3.Plus(z3.Range("0", "9"))


@register
class IsAdcAmplitude(Contract):
    key = "adcgen.tensor_names:is_adc_amplitude"
    props = ["C19"]

    def setup(self, vc):
        name = z3.String("name")
        l, r = z3.String("configured_left"), z3.String("configured_right")
        C.EXTERNALS["adcgen.tensor_names:tensor_names"] = Struct(
            "TensorNames", left_adc_amplitude=Sym(l), right_adc_amplitude=Sym(r))
        return {"name": Sym(name), "_l": l, "_r": r}

    def post(self, vc, a, result):
        name = a["name"].t
        spec = z3.Or(name == a["_l"], name == a["_r"])
        return [("true-iff-one-of-the-two-configured-amplitude-names",
                 zeq(vc.ip.truth_term(result) if not isinstance(result, bool) else result, spec))]


class _SplitName(Contract):
    """split_*_name(name): the name is cut behind the length of the configured base name of
    THAT family (whatever the other configured names are): a name that starts with the
    configured base name is split into exactly that base name and the rest."""
    props = ["C19"]
    field = None

    def setup(self, vc):
        name = z3.String("name")
        amp, dens = z3.String("configured_gs_amplitude"), z3.String("configured_gs_density")
        vc.assume(z3.And(z3.Length(amp) >= 1, z3.Length(dens) >= 1))
        C.EXTERNALS["adcgen.tensor_names:tensor_names"] = Struct(
            "TensorNames", gs_amplitude=Sym(amp), gs_density=Sym(dens))
        return {"name": Sym(name), "_cfg": {"gs_amplitude": amp, "gs_density": dens}}

    def post(self, vc, a, result):
        name, cfg = a["name"].t, a["_cfg"][self.field]
        items = result.items if hasattr(result, "items") else list(result)
        base, ext = term(items[0]), term(items[1])
        # (base ++ ext == name, stated as prefix / rest / lengths: the concatenation itself takes
        #  the sequence solver 10-20 s, these three are decided in milliseconds)
        return [("base-is-a-prefix-of-the-name", z3.PrefixOf(base, name)),
                ("extension-is-the-rest-of-the-name",
                 ext == z3.SubString(name, z3.Length(base), z3.Length(name) - z3.Length(base))),
                ("base-and-extension-have-the-length-of-the-name",
                 z3.Length(base) + z3.Length(ext) == z3.Length(name)),
                ("a-name-of-the-family-is-split-behind-its-configured-base-name",
                 z3.Implies(z3.PrefixOf(cfg, name), base == cfg)),
                ("the-base-is-never-longer-than-the-configured-base-name", z3.Length(base) <= z3.Length(cfg))]


@register
class SplitGsDensityName(_SplitName):
    key = "adcgen.tensor_names:split_gs_density_name"
    field = "gs_density"


@register
class SplitTAmplitudeName(_SplitName):
    key = "adcgen.tensor_names:split_t_amplitude_name"
    field = "gs_amplitude"


@lemma("C19", "uncached")
def uncached():
    """wave functions, overlaps and norm factors must produce fresh contracted
    indices on every request: no caching decorator on them"""
    from pyvc.source import SourceTable
    src = SourceTable()
    out = []
    for fn in ("psi", "overlap", "norm_factor"):
        node = src.get(f"adcgen.groundstate:GroundState.{fn}")
        decos = [ast.unparse(d) for d in node.decorator_list] if node is not None else ["<missing>"]
        out.append((f"{fn}-has-no-caching-decorator", z3.BoolVal(decos == [])))
    return out
