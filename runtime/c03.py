"""Executable contracts for C03 on the real code (bounded stand-ins)."""
from fractions import Fraction

from adcgen.groundstate import GroundState
from adcgen.operators import Operators
from adcgen.intermediate_states import IntermediateStates
from adcgen.secular_matrix import SecularMatrix
from adcgen.indices import get_symbols
from adcgen.expr_container import Expr
from runtime.tensor_model import Model, orbital_space, evaluate, all_assignments
from runtime.c02 import MPModel

BUDGET_S = {"quick": 150, "thorough": 3000}
CASE_TIMEOUT_S = {"quick": 400, "thorough": 1500}
_CACHE = {}
MIN = {"pp": "ph", "ip": "h", "ea": "p", "dip": "hh", "dea": "pp"}


def sm(variant):
    if variant not in _CACHE:
        _CACHE[variant] = SecularMatrix(IntermediateStates(GroundState(Operators("mp")), variant))
    return _CACHE[variant]


def table_cases(tier, seed):
    for v in MIN:
        for n in range(0, 7):
            yield {"variant": v, "adc_order": n}


def table_check(case):
    m = sm(case["variant"])
    n = case["adc_order"]
    spaces = {}
    sp = MIN[case["variant"]]
    for k in range(0, n // 2 + 1):
        spaces[sp] = k
        sp = "p" + sp + "h"
    exp_spaces = {s: n - k for s, k in spaces.items()}
    got = m.max_ptorder_spaces(n)
    if got != exp_spaces:
        return False, f"max_ptorder_spaces({n}) = {got}, ADC(n) table {exp_spaces}"
    exp_blocks = {(a, b): n - ka - kb for a, ka in spaces.items() for b, kb in spaces.items()}
    got = m.block_order(n)
    if got != exp_blocks:
        return False, f"block_order({n}) = {got}, ADC(n) table {exp_blocks}"
    return True, ""


class RealModel(Model):
    def __init__(self, seed, n_occ=1, n_virt=1):
        super().__init__(orbital_space(n_occ, n_virt), seed=seed, braket={"V": 1, "f": 1}, diag=("f",),
                         alias=lambda nm: nm.replace("cc", ""))

    def eps(self, o):
        return Fraction((-10 if o[0] == "o" else 10) + 3 * o[1] + (1 if o[2] == "b" else 0))

    def nonsym(self, name, idx):
        if name == "e":
            return self.eps(idx[0])
        return super().nonsym(name, idx)

    def antisym(self, name, upper, lower, symmetric=False):
        if name == "f":
            return self.eps(upper[0]) if tuple(upper) == tuple(lower) else Fraction(0)
        return super().antisym(name, upper, lower, symmetric)


def herm_cases(tier, seed):
    base = [("pp", "ph,ph", "ia,jb", 0), ("pp", "ph,ph", "ia,jb", 1), ("pp", "ph,ph", "ia,jb", 2),
            ("pp", "ph,pphh", "ia,jkbc", 1), ("ip", "h,h", "i,j", 2), ("ip", "h,phh", "i,jka", 1),
            ("pp", "pphh,pphh", "ijab,klcd", 0)]
    if tier == "thorough":
        base += [("pp", "pphh,pphh", "ijab,klcd", 1), ("ea", "p,p", "a,b", 2), ("pp", "ph,pphh", "ia,jkbc", 2)]
    for v, b, i, n in base:
        yield {"variant": v, "block": b, "indices": i, "order": n}


def herm_check(case):
    m = sm(case["variant"])
    b1, b2 = case["block"].split(",")
    i1, i2 = case["indices"].split(",")
    n = case["order"]
    A = Expr(m.isr_matrix_block(n, f"{b1},{b2}", f"{i1},{i2}"), real=True).sympy
    B = Expr(m.isr_matrix_block(n, f"{b2},{b1}", f"{i2},{i1}"), real=True).sympy
    model = RealModel(5)
    targets = get_symbols(i1) + get_symbols(i2)
    for asg in all_assignments(targets, model.orbs):
        va, vb = evaluate(A, asg, model), evaluate(B, asg, model)
        if va != vb:
            return False, (f"M^({n})[{b1},{b2}]_{i1},{i2} = {va} but the bra/ket swapped block gives {vb} "
                           f"at {dict((str(k), v) for k, v in asg.items())}")
        if n == 0 and b1 == b2 == "ph":
            i, a, j, b = (asg[s] for s in targets)
            exp = (model.eps(a) - model.eps(i)) if (i == j and a == b) else 0
            if va != exp:
                return False, f"zeroth order ph/ph block {va} != (e_a - e_i) delta delta = {exp}"
        if n == 1 and b1 == b2 == "ph":
            i, a, j, b = (asg[s] for s in targets)
            exp = -model.antisym("V", [a, j], [b, i]) if True else 0
            exp = -model.antisym("V", [j, a], [i, b])
            if va != exp:
                return False, f"first order ph/ph block {va} != -<ja||ib> = {exp}"
    return True, ""


def shift_cases(tier, seed):
    base = [("pp", "ph,pphh", "ia,jkbc", 1), ("ip", "h,phh", "i,jka", 2), ("dip", "hh,phhh", "ij,klma", 2)]
    if tier == "thorough":
        base += [("dea", "pp,ppph", "ab,icde", 2), ("pp", "ph,pphh", "ia,jkbc", 2), ("ea", "p,pph", "a,ibc", 2)]
    for v, b, i, n in base:
        yield {"variant": v, "block": b, "indices": i, "order": n}


def shift_check(case):
    """states of different excitation classes are orthogonal: a coupling block
    does not depend on whether the ground state energy is subtracted"""
    m = sm(case["variant"])
    n = case["order"]
    A = Expr(m.isr_matrix_block(n, case["block"], case["indices"], subtract_gs=True), real=True).sympy
    B = Expr(m.isr_matrix_block(n, case["block"], case["indices"], subtract_gs=False), real=True).sympy
    need_o = max(sp.count("h") for sp in case["block"].split(","))
    need_v = max(sp.count("p") for sp in case["block"].split(","))
    model = RealModel(5, 2 if need_o > 2 else 1, 2 if need_v > 2 else 1)
    i1, i2 = case["indices"].split(",")
    targets = get_symbols(i1) + get_symbols(i2)
    import random
    for asg in all_assignments(targets, model.orbs, limit=400, rng=random.Random(1)):
        va, vb = evaluate(A, asg, model), evaluate(B, asg, model)
        if va != vb:
            return False, (f"M^({n})[{case['block']}]_{case['indices']} = {va} with and {vb} without "
                           f"subtraction of the ground state energy at {dict((str(k), v) for k, v in asg.items())}: "
                           "the intermediate states of the two classes are not orthogonal")
    return True, ""


CHECKS = {
    "block_order.adc_table": {
        "function": "adcgen.secular_matrix:SecularMatrix.block_order", "cases": table_cases,
        "check": table_check, "bound": "all five variants, ADC(0)..ADC(6)"},
    "isr_matrix_block.hermitian": {
        "function": "adcgen.secular_matrix:SecularMatrix.isr_matrix_block", "cases": herm_cases,
        "check": herm_check,
        "bound": "pp/ip blocks through second order (ea, doubles first order in thorough), real canonical HF model, 2 occ + 2 virt spin orbitals, all assignments; zeroth/first order ph/ph block vs textbook"},
    "isr_matrix_block.shift_invariant": {
        "function": "adcgen.intermediate_states:IntermediateStates.precursor", "cases": shift_cases,
        "check": shift_check,
        "bound": "coupling blocks ph/pphh (1), h/phh (2), hh/phhh (2) (thorough: pp/ppph, p/pph, ph/pphh second order): value with and without ground state energy subtraction, <= 400 sampled target assignments"},
}
