"""Engine self test.  --smoke: z3 works, the repository parses, one function
verifies and one deliberately wrong contract clause is refuted (the engine can
say no)."""
import os
import sys

VERIF = os.path.dirname(os.path.dirname(os.path.abspath(__file__)))
if VERIF not in sys.path:
    sys.path.insert(0, VERIF)


def smoke():
    import z3
    from pyvc.source import SourceTable
    from pyvc.driver import verify_function
    from pyvc import contract as C
    import contracts.c09 as c09
    src = SourceTable()
    key = "adcgen.sympy_objects:KroneckerDelta.preferred_and_killable"
    r = verify_function(src, key, "C09")
    bad = [o for o in r["obligations"] if o["result"] != "unsat"]
    if bad or r["undecided"] or not r["obligations"]:
        print("smoke: verification of", key, "failed", bad, r["undecided"])
        return 3
    # the engine must refute a wrong clause
    con = C.REGISTRY[key]
    orig = con.post

    def wrong(vc, a, result):
        from spec.idx import range_subset
        if result is None:
            return [("wrong", False)]
        p, k = result
        return [("wrong", range_subset(k, p))]
    con.post = wrong
    r2 = verify_function(src, key, "C09")
    con.post = orig
    if not any(o["result"] == "sat" for o in r2["obligations"]):
        print("smoke: a wrong contract clause was not refuted")
        return 3
    print(f"smoke ok: z3 {z3.get_version_string()}, {len(src.functions)} functions in the table")
    return 0


if __name__ == "__main__":
    sys.exit(smoke())
