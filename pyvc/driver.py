"""Verification of one function against its contract: explores every path."""
import time
import traceback

from .values import Unsupported, zor, znot
from .vc import VC, Run, PathEnd, RaiseEx, Obligation
from .interp import Interp, Frame, EXC_HIER
from . import contract as C


def verify_function(src, key, prop, first=None):
    """`first`: explore only the paths whose first non-deterministic choice
    (the shape chosen in the contract's setup) is `first` - used to spread
    one function over several worker processes."""
    con = C.REGISTRY[key]
    node = src.get(key)
    run = Run(key, prop)
    if first is not None:
        run.worklist = [[first]]
    t0 = time.time()
    if node is None:
        run.undecided.append(f"function {key} not found in the working tree")
        run.missing = True
        return finish(run, src, key, t0)
    first = True
    while run.worklist:
        # a function with obligations the solvers leave open is undecided whatever the remaining
        # paths say: do not spend more than a few minutes on it (refuted obligations found so far
        # are kept)
        if time.time() - t0 > 150 and sum(1 for o in run.obligations if o.result == "unknown") >= 4:
            run.undecided.append("exploration stopped: 4 or more obligations left open by the solvers after 150 s")
            break
        decisions = run.worklist.pop()
        run.paths += 1
        if run.paths > run.max_paths:
            run.undecided.append("path limit exceeded")
            break
        vc = VC(run, decisions)
        ip = Interp(src, vc, key, con)
        vc.ip = ip
        try:
            a = con.setup(vc)
            for _n, f in con.pre(vc, a):
                vc.assume(f)
            if first:
                first = False
                ok = vc.feasible()
                run.obligations.append(Obligation(
                    f"{prop}/{key}/vacuity.pre", "unsat" if ok else "sat", 0.0,
                    kind="cover", info={"meaning": "precondition satisfiable"}))
                if not ok:
                    break
            raises = con.raises(vc, a)
            closure = None
            if hasattr(con, "closure"):
                closure = Frame(src.func_parent.get(key), src.func_module[key])
                closure.locals.update(con.closure(vc, a))
            bound = {k: v for k, v in a.items() if not k.startswith("_")}
            try:
                result = ip.run_body(key, bound, closure)
            except RaiseEx as e:
                allowed = [w for exc, w in raises
                           if exc == e.exc or exc in EXC_HIER.get(e.exc, [])]
                allowed += [w for exc, w in getattr(con, "may_raise", lambda v, x: [])(vc, a)
                            if exc == e.exc]
                vc.cover(f"raise.{e.exc}")
                vc.check(f"raises#{e.exc}", zor(*allowed) if allowed else False)
                continue
            vc.cover("return")
            for exc, when in raises:
                vc.check(f"noraise#{exc}", znot(when))
            for n, f in con.post(vc, a, result):
                vc.check(f"post#{n}", f)
        except PathEnd:
            continue
        except Unsupported as u:
            run.undecided.append(f"unsupported: {u}")
        except RaiseEx as e:
            run.undecided.append(f"exception outside the function body: {e.exc} {e.msg}")
        except Exception as e:      # engine bug: never a verdict
            run.undecided.append("engine error: " + repr(e) + "\n" +
                                 traceback.format_exc(limit=-8))
            run.engine_error = True
    return finish(run, src, key, t0)


def finish(run, src, key, t0):
    # merge obligations with the same name (same obligation on several paths)
    merged = {}
    for ob in run.obligations:
        m = merged.get(ob.name)
        if m is None:
            merged[ob.name] = {"name": ob.name, "paths": 1, "result": ob.result,
                               "solver_ms": ob.ms, "backend": ob.backend,
                               "kind": ob.kind, "model": ob.model,
                               "smt2": ob.smt2, "info": ob.info}
        else:
            m["paths"] += 1
            m["solver_ms"] += ob.ms
            if m["backend"] == "trivial":
                m["backend"] = ob.backend
            rank = {"unsat": 0, "unknown": 1, "sat": 2}
            if rank[ob.result] > rank[m["result"]]:
                m["result"] = ob.result
                m["model"] = ob.model
                m["smt2"] = ob.smt2
                m["info"] = ob.info
            elif m["smt2"] is None and ob.smt2 is not None:
                m["smt2"] = ob.smt2
    return {
        "key": key,
        "prop": run.prop,
        "paths": run.paths,
        "obligations": list(merged.values()),
        "raw_obligations": len(run.obligations),
        "undecided": sorted(set(run.undecided)),
        "engine_error": getattr(run, "engine_error", False),
        "missing": getattr(run, "missing", False),
        "covers": run.covers,
        "sha1": src.sha1(key) if src.get(key) is not None else None,
        "wall_s": time.time() - t0,
    }
