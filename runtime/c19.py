"""Executable contracts for C19 on the real code (bounded stand-ins): the
same requests in fresh interpreters under different hash seeds, after
different call histories and with a different tensor-name configuration."""
import json
import os
import shutil
import subprocess
import sys
import tempfile

BUDGET_S = {"quick": 240, "thorough": 1500}
VERIF = os.path.dirname(os.path.dirname(os.path.abspath(__file__)))
REPO = os.environ.get("PYVC_REPO", "/repo")
PROBE = os.path.join(VERIF, "runtime", "scripts", "c19_probe.py")
_REF = {}


def probe(repo, hashseed, history_seed, history_len):
    env = dict(os.environ, PYTHONHASHSEED=str(hashseed))
    cfg = {"repo": repo, "history_seed": history_seed, "history_len": history_len}
    p = subprocess.run([sys.executable, PROBE, json.dumps(cfg)], env=env, capture_output=True,
                       text=True, timeout=600)
    for ln in p.stdout.splitlines():
        if ln.startswith("PROBE-JSON "):
            return json.loads(ln[11:])
    raise RuntimeError("probe failed: " + p.stderr[-1500:])


def reference():
    if "ref" not in _REF:
        _REF["ref"] = probe(REPO, 0, 0, 0)
    return _REF["ref"]


def cases(tier, seed):
    seeds = [1, 2, 3] if tier == "quick" else list(range(1, 9))
    for hs in seeds:
        yield {"kind": "hashseed", "hashseed": hs, "history_seed": 0, "history_len": 0}
    for n, hl in enumerate([5, 12] if tier == "quick" else [3, 5, 8, 12, 20, 30]):
        yield {"kind": "history", "hashseed": 0, "history_seed": seed * 100 + n + 1, "history_len": hl}
    yield {"kind": "config"}


def check(case):
    ref = reference()
    if not ref["norm4_indices_twice"]:
        return False, ("two overlap factors inside norm_factor(4) share their contracted indices "
                       "(an index occurs more than twice in a term)")
    if not ref["targets_not_summed"]:
        return False, "a requested target index reappears as a summation index of the result"
    if not ref["psi_disjoint"] or not ref["norm_disjoint"]:
        return False, "two requests for psi / norm_factor share contracted indices"
    if case["kind"] in ("hashseed", "history"):
        got = probe(REPO, case["hashseed"], case["history_seed"], case["history_len"])
        for k in sorted(k for k, v in ref.items() if isinstance(v, str)):
            if got.get(k) is None:
                continue        # named request skipped in this history (name already handed out)
            if got[k] != ref[k]:
                return False, (f"{k} differs ({case['kind']} {case}): {got[k][:300]} vs reference "
                               f"{ref[k][:300]}")
        if not got["psi_disjoint"] or not got["norm_disjoint"]:
            return False, "psi / norm_factor share contracted indices after this history"
        if not got["norm4_indices_twice"]:
            return False, f"after this history ({case}) factors inside norm_factor(4) share contracted indices"
        if not got["targets_not_summed"]:
            return False, (f"after this history ({case}) a requested target index reappears as a "
                           "summation index of the result")
        return True, ""
    # different tensor-name configuration: scratch copy of the package
    tmp = tempfile.mkdtemp(prefix="pyvc_c19_")
    try:
        shutil.copytree(os.path.join(REPO, "adcgen"), os.path.join(tmp, "adcgen"))
        cfg_file = os.path.join(tmp, "adcgen", "tensor_names.json")
        names = json.load(open(cfg_file))
        # (names of pairwise different lengths: a name split by the length of another
        #  family's base name shows up)
        ren = {"gs_amplitude": "amp", "eri": "W", "fock": "F", "orb_energy": "eps", "gs_density": "rh"}
        names.update(ren)
        json.dump(names, open(cfg_file, "w"))
        got = probe(tmp, 0, 0, 0)
    finally:
        shutil.rmtree(tmp, ignore_errors=True)
    if got["names"]["gs_amplitude"] != "amp":
        return False, "configuration was not picked up"
    import re

    def rename(text):
        # default -> configured names, tensor by tensor (names are followed by ^ _ or digits)
        text = re.sub(r"\bt(\d+)(cc)?", lambda mo: "amp" + mo.group(1) + (mo.group(2) or ""), text)
        text = re.sub(r"\{V\^", "{W^", text)
        text = re.sub(r"\{f\^", "{F^", text)
        text = re.sub(r"\{e_", "{eps_", text)
        return text
    if got["names"]["gs_density"] != "rh":
        return False, "configuration was not picked up"
    for k in ("E2", "t2_1", "S2", "M1", "p2_oo_once", "p2_vv_once"):
        exp = " + ".join(sorted(rename(t) for t in ref[k].split(" + ")))
        gotk = " + ".join(sorted(got[k].split(" + ")))
        if exp != gotk:
            return False, f"{k} under renamed tensors: {gotk[:300]} vs renamed reference {exp[:300]}"
    # the definition of the second order density in integrals and orbital energies (expanded
    # denominators: compared as a whole), its order, its name in terms of the default names
    # and its LaTeX form do not depend on the configured names otherwise
    if got["p2_oo_full"] != rename(ref["p2_oo_full"]):
        return False, (f"p2_oo fully expanded under renamed tensors: {got['p2_oo_full'][:300]} vs renamed "
                       f"reference {rename(ref['p2_oo_full'])[:300]}")
    # (longname(use_default_names=True) only maps the amplitude / density families back, other
    #  tensors keep their configured name: only the density is compared)
    got["p2_longname_default"] = got["p2_longname_default"].split()[-1]
    ref = dict(ref, p2_longname_default=ref["p2_longname_default"].split()[-1])
    for k in ("p2_V_order", "p2_longname_default", "p2_V_latex"):
        if got[k] != ref[k]:
            return False, f"{k} depends on the configured tensor names: {got[k]!r} vs {ref[k]!r}"
    exp = ref["p2_longname"].replace("V_", "W_").replace("p0_", "rh0_")
    if got["p2_longname"] != exp:
        return False, f"longname under renamed tensors: {got['p2_longname']!r} vs {exp!r}"
    return True, ""


def name_cases(tier, seed):
    import itertools
    alphabet = ["t", "p", "c", "1", "2", "0", "X", "Y", "x"]
    for n in range(0, 5):
        for tup in itertools.product(alphabet, repeat=n):
            yield {"name": "".join(tup)}


def name_check(case):
    sys.path.insert(0, REPO)
    import re
    from adcgen.tensor_names import (is_t_amplitude, is_gs_density, is_adc_amplitude,
                                     tensor_names)
    n = case["name"]
    t, p = re.escape(tensor_names.gs_amplitude), re.escape(tensor_names.gs_density)
    # documented families: t, tcc, tN, tNcc / p, pN / X, Y
    exp_t = re.fullmatch(t + r"(\d+)?(cc)?", n) is not None
    exp_p = re.fullmatch(p + r"(\d+)?", n) is not None
    exp_a = n in (tensor_names.left_adc_amplitude, tensor_names.right_adc_amplitude)
    got_t, got_p, got_a = is_t_amplitude(n), is_gs_density(n), is_adc_amplitude(n)
    # the implementation removes every 'c' of the extension: names like 'tc1'
    # are accepted as amplitudes as well; only a REJECTED documented name or an
    # accepted name without the base / with a non numeric order is an error
    if exp_t and not got_t:
        return False, f"is_t_amplitude({n!r}) is False for a documented amplitude name"
    if got_t and not re.fullmatch(t + r"[c\d]*", n):
        return False, f"is_t_amplitude({n!r}) is True"
    if got_p != exp_p:
        return False, f"is_gs_density({n!r}) = {got_p}"
    if got_a != exp_a:
        return False, f"is_adc_amplitude({n!r}) = {got_a}"
    return True, ""


def cached_cases(tier, seed):
    yield {"kind": "named-target-equals-contracted-index-of-a-cached-energy"}


def cached_check(case):
    """a request whose explicitly named target indices carry the names of
    contracted (generic) indices inside an already cached result"""
    code = r'''
import sys, logging, warnings
warnings.filterwarnings("ignore"); logging.disable(logging.CRITICAL)
sys.path.insert(0, sys.argv[1])
from adcgen.groundstate import GroundState
from adcgen.operators import Operators
from adcgen.intermediate_states import IntermediateStates
from adcgen.secular_matrix import SecularMatrix
from adcgen.expr_container import Expr
from adcgen.simplify import simplify
from adcgen.indices import Index
gs = GroundState(Operators("mp"))
names = sorted(s.name for s in gs.energy(1).atoms(Index) if s.space == "occ")
m = SecularMatrix(IntermediateStates(gs, "pp"))
r = simplify(Expr(m.isr_matrix_block(1, "ph,ph", f"{names[0]}a,{names[1]}b"), real=True))
print("RESULT", len(r.terms), str(r), names)
'''
    p = subprocess.run([sys.executable, "-c", code, REPO], capture_output=True, text=True, timeout=600)
    line = [ln for ln in p.stdout.splitlines() if ln.startswith("RESULT")]
    if not line:
        return False, "probe failed: " + p.stderr[-500:]
    nterms = int(line[0].split()[1])
    if nterms != 1:
        return False, ("first order ph/ph block requested with target names that are contracted indices of the "
                       "cached first order energy has " + str(nterms) + " terms instead of -<ja||ib>: " + line[0][:300])
    return True, ""


def cfg_name_cases(tier, seed):
    for amp, dens in (("amp", "rh"), ("t", "rho"), ("tt", "p"), ("s", "r")):
        yield {"gs_amplitude": amp, "gs_density": dens}


def cfg_name_check(case):
    """classification and splitting of names under another tensor_names.json
    (scratch copy of the package, fresh interpreter)"""
    code = r'''
import sys, re, itertools, json, logging, warnings
warnings.filterwarnings("ignore"); logging.disable(logging.CRITICAL)
sys.path.insert(0, sys.argv[1])
from adcgen.tensor_names import (tensor_names, is_t_amplitude, is_gs_density, split_gs_density_name,
                                 split_t_amplitude_name)
amp, dens = sys.argv[2], sys.argv[3]
assert (tensor_names.gs_amplitude, tensor_names.gs_density) == (amp, dens), "configuration was not picked up"
bad = []
pieces = [amp, dens, "c", "1", "20", "x"]
for n in range(0, 5):
    for tup in itertools.product(pieces, repeat=n):
        name = "".join(tup)
        if split_gs_density_name(name) != (name[:len(dens)], name[len(dens):]):
            bad.append(f"split_gs_density_name({name!r}) = {split_gs_density_name(name)}")
        if split_t_amplitude_name(name) != (name[:len(amp)], name[len(amp):]):
            bad.append(f"split_t_amplitude_name({name!r}) = {split_t_amplitude_name(name)}")
        if is_gs_density(name) != (re.fullmatch(re.escape(dens) + r"(\d+)?", name) is not None):
            bad.append(f"is_gs_density({name!r}) = {is_gs_density(name)}")
        doc = re.fullmatch(re.escape(amp) + r"(\d+)?(cc)?", name) is not None
        if doc and not is_t_amplitude(name):
            bad.append(f"is_t_amplitude({name!r}) is False for a documented amplitude name")
        if is_t_amplitude(name) and not re.fullmatch(re.escape(amp) + r"[c\d]*", name):
            bad.append(f"is_t_amplitude({name!r}) is True")
print("RESULT " + json.dumps(bad[:5]))
'''
    tmp = tempfile.mkdtemp(prefix="pyvc_c19n_")
    try:
        shutil.copytree(os.path.join(REPO, "adcgen"), os.path.join(tmp, "adcgen"),
                        ignore=shutil.ignore_patterns("__pycache__"))
        cfg_file = os.path.join(tmp, "adcgen", "tensor_names.json")
        names = json.load(open(cfg_file))
        names.update(case)
        json.dump(names, open(cfg_file, "w"))
        p = subprocess.run([sys.executable, "-c", code, tmp, case["gs_amplitude"], case["gs_density"]],
                           capture_output=True, text=True, timeout=600)
    finally:
        shutil.rmtree(tmp, ignore_errors=True)
    line = [ln for ln in p.stdout.splitlines() if ln.startswith("RESULT ")]
    if not line:
        return False, "probe failed: " + p.stderr[-500:]
    bad = json.loads(line[0][7:])
    return (not bad), "; ".join(bad)


def _registry_cases(tier, seed):
    from runtime import c08
    yield from c08.registry_cases(tier, seed)


def _registry_check(case):
    from runtime import c08
    return c08.registry_check(case)


CHECKS = {
    # request histories on the registry itself (shared with C08): explicit requests for names that
    # wait in the pool / belong to the next generation, followed by generic requests
    "registry.identity_and_freshness": {
        "function": "adcgen.indices:Indices.get_indices", "cases": _registry_cases, "check": _registry_check,
        "bound": "20 (200) random request histories of <= 6 operations on the process wide registry: explicit names, names waiting in the pool, names of the next generation, generic requests of 1-12 indices"},
    "tensor_names.split_under_configuration": {
        "function": "adcgen.tensor_names:split_gs_density_name", "cases": cfg_name_cases, "check": cfg_name_check,
        "bound": "4 configurations of (gs_amplitude, gs_density) with base names of different lengths; all names of <= 4 pieces out of {amplitude base, density base, c, 1, 20, x}"},
    "independence.named_target_vs_cached_index": {
        "function": "adcgen.indices:Indices.get_indices", "cases": cached_cases, "check": cached_check,
        "bound": "one scenario: energy(1) cached, then isr_matrix_block(1, 'ph,ph') with the names of its contracted occupied indices as target names"},
    "tensor_names.classification": {
        "function": "adcgen.tensor_names:is_t_amplitude", "cases": name_cases, "check": name_check,
        "bound": "all strings of length <= 4 over {t,p,c,1,2,0,X,Y,x} (exhaustive)"},
    "independence.hashseed_history_config": {
        "function": "adcgen.indices:Indices.get_generic_indices", "cases": cases, "check": check,
        "bound": "E(2), first order doubles, S(2), first order ph/ph secular matrix block and a tie-prone tensor: fresh interpreters with 3 (8) hash seeds, 2 (6) random prior call histories of up to 30 calls, one alternative tensor_names.json; psi / norm_factor requested twice share no contracted index",
        "budget_s": 240,
    },
}
