"""Value domain of the symbolic executor.

Concrete Python values (int, bool, str, None, float, tuple) are used as they
are.  Everything symbolic is a `Sym` (a z3 term).  Mutable containers have a
concrete shape (`PList`, `PDict`, `PSet`, `Inst`) with symbolic contents, or
are fully symbolic (`SymSeq`, `SymSet`, `SymMap`).  Aliasing is Python object
identity of these wrappers: every path is executed from scratch, so no state
is ever copied.
"""
import z3


class Unsupported(Exception):
    """Construct outside the supported subset: the obligation is UNDECIDED."""


class Sym:
    """z3 term.  With `enum` set the term is an Int *code*: the value is the
    python string enum[code] (finite string domains are encoded as integers,
    never as z3 strings)."""
    __slots__ = ("t", "schema", "enum")

    def __init__(self, t, schema=None, enum=None):
        self.t = t
        self.schema = schema   # name of an abstract class schema (or None)
        self.enum = enum

    def __repr__(self):
        return f"Sym({self.t})"

    def sort(self):
        return self.t.sort()


class Struct:
    """Python-side abstract object with (possibly symbolic) fields; used for
    abstract views of sympy objects that never need to be stored in a
    symbolic collection."""

    def __init__(self, cls, **fields):
        self.cls = cls
        self.f = dict(fields)

    def __repr__(self):
        return f"Struct<{self.cls}>({self.f})"


class PList:
    def __init__(self, items=None):
        self.items = list(items or [])

    def __repr__(self):
        return f"PList({self.items})"


class PDict:
    """dict with concrete (hashable Python) keys; insertion ordered."""

    def __init__(self, d=None):
        self.d = dict(d or {})

    def __repr__(self):
        return f"PDict({self.d})"


class KDict:
    """dict whose keys are symbolic objects (e.g. Index): insertion ordered
    list of (key, value); keys are pairwise distinct on the current path
    (decided when a key is inserted)."""

    def __init__(self, pairs=None):
        self.pairs = list(pairs or [])

    def __repr__(self):
        return f"KDict({self.pairs})"


class PSet:
    def __init__(self, items=None):
        self.items = []
        for i in items or []:
            if i not in self.items:
                self.items.append(i)

    def __repr__(self):
        return f"PSet({self.items})"


class Inst:
    """Instance of an adcgen class (or a contract supplied record)."""

    def __init__(self, cls, attrs=None):
        self.cls = cls            # class key "module:Class" or plain name
        self.attrs = dict(attrs or {})

    def __repr__(self):
        return f"Inst<{self.cls}>({self.attrs})"


class SymSeq:
    """Sequence of symbolic length.  `arrs` are z3 arrays Int -> sort, `shape`
    tells how one element is rebuilt from them: ("sym", schema) for a single
    Sym, ("tuple", [shape, ...]) for tuples."""

    def __init__(self, length, arrs, shape, mutable=True):
        self.len = length      # z3 Int term or python int
        self.arrs = list(arrs)
        self.shape = shape
        self.mutable = mutable

    def __repr__(self):
        return f"SymSeq(len={self.len})"


class SymSet:
    """Set of Sym elements of one sort: characteristic array."""

    def __init__(self, arr, schema=None):
        self.arr = arr
        self.schema = schema


class SymMap:
    """dict keyed by Sym of one sort: domain array + value array(s)."""

    def __init__(self, dom, vals, shape, key_schema=None):
        self.dom = dom
        self.vals = list(vals)
        self.shape = shape
        self.key_schema = key_schema


class FuncRef:
    def __init__(self, key, closure=None, self_obj=None):
        self.key = key
        self.closure = closure   # Frame of the enclosing function (nested defs)
        self.self_obj = self_obj

    def __repr__(self):
        return f"FuncRef({self.key})"


class ClassRef:
    def __init__(self, key):
        self.key = key           # "module:Class" for adcgen, dotted for ext

    def __repr__(self):
        return f"ClassRef({self.key})"

    def __eq__(self, other):
        return isinstance(other, ClassRef) and other.key == self.key

    def __hash__(self):
        return hash(("ClassRef", self.key))


class ExtRef:
    """Reference to something outside adcgen (sympy, itertools, ...)."""

    def __init__(self, dotted):
        self.dotted = dotted

    def __repr__(self):
        return f"ExtRef({self.dotted})"


class BoundMethod:
    def __init__(self, obj, name):
        self.obj = obj
        self.name = name


class LambdaVal:
    def __init__(self, node, frame):
        self.node = node
        self.frame = frame


class PyFunc:
    """Model implemented in Python: fn(vc, args, kwargs) -> Value."""

    def __init__(self, fn, name="<model>"):
        self.fn = fn
        self.name = name


# ---------------------------------------------------------------------------
# helpers to mix python and z3 values
# ---------------------------------------------------------------------------

def is_sym(v):
    return isinstance(v, Sym)


def is_enum(v):
    return isinstance(v, Sym) and v.enum is not None


def mk_enum(t, domain):
    """enum symbol (python str if the code is a literal)"""
    t = z3.simplify(t)
    if z3.is_int_value(t):
        return domain[t.as_long()]
    return Sym(t, enum=list(domain))


def enum_valid(t, domain):
    return z3.And(t >= 0, t < len(domain))


def enum_map(v, fn):
    """apply a python function str -> str pointwise to an enum symbol"""
    images = [fn(d) for d in v.enum]
    newdom = []
    for im in images:
        if im not in newdom:
            newdom.append(im)
    t = z3.IntVal(newdom.index(images[-1]))
    for code in reversed(range(len(images) - 1)):
        t = z3.If(v.t == code, z3.IntVal(newdom.index(images[code])), t)
    return mk_enum(t, newdom)


def enum_eq(a, b):
    """equality of enum symbol(s) / python strings"""
    if isinstance(a, str) and isinstance(b, str):
        return a == b
    if isinstance(b, Sym) and b.enum is not None and not (isinstance(a, Sym) and a.enum is not None):
        a, b = b, a
    if isinstance(b, str):
        if b not in a.enum:
            return False
        return a.t == a.enum.index(b)
    if isinstance(b, Sym) and b.enum is not None:
        if a.enum == b.enum:
            return a.t == b.t
        common = [x for x in a.enum if x in b.enum]
        return zor(*[z3.And(a.t == a.enum.index(x), b.t == b.enum.index(x)) for x in common])
    return False


def enum_rank(v, universe):
    """Int term: rank of the string value within sorted(universe)"""
    if isinstance(v, str):
        return z3.IntVal(universe.index(v))
    t = z3.IntVal(universe.index(v.enum[-1]))
    for code in reversed(range(len(v.enum) - 1)):
        t = z3.If(v.t == code, z3.IntVal(universe.index(v.enum[code])), t)
    return t


def enum_less(a, b, strict=True):
    da = [a] if isinstance(a, str) else a.enum
    db = [b] if isinstance(b, str) else b.enum
    uni = sorted(set(da) | set(db))
    ra, rb = enum_rank(a, uni), enum_rank(b, uni)
    return ra < rb if strict else ra <= rb


def enum_to_string_term(v):
    t = z3.StringVal(v.enum[-1])
    for code in reversed(range(len(v.enum) - 1)):
        t = z3.If(v.t == code, z3.StringVal(v.enum[code]), t)
    return t


def term(v):
    """z3 term of a python/Sym scalar."""
    if isinstance(v, Sym):
        if v.enum is not None:
            return enum_to_string_term(v)
        return v.t
    if isinstance(v, bool):
        return z3.BoolVal(v)
    if isinstance(v, int):
        return z3.IntVal(v)
    if isinstance(v, str):
        return z3.StringVal(v)
    if isinstance(v, float):
        return z3.RealVal(repr(v))
    if z3.is_expr(v):
        return v
    raise Unsupported(f"no z3 term for {v!r}")


def wrap(t, schema=None):
    """Sym for a z3 term, concrete python value if the term is a literal."""
    if not z3.is_expr(t):
        return t
    t = z3.simplify(t)
    if z3.is_true(t):
        return True
    if z3.is_false(t):
        return False
    if z3.is_int_value(t):
        return t.as_long()
    if z3.is_string_value(t):
        return t.as_string()
    return Sym(t, schema)


def zand(*xs):
    ts = []
    for x in xs:
        if x is True:
            continue
        if x is False:
            return False
        ts.append(term(x))
    if not ts:
        return True
    return z3.And(*ts) if len(ts) > 1 else ts[0]


def zor(*xs):
    ts = []
    for x in xs:
        if x is False:
            continue
        if x is True:
            return True
        ts.append(term(x))
    if not ts:
        return False
    return z3.Or(*ts) if len(ts) > 1 else ts[0]


def znot(x):
    if x is True:
        return False
    if x is False:
        return True
    return z3.Not(term(x))


def zimp(a, b):
    return zor(znot(a), b)


def zeq(a, b):
    """Equality of two scalars (python or Sym) as python bool / z3 Bool."""
    if not isinstance(a, Sym) and not isinstance(b, Sym) \
            and not z3.is_expr(a) and not z3.is_expr(b):
        return a == b
    if is_enum(a) or is_enum(b):
        if (is_enum(a) or isinstance(a, str)) and (is_enum(b) or isinstance(b, str)):
            return enum_eq(a, b)
    ta, tb = term(a), term(b)
    if ta.sort() != tb.sort():
        if z3.is_int(ta) and z3.is_real(tb):
            ta = z3.ToReal(ta)
        elif z3.is_real(ta) and z3.is_int(tb):
            tb = z3.ToReal(tb)
        else:
            return False
    return ta == tb


def zite(c, a, b):
    if c is True:
        return a
    if c is False:
        return b
    ta, tb = term(a), term(b)
    if z3.is_int(ta) and z3.is_real(tb):
        ta = z3.ToReal(ta)
    if z3.is_real(ta) and z3.is_int(tb):
        tb = z3.ToReal(tb)
    return z3.If(term(c), ta, tb)
