"""Abstract models and loop-contract helpers shared by C03/C04/C05 (ISR level).

Index strings and space strings are concrete Python strings on every path
(the contracts enumerate the blocks); perturbation orders are symbolic.
"""
import z3
from pyvc import contract as C
from pyvc.contract import Contract, LoopContract, register
from pyvc.values import (Struct, Sym, SymSeq, PList, PDict, Inst, term, wrap, zand, zor,
                         znot, zeq, mk_enum, Unsupported)
from pyvc.vc import RaiseEx
from pyvc.builtins import SymIter
from spec.exprval import mk_expr, as_expr, real
from spec.series import (AtomSort, RulesSort, NO_RULES, VEV, atom_nc, mk_nc, new_stamp,
                         stamps_of)
from spec import gsmodel as G
from spec.idx import IdxSort

_FN = {}


def fn(name, *sorts):
    key = (name,) + tuple(str(s) for s in sorts)
    if key not in _FN:
        _FN[key] = z3.Function(name, *sorts)
    return _FN[key]


def atom_of(kind, *key):
    """atom valued function of the perturbation order for a fixed concrete
    key (space, braket, index string, ...)"""
    return fn(f"{kind}[{'|'.join(map(str, key))}]", z3.IntSort(), AtomSort)


def real_of(kind, *key):
    return fn(f"{kind}[{'|'.join(map(str, key))}]", z3.IntSort(), z3.RealSort())


# --- compositions as an abstract enumeration -------------------------------------
NCOMP = z3.Function("n_compositions", z3.IntSort(), z3.IntSort(), z3.IntSort(), z3.IntSort())
COMP = z3.Function("composition_part", z3.IntSort(), z3.IntSort(), z3.IntSort(), z3.IntSort(),
                   z3.IntSort(), z3.IntSort())   # n, L, m, k, i -> part


def comp_item(vc, n, L, m, k):
    """k-th composition of n into L (concrete) parts >= m: tuple of Sym ints.
    Assumed contract of gen_term_orders: a duplicate free enumeration of the
    compositions; the enumeration order is immaterial for the sums."""
    n, m, k = term(n), term(m), term(k)
    parts = [COMP(n, z3.IntVal(L), m, k, z3.IntVal(i)) for i in range(L)]
    vc.assume(z3.Implies(z3.And(k >= 0, k < NCOMP(n, z3.IntVal(L), m)),
                         z3.And(sum(parts) == n, *[p >= m for p in parts])))
    return tuple(Sym(p) for p in parts)


def compositions_symiter(ip, obj):
    n, L, m = obj.f["n"], obj.f["L"], obj.f["m"]
    Ls = z3.simplify(L)
    if not z3.is_int_value(Ls):
        # symbolic number of parts: the items are symbolic-length tuples
        ip.vc.assume(NCOMP(n, L, m) >= 0)
        return SymIter("compositions", obj, Sym(NCOMP(n, L, m)),
                       lambda ip_, k: Struct("CompTuple", n=n, L=L, m=m, k=term(k)))
    Lc = Ls.as_long()
    ip.vc.assume(NCOMP(n, L, m) >= 0)
    return SymIter("compositions", obj, Sym(NCOMP(n, L, m)),
                   lambda ip_, k: comp_item(ip_.vc, n, Lc, m, k))


C.STRUCT_SYMITER["Compositions"] = compositions_symiter


def comptuple_symiter(ip, obj):
    """the parts of one composition (symbolic number of parts)"""
    f = obj.f

    def item(ip_, j):
        p = COMP(f["n"], f["L"], f["m"], f["k"], term(j))
        ip_.vc.assume(z3.Implies(z3.And(term(j) >= 0, term(j) < f["L"]), p >= f["m"]))
        return Sym(p)
    return SymIter("composition-parts", obj, Sym(f["L"]), item)


C.STRUCT_SYMITER["CompTuple"] = comptuple_symiter


# --- models of small adcgen helpers -----------------------------------------------
@register
class TransformToTuple(Contract):
    key = "adcgen.misc:transform_to_tuple"
    props = []
    assumed = True
    note = "str -> tuple(split(',')), list -> tuple, tuple -> itself, else Inputerror"

    def apply(self, vc, a):
        v = a["input"]
        if isinstance(v, str):
            return tuple(v.split(","))
        if isinstance(v, tuple):
            return v
        if isinstance(v, PList):
            return tuple(v.items)
        raise RaiseEx("Inputerror", "transform_to_tuple")


C.INLINE.add("adcgen.indices:repeated_indices")
C.INLINE.add("adcgen.indices:split_idx_string")


@register
class GenericIndicesFromSpace(Contract):
    key = "adcgen.indices:generic_indices_from_space"
    props = []
    assumed = True
    note = "fresh generic indices (never handed out before), occupied before virtual, one per h / p of the space string"

    def apply(self, vc, a):
        space = a["space_str"]
        if not isinstance(space, str):
            raise Unsupported("symbolic space string")
        n = vc.ghost.get("_generic_counter", 100) + 1
        vc.ghost["_generic_counter"] = n
        out = []
        for k in range(space.count("h")):
            out.append(G.registry_index(vc, "ijklmno"[k % 7] + str(n)))
        for k in range(space.count("p")):
            out.append(G.registry_index(vc, "abcdefgh"[k % 8] + str(n)))
        return PList(out)


def _concrete_name(ip, s):
    """name of an index created by the registry model: a concrete string"""
    for (name, spin), sym in ip.vc.ghost.get("_registry", {}).items():
        if z3.eq(sym.t, s.t):
            return name
    return Struct("IdxName", t=s.t)


C.SCHEMAS["Index"].attrs["name"] = ("py", _concrete_name)


def n_occ_virt(space):
    return space.count("h"), space.count("p")


def class_factor(space):
    """1/(n_o! n_v!) of an excitation class: weight of an UNRESTRICTED sum over
    the class (documented normalisation, `lift(L)` in DESIGN)"""
    import math
    no, nv = n_occ_virt(space)
    return z3.RealVal(1) / (math.factorial(no) * math.factorial(nv))


SQRT = z3.Function("sqrt", z3.RealSort(), z3.RealSort())


def model_sqrt(ip, args, kwargs):
    v = real(args[0])
    r = SQRT(v)
    ip.vc.assume(z3.And(r * r == v, r >= 0))
    return mk_expr(r, False)


C.EXTERNALS["sympy.sqrt"] = model_sqrt


def sqrt_class_factor(vc, space):
    import math
    no, nv = n_occ_virt(space)
    v = z3.RealVal(math.factorial(no) * math.factorial(nv))
    r = SQRT(v)
    vc.assume(z3.And(r * r == v, r >= 0))
    return z3.RealVal(1) / r


def rules_term(rules):
    """z3 term for a rules argument (Struct Rules / Inst of the real class /
    None)"""
    if rules is None:
        return NO_RULES
    if isinstance(rules, Struct):
        return rules.f["t"]
    if isinstance(rules, Inst):
        fb = rules.attrs.get("_forbidden_blocks")
        if fb is None:
            return NO_RULES
    raise Unsupported("rules object")


# equality with 0 (structural zero tests in the glue code)
def _expr_eq(ip, a, b):
    for x, y in ((a, b), (b, a)):
        if isinstance(x, Struct) and x.cls == "Expr" and isinstance(y, int) and not isinstance(y, bool):
            if y == 0:
                z = x.f["zero"]
                return z.t if isinstance(z, Sym) else z
            return False
    if a is b:
        return True
    raise Unsupported("equality of abstract expressions")


C.STRUCT_EQ["Expr"] = _expr_eq
C.STRUCT_EQ["NC"] = lambda ip, a, b: False if (isinstance(a, int) or isinstance(b, int)) else (a is b)


# --- norm factor (contract used by callers; verified under C02) --------------------
NORM = z3.Function("NormFactor", z3.IntSort(), z3.RealSort())


@register
class NormFactor(Contract):
    key = "adcgen.groundstate:GroundState.norm_factor"
    props = []
    assumed = True
    note = "n-th order coefficient of 1/<Psi|Psi>; uncached: every call has fresh contracted indices"

    def apply(self, vc, a):
        o = a["order"]
        if vc.decide((o < 0) if isinstance(o, int) else o.t < 0):
            raise RaiseEx("Inputerror")
        e = mk_expr(NORM(term(o)), False)
        z = vc.fresh_bool("norm_zero")
        vc.assume(z3.Implies(z, e.f["val"] == 0))
        e.f["zero"] = Sym(z)
        e.f["stamps"] = new_stamp(vc, "norm_factor")
        return e


# --- the recurring double loop  sum_{a+r=n} norm(a) * sum_{comp of r} TERM -----------
class NormOuterLoop(LoopContract):
    """for norm_term in gen_term_orders(n, 2, 0): ... res += (norm * inner).expand()"""
    res_var = "res"
    order_var = "order"
    inner_len = 3
    tag = "Q"

    def outer(self, frame):
        return fn(f"OUTER[{self.tag}]", z3.IntSort(), z3.IntSort(), z3.RealSort())

    def inner_total(self, vc, frame, r):
        inner = fn(f"INNER[{self.tag}]", z3.IntSort(), z3.IntSort(), z3.RealSort())
        return inner(r, NCOMP(r, z3.IntVal(self.inner_len), z3.IntVal(0)))

    def iter_spec(self, vc, frame, seq):
        from contracts.c02 import iter_is_compositions2
        return iter_is_compositions2(vc, seq, frame[self.order_var], 0)

    def havoc(self, vc, frame, k, seq):
        e = mk_expr(vc.fresh_real("res"), False)
        e.f["stamps"] = frozenset()
        frame[self.res_var] = e
        for nm in self.scratch:
            frame.locals.pop(nm, None)

    scratch = ()

    def invariant(self, vc, frame, k, seq):
        n = term(frame[self.order_var])
        kk = term(k)
        O = self.outer(frame)
        vc.assume(O(n, 0) == 0)
        vc.assume(z3.Implies(kk >= 0, O(n, kk + 1) == O(n, kk) +
                             NORM(kk) * self.inner_total(vc, frame, n - kk)))
        return [("accumulator-is-prefix-of-norm-times-inner-sum",
                 as_expr(frame[self.res_var]).f["val"] == O(n, kk))]


class InnerSumLoop(LoopContract):
    """for term in gen_term_orders(r, L, 0): acc += TERM(term)"""
    acc_var = "matrix"
    rest_of = None          # name of the loop variable holding (norm_order, rest)
    inner_len = 3
    tag = "Q"
    scratch = ()

    def rest(self, frame):
        raise NotImplementedError

    def term_spec(self, vc, frame, parts):
        raise NotImplementedError

    def iter_spec(self, vc, frame, seq):
        r = term(self.rest(frame))
        ok = isinstance(seq.obj, Struct) and seq.obj.cls == "Compositions" and \
            z3.is_int_value(z3.simplify(seq.obj.f["L"]))
        if ok:
            o = seq.obj.f
            return [("runs-over-the-compositions-of-the-remaining-order",
                     zand(o["n"] == r, o["L"] == self.inner_len, o["m"] == 0))]
        if self.inner_len == 2:
            from contracts.c02 import iter_is_compositions2
            return iter_is_compositions2(vc, seq, self.rest(frame), 0)
        return [("runs-over-the-compositions-of-the-remaining-order", False)]

    def havoc(self, vc, frame, k, seq):
        e = mk_expr(vc.fresh_real("inner"), False)
        e.f["stamps"] = frozenset()
        frame[self.acc_var] = e
        for nm in self.scratch:
            frame.locals.pop(nm, None)

    def parts_at(self, vc, frame, k):
        r = term(self.rest(frame))
        if self.inner_len == 2:
            return (Sym(z3.simplify(term(k))), Sym(z3.simplify(r - term(k))))
        return comp_item(vc, r, self.inner_len, 0, k)

    def invariant(self, vc, frame, k, seq):
        r = term(self.rest(frame))
        kk = term(k)
        inner = fn(f"INNER[{self.tag}]", z3.IntSort(), z3.IntSort(), z3.RealSort())
        parts = self.parts_at(vc, frame, kk)
        vc.assume(inner(r, 0) == 0)
        if self.inner_len == 2:
            # the L = 2 enumeration is explicit: n_compositions = r + 1
            vc.assume(z3.Implies(r >= 0, NCOMP(r, z3.IntVal(2), z3.IntVal(0)) == r + 1))
        vc.assume(z3.Implies(kk >= 0, inner(r, kk + 1) == inner(r, kk) +
                             self.term_spec(vc, frame, [p.t if isinstance(p, Sym) else z3.IntVal(p) for p in parts])))
        return [("accumulator-is-prefix-of-the-inner-sum",
                 as_expr(frame[self.acc_var]).f["val"] == inner(r, kk))]
