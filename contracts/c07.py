"""C07 - simplify preserves the value.  Contract on adcgen.simplify:simplify
(bookkeeping over the result of find_compatible_terms)."""
import z3
from pyvc import contract as C
from pyvc.contract import Contract, LoopContract, register, lemma
from pyvc.values import (Struct, Sym, SymSeq, SymMap, PList, PDict, term, wrap, zand, zor,
                         znot, zeq, Unsupported)
from pyvc.vc import RaiseEx

ASSUMPTIONS = [
    "alpha-renaming lemma (math): a bijective, space and spin preserving renaming of the contracted indices of a term that fixes its target indices does not change its value",
    "find_compatible_terms.compare_terms (soundness under contract): sympy - a difference of two products that is not an Add is a single product or zero, so a substitution that passes the acceptance test makes the terms multiples of each other; the candidate enumeration (index patterns, target filter, itertools.product) runs on opaque values - completeness (that alpha-equivalent terms are found) only in the bounded stand-ins; order_substitutions by its C08 contract",
    "find_compatible_terms (grouping loop: assumed contract, not verified): the keys of the result and the keys of all inner dicts partition range(len(terms)); every inner value is such a renaming that maps the matched term onto the key term (bounded stand-ins simplify.value and simplify.merges)",
    "sympy subs applies an ordered substitution list left to right; Expr.expand and Add preserve the value",
]
TRUSTED = ["alpha-renaming lemma (math)"]
TermS = z3.DeclareSort("TermS")
MatchS = z3.DeclareSort("Matches")
SubS = z3.DeclareSort("Substitution")
TVAL = z3.Function("term_value", TermS, z3.RealSort())
INDOM = z3.Function("matched_terms", MatchS, z3.ArraySort(z3.IntSort(), z3.BoolSort()))
INSUB = z3.Function("matched_substitution", MatchS, z3.ArraySort(z3.IntSort(), SubS))
TermArr = z3.ArraySort(z3.IntSort(), TermS)


def matches_items(ip, obj, args, kwargs):
    m = SymMap(INDOM(obj.t), [INSUB(obj.t)], ("sym", SubS), key_schema=None)
    m.owner = obj.t
    return Struct("mapview", m=m, kind="items")


C.Schema("Matches", MatchS, methods={"items": matches_items})


def term_subs(ip, obj, args, kwargs):
    return Struct("SubstTerm", term=obj.t, sub=args[0])


def term_arith(ip, opn, a, b):
    if opn == "Add":
        acc, t = (a, b) if not (isinstance(a, Sym) and a.schema == "TermS") else (b, a)
        base = z3.RealVal(0) if (isinstance(acc, int) and acc == 0) else acc.f["val"]
        return Struct("ExprAcc", val=base + TVAL(t.t))
    raise Unsupported("operator on a term")


sch = C.Schema("TermS", TermS, methods={"subs": term_subs})
sch.arith = term_arith


def acc_arith(ip, opn, a, b):
    if opn == "Add":
        acc, other = (a, b) if isinstance(a, Struct) and a.cls == "ExprAcc" else (b, a)
        if isinstance(other, Sym) and other.schema == "TermS":
            return Struct("ExprAcc", val=acc.f["val"] + TVAL(other.t))
        if isinstance(other, Struct) and other.cls == "SubstTerm":
            exp = ip.vc.ghost.get("_expected_sub")
            ip.vc.check("subs#matched-term-is-renamed-with-its-own-substitution",
                        False if exp is None else other.f["sub"].t == exp(other.f["term"]))
            return Struct("ExprAcc", val=acc.f["val"] + TVAL(other.f["term"]))
    raise Unsupported("operator on the result accumulator")


C.STRUCT_ARITH["ExprAcc"] = acc_arith
C.STRUCT_ARITH["SubstTerm"] = lambda ip, opn, a, b: acc_arith(
    ip, opn, Struct("ExprAcc", val=z3.RealVal(0)) if isinstance(a, int) else a,
    b if not isinstance(b, int) else Struct("ExprAcc", val=z3.RealVal(0)))

OUTER = z3.Function("outer_prefix", z3.ArraySort(z3.IntSort(), z3.IntSort()), z3.IntSort(), z3.RealSort())
INNER = z3.Function("inner_prefix", MatchS, z3.ArraySort(z3.IntSort(), z3.IntSort()), z3.IntSort(), z3.RealSort())
INNERTOTAL = z3.Function("matched_terms_value", MatchS, z3.RealSort())


class OuterLoop(LoopContract):
    def iter_spec(self, vc, frame, seq):
        return [("runs-over-the-compatible-term-groups", seq.kind == "mapitems" and
                 seq.map is frame["equal_terms"])]

    def havoc(self, vc, frame, k, seq):
        frame["res"] = Struct("ExprAcc", val=vc.fresh_real("res"))
        for nm in ("n", "matches", "other_n", "sub"):
            frame.locals.pop(nm, None)

    def invariant(self, vc, frame, k, seq):
        g = vc.ghost["_c07"]
        kk = term(k)
        enum = seq.enum
        vc.ghost["_outer_enum"] = enum
        m = seq.map
        n_k = enum[kk]
        # instance of the (assumed) contract of find_compatible_terms: keys
        # and matched positions are positions of the term list
        vc.assume(z3.Implies(m.dom[n_k], z3.And(n_k >= 0, n_k < g["n"])))
        vc.assume(OUTER(enum, 0) == 0)
        vc.assume(z3.Implies(kk >= 0, OUTER(enum, kk + 1) == OUTER(enum, kk) +
                             TVAL(g["terms"][n_k]) + INNERTOTAL(z3.Select(m.vals[0], n_k))))
        r = frame["res"]
        v = z3.RealVal(0) if (isinstance(r, int) and r == 0) else r.f["val"]
        return [("result-is-key-terms-plus-their-renamed-matches", v == OUTER(enum, kk))]


class InnerLoop(LoopContract):
    def iter_spec(self, vc, frame, seq):
        ok = seq.kind == "mapitems" and getattr(seq.map, "owner", None) is not None and \
            isinstance(frame["matches"], Sym) and z3.eq(seq.map.owner, frame["matches"].t)
        return [("runs-over-the-matches-of-the-key-term", ok)]

    def havoc(self, vc, frame, k, seq):
        frame["res"] = Struct("ExprAcc", val=vc.fresh_real("res"))
        for nm in ("other_n", "sub"):
            frame.locals.pop(nm, None)

    def invariant(self, vc, frame, k, seq):
        g = vc.ghost["_c07"]
        kk = term(k)
        mt = frame["matches"].t
        enum = seq.enum
        o_k = enum[kk]
        vc.assume(z3.Implies(z3.Select(INDOM(mt), o_k), z3.And(o_k >= 0, o_k < g["n"])))
        # the substitution recorded for the pair (key term, matched term o)
        terms = g["terms"]
        vc.ghost["_expected_sub"] = lambda tterm: z3.Select(INSUB(mt), o_k)
        vc.assume(INNER(mt, enum, 0) == 0)
        vc.assume(z3.Implies(kk >= 0, INNER(mt, enum, kk + 1) == INNER(mt, enum, kk) + TVAL(terms[o_k])))
        # the matched terms' total value is the sum along any enumeration
        vc.assume(INNERTOTAL(mt) == INNER(mt, enum, term(seq.length())))
        r = frame["res"]
        if isinstance(k, int) and k == 0:
            # loop entry: value accumulated before the matches are added
            vc.ghost["_inner_base"] = (mt, r.f["val"])
        base = vc.ghost["_inner_base"]
        return [("adds-each-matched-term-once", r.f["val"] == base[1] + INNER(mt, enum, kk))]


@register
class Simplify(Contract):
    key = "adcgen.simplify:simplify"
    props = ["C07"]
    loops = {0: OuterLoop(), 1: InnerLoop()}

    def setup(self, vc):
        n = vc.fresh_int("nterms")
        vc.assume(n >= 0)
        arr = vc.fresh("terms", TermArr)
        terms = SymSeq(Sym(n), [arr], ("sym", TermS, "TermS"), mutable=False)
        expr = Struct("ExprArg", termseq=terms)
        C.STRUCT_ATTR[("ExprArg", "terms")] = lambda ip, o: o.f["termseq"]
        C.STRUCT_METHODS[("ExprArg", "expand")] = lambda ip, o, a, k: o
        C.STRUCT_LEN["ExprArg"] = lambda ip, o: o.f["termseq"].len
        C.STRUCT_ISINSTANCE["ExprArg"] = lambda ip, v, cls: True
        vc.ghost["_c07"] = {"terms": arr, "n": n}
        return {"expr": expr}

    def post(self, vc, a, result):
        g = vc.ghost["_c07"]
        if result is a["expr"]:
            return [("single-term-expression-is-returned-unchanged", g["n"] == 1)]
        enum = vc.ghost.get("_outer_enum")
        if enum is None or not (isinstance(result, Struct) and result.cls == "ExprAcc") and result != 0:
            return [("result-shape", False)]
        fct = vc.ghost["_fct_len"]
        v = z3.RealVal(0) if isinstance(result, int) else result.f["val"]
        return [("value-is-sum-over-groups-of-key-term-plus-renamed-matches", v == OUTER(enum, fct))]


@register
class FindCompatibleTerms(Contract):
    key = "adcgen.simplify:find_compatible_terms"
    props = []
    assumed = True
    note = "partition of the term positions into key terms and their matches, each match with a value preserving renaming (not verified; bounded stand-ins)"

    def apply(self, vc, a):
        dom = vc.fresh("groups", z3.ArraySort(z3.IntSort(), z3.BoolSort()))
        vals = vc.fresh("group_matches", z3.ArraySort(z3.IntSort(), MatchS))
        m = SymMap(dom, [vals], ("sym", MatchS, "Matches"), key_schema=None)
        return m


_orig_map_symiter = None


def _patch_len_capture():
    """remember the length of the outer enumeration for the postcondition"""
    from pyvc import builtins as B
    orig = B.map_symiter

    def patched(ip, m, kind):
        si = orig(ip, m, kind)
        if getattr(m, "owner", None) is None and "_fct_len" not in ip.vc.ghost:
            ip.vc.ghost["_fct_len"] = term(si.length())
        return si
    B.map_symiter = patched


_patch_len_capture()


@lemma("C07", "partition-sums-to-expression")
def partition_lemma():
    """the bookkeeping identity used with the partition property: moving one
    term from the unmatched rest into a group keeps the grand total"""
    rest, grp, t = z3.Reals("rest group t")
    return [("moving-a-term-keeps-the-total", (rest - t) + (grp + t) == rest + grp)]


# --- find_compatible_terms.compare_terms: a returned substitution has passed the final test -----------
# Soundness only: whatever candidates the index pattern matching produces (executed on opaque values),
# a substitution is returned only in its ORDERED form (order_substitutions, C08), only if it does not
# annihilate the other term, and only if  term - other_term.subs(sub)  is not a sum - the acceptance
# test that makes the two terms multiples of each other (sympy: a difference of two products that is
# not an Add is a single product or zero).
CTK = "adcgen.simplify:find_compatible_terms.compare_terms"
CandSort = z3.DeclareSort("CandidateSubstitution")
CAND_AT = z3.Function("candidate_substitution", z3.IntSort(), CandSort)
ANNIHILATES = z3.Function("other_term_vanishes_under", CandSort, z3.BoolSort())
STAYS_SUM = z3.Function("difference_is_a_sum_under", CandSort, z3.BoolSort())


def _nat(vc, name):
    n = vc.fresh_int(name)
    vc.assume(n >= 0)
    return n


def _ct_install(vc):
    from pyvc.builtins import SymIter
    from spec.exprval import ZERO
    C.EXTERNALS["sympy.S.Zero"] = ZERO
    # pattern dictionaries {space: {index: pattern}}
    C.STRUCT_METHODS[("PatternMap", "items")] = lambda ip, o, a, k: Struct("PatternItems")
    C.STRUCT_SYMITER["PatternItems"] = lambda ip, o: SymIter(
        "spaces", o, Sym(_nat(ip.vc, "n_spaces")), lambda ip_, k: (Struct("SpaceKey"), Struct("IdxPattern")))
    C.STRUCT_SUBSCRIPT["PatternMap"] = lambda ip, o, k: Struct("IdxPattern")
    C.STRUCT_METHODS[("IdxPattern", "items")] = lambda ip, o, a, k: Struct("IdxPatternItems")
    C.STRUCT_METHODS[("IdxPattern", "keys")] = lambda ip, o, a, k: Struct("KeysView")
    C.STRUCT_SYMITER["IdxPatternItems"] = lambda ip, o: SymIter(
        "indices", o, Sym(_nat(ip.vc, "n_indices")), lambda ip_, k: (Struct("IdxTok2"), Struct("PatTok")))
    C.STRUCT_CONTAINS["TargetTuple"] = lambda ip, o, x: ip.vc.fresh_bool("is_target")
    C.STRUCT_IS["IdxTok2"] = lambda ip, a, b: ip.vc.fresh_bool("same_index") if a is not b else True
    C.STRUCT_EQ["PatTok"] = lambda ip, a, b: ip.vc.fresh_bool("same_pattern")
    C.STRUCT_EQ["KeysView"] = lambda ip, a, b: ip.vc.fresh_bool("same_keys")
    # candidate lists (opaque)
    for cls in ("IdxCands", "SubCands"):
        C.STRUCT_METHODS[(cls, "append")] = lambda ip, o, a, k: None
        C.STRUCT_METHODS[(cls, "extend")] = lambda ip, o, a, k: None
        C.STRUCT_TRUTH[cls] = lambda ip, v: ip.vc.fresh_bool("non_empty")
    C.STRUCT_SYMITER["ProductV"] = lambda ip, o: SymIter(
        "product", o, Sym(_nat(ip.vc, "n_pairs")), lambda ip_, k: (Struct("CandDict"), Struct("IdxTok2")))
    C.EXTERNALS["itertools.product"] = lambda ip, a, k: Struct("ProductV")
    C.STRUCT_CONTAINS["CandDict"] = lambda ip, o, x: ip.vc.fresh_bool("already_mapped")
    C.STRUCT_METHODS[("CandDict", "copy")] = lambda ip, o, a, k: Struct("CandDict")
    C.STRUCT_METHODS[("CandDict", "keys")] = lambda ip, o, a, k: Struct("KeysView")
    C.STRUCT_STORE["CandDict"] = lambda ip, o, k, v: None
    # the final test
    C.STRUCT_SYMITER["SubCands"] = lambda ip, o: SymIter(
        "candidates", o, Sym(_nat(ip.vc, "n_candidates")), lambda ip_, k: Struct("CandSub", id=CAND_AT(term(k))))
    for f in ("sympy",):
        C.STRUCT_ATTR[("TermArg2", f)] = lambda ip, o: o.f["sympy"]

    def subs(ip, o, a, k):
        s = a[0]
        if not (o.f["who"] == "other" and isinstance(s, Struct) and s.cls == "OrderedSub"):
            raise Unsupported("subs of something else than the other term with an ordered substitution")
        return Struct("TermSym", who="mapped", cand=s.f["cand"])
    C.STRUCT_METHODS[("TermSym", "subs")] = subs

    def is_(ip, a, b):
        x, o = (a, b) if isinstance(a, Struct) and a.cls == "TermSym" else (b, a)
        if isinstance(o, Struct) and o.f.get("singleton") == "Zero":
            if x.f["who"] == "mapped":
                return Sym(ANNIHILATES(x.f["cand"]))
            return Sym(ip.vc.ghost["_other_is_zero"]) if x.f["who"] == "other" else Sym(ip.vc.fresh_bool("term_is_zero"))
        return a is b
    C.STRUCT_IS["TermSym"] = is_

    def arith(ip, opn, a, b):
        if opn == "Sub" and isinstance(a, Struct) and a.cls == "TermSym" and a.f["who"] == "term" \
                and isinstance(b, Struct) and b.cls == "TermSym" and b.f["who"] == "mapped":
            return Struct("DiffV", cand=b.f["cand"])
        raise Unsupported("other arithmetic on the abstract terms")
    C.STRUCT_ARITH["TermSym"] = arith
    C.STRUCT_ISINSTANCE["DiffV"] = lambda ip, v, cls: Sym(STAYS_SUM(v.f["cand"]))


class _CtLoop(LoopContract):
    """candidate enumeration: everything it writes is opaque"""
    names = ()

    def havoc(self, vc, frame, k, seq):
        for nm, cls in self.names:
            if cls is None:
                frame.locals.pop(nm, None)
            else:
                frame[nm] = Struct(cls)

    def invariant(self, vc, frame, k, seq):
        for nm, cls in self.names:
            if cls is not None and isinstance(frame.locals.get(nm), PList):
                frame[nm] = Struct(cls)
        return []


class _CtSpaceLoop(_CtLoop):
    header = "pattern.items()"
    names = (("sub_list", "SubCands"), ("ov", None), ("idx_pattern", None), ("other_idx_pattern", None),
             ("ov_sub_list", None), ("idx", None), ("pat", None), ("is_target", None), ("matching_idx", None),
             ("other_idx", None), ("other_pat", None), ("other_is_target", None), ("new_ov_sub_list", None),
             ("sub", None), ("extended_sub", None))
    modifies = tuple(n for n, _c in names)


class _CtIdxLoop(_CtLoop):
    header = "idx_pattern.items()"
    names = (("ov_sub_list", "SubCands"), ("idx", None), ("pat", None), ("is_target", None), ("matching_idx", None),
             ("other_idx", None), ("other_pat", None), ("other_is_target", None), ("new_ov_sub_list", None),
             ("sub", None), ("extended_sub", None))
    modifies = tuple(n for n, _c in names)


class _CtOtherLoop(_CtLoop):
    header = "other_idx_pattern.items()"
    names = (("matching_idx", "IdxCands"), ("other_idx", None), ("other_pat", None), ("other_is_target", None))
    modifies = tuple(n for n, _c in names)


class _CtProductLoop(_CtLoop):
    header = "product(ov_sub_list, matching_idx)"
    names = (("new_ov_sub_list", "SubCands"), ("sub", None), ("other_idx", None), ("extended_sub", None))
    modifies = tuple(n for n, _c in names)


class _CtTestLoop(LoopContract):
    header = "sub_list"
    modifies = ("sub", "sub_other_term")

    def iter_spec(self, vc, frame, seq):
        return [("runs-over-the-candidate-substitutions", isinstance(seq.obj, Struct) and seq.obj.cls == "SubCands")]

    def havoc(self, vc, frame, k, seq):
        for nm in ("sub", "sub_other_term"):
            frame.locals.pop(nm, None)


class _OrderSubsMarker(Contract):
    key = "adcgen.indices:order_substitutions"
    props = []
    assumed = True
    note = "C08 contract: the ordered list applies the substitution simultaneously"

    def apply(self, vc, a):
        s = a["subsdict"] if "subsdict" in a else list(a.values())[0]
        if not (isinstance(s, Struct) and s.cls == "CandSub"):
            raise Unsupported("order_substitutions of something else than a candidate")
        return Struct("OrderedSub", cand=s.f["id"])


if _OrderSubsMarker.key not in C.REGISTRY:
    register(_OrderSubsMarker)


@register
class CompareTerms(Contract):
    key = CTK
    props = ["C07"]
    loops = {0: _CtSpaceLoop(), 1: _CtIdxLoop(), 2: _CtOtherLoop(), 3: _CtProductLoop(), 4: _CtTestLoop()}
    comprehensions = {"{s: idx} for s in matching_idx": lambda ip, frame, node: Struct("SubCands"),
                      "sub for sub in ov_sub_list if": lambda ip, frame, node: Struct("SubCands"),
                      "other_sp_sub | sub for": lambda ip, frame, node: Struct("SubCands")}

    def setup(self, vc):
        _ct_install(vc)
        vc.ghost["_other_is_zero"] = vc.fresh_bool("other_term_is_zero")
        return {"pattern": Struct("PatternMap"), "other_pattern": Struct("PatternMap"),
                "target": Struct("TargetTuple"),
                "term": Struct("TermArg2", sympy=Struct("TermSym", who="term")),
                "other_term": Struct("TermArg2", sympy=Struct("TermSym", who="other"))}

    def closure(self, vc, a):
        from pyvc.values import ExtRef
        return {"product": ExtRef("itertools.product"), "combinations": ExtRef("itertools.combinations")}

    def post(self, vc, a, result):
        if result is None:
            return []
        ok = isinstance(result, Struct) and result.cls == "OrderedSub"
        if not ok:
            return [("a-substitution-is-returned-in-its-ordered-form", False)]
        c = result.f["cand"]
        return [("a-substitution-is-returned-in-its-ordered-form", True),
                ("term-minus-the-mapped-other-term-is-not-a-sum", z3.Not(STAYS_SUM(c))),
                ("the-substitution-does-not-annihilate-a-non-vanishing-other-term",
                 z3.Or(z3.Not(ANNIHILATES(c)), vc.ghost["_other_is_zero"]))]
