"""Independent evaluator (DESIGN 2.8): value of an adcgen/sympy expression
over a tiny spin-orbital space, exact rational arithmetic.  It does not use
adcgen's simplify / wicks / evaluate_deltas / pattern matching.  It decides
nothing by itself: it is the oracle of replays and bounded stand-ins.
"""
import hashlib
import itertools
from fractions import Fraction

from sympy import Add, Mul, Pow, Rational, Integer, Number, Symbol, S, sqrt
from sympy.core.numbers import NegativeOne

from adcgen.indices import Index
from adcgen.sympy_objects import (
    AntiSymmetricTensor, SymmetricTensor, NonSymmetricTensor, KroneckerDelta,
    Amplitude,
)


class Orb(tuple):
    """(space 'o'/'v', number, spin 'a'/'b')"""
    __slots__ = ()


def orbital_space(n_occ=2, n_virt=2):
    """n_occ / n_virt spatial orbitals, each with alpha and beta spin."""
    orbs = []
    for sp, n in (("o", n_occ), ("v", n_virt)):
        for k in range(n):
            for s in "ab":
                orbs.append((sp, k, s))
    return orbs


def index_range(idx, orbs):
    sp, spin = idx.space[0], idx.spin
    return [o for o in orbs if (sp == "g" or o[0] == sp) and (not spin or o[2] == spin)]


def _h(*key):
    d = hashlib.sha256(repr(key).encode()).digest()
    return int.from_bytes(d[:4], "big")


def _sort_sign(seq):
    """sorted tuple and parity of the sorting permutation; None if repeated"""
    seq = list(seq)
    sign = 1
    for i in range(len(seq)):
        for j in range(len(seq) - 1 - i):
            if seq[j] > seq[j + 1]:
                seq[j], seq[j + 1] = seq[j + 1], seq[j]
                sign = -sign
    rep = any(seq[i] == seq[i + 1] for i in range(len(seq) - 1))
    return tuple(seq), sign, rep


class Model:
    """Random tensor values with exactly the declared symmetries.

    braket: dict tensor name -> +1/-1/0  (bra-ket symmetry the *values* have)
    diag: names of two-index tensors whose values are diagonal (Fock)
    spin_conserving: names of tensors that vanish on non spin conserving blocks
    """

    def __init__(self, orbs, seed=0, braket=None, diag=(), symbols=None,
                 spin_conserving=(), small=7, alias=None):
        self.alias = alias
        self.orbs = orbs
        self.seed = seed
        self.braket = dict(braket or {})
        self.diag = set(diag)
        self.symbols = dict(symbols or {})
        self.spin_conserving = set(spin_conserving)
        self.small = small

    def rnd(self, *key):
        v = _h(self.seed, *key) % (2 * self.small + 1) - self.small
        return Fraction(v if v != 0 else 1)

    def antisym(self, name, upper, lower, symmetric=False):
        if self.alias is not None:
            name = self.alias(name)
        u, su, ru = _sort_sign(upper)
        lo, sl, rl = _sort_sign(lower)
        if symmetric:
            su = sl = 1
        elif ru or rl:
            return Fraction(0)
        sign = su * sl
        bk = self.braket.get(name, 0)
        if bk and len(u) == len(lo):
            if lo < u:
                u, lo = lo, u
                if bk == -1:
                    sign = -sign
            elif lo == u and bk == -1:
                return Fraction(0)
        if name in self.diag and u != lo:
            return Fraction(0)
        if name in self.spin_conserving:
            if sorted(o[2] for o in u) != sorted(o[2] for o in lo):
                return Fraction(0)
        return sign * self.rnd(name, u, lo)

    def nonsym(self, name, idx):
        return self.rnd(name, tuple(idx))

    def symbol(self, name):
        if name in self.symbols:
            return Fraction(self.symbols[name])
        return self.rnd("symbol", name)


def term_indices(expr):
    return sorted(expr.atoms(Index), key=lambda s: (s.space, s.spin, s.name))


def eval_factor(obj, asg, model):
    if isinstance(obj, (Integer, Rational)):
        return Fraction(int(obj.p), int(obj.q))
    if isinstance(obj, Number):
        if obj.is_Float:
            # hand typed decimal literals of the library (0.5, 0.25): binary
            # floats convert exactly
            return Fraction(float(obj))
        return Fraction(obj)
    if isinstance(obj, Pow):
        base, exp = obj.args
        if exp == S.Half or (exp.is_Rational and exp.q == 2):
            # square roots: only perfect squares of rationals are exact
            b = eval_factor(base, asg, model)
            from math import isqrt
            num, den = b.numerator, b.denominator
            if num >= 0 and isqrt(num) ** 2 == num and isqrt(den) ** 2 == den:
                r = Fraction(isqrt(num), isqrt(den))
                return r ** int(exp.p)
            raise SqrtNeeded(obj)
        if not exp.is_Integer:
            raise NotImplementedError(f"exponent {exp}")
        b = eval_factor(base, asg, model)
        e = int(exp)
        if e < 0 and b == 0:
            raise ZeroDivisionError("zero denominator in the model")
        return b ** e
    if isinstance(obj, Add):
        return sum((eval_factor(a, asg, model) for a in obj.args), Fraction(0))
    if isinstance(obj, Mul):
        r = Fraction(1)
        for a in obj.args:
            r *= eval_factor(a, asg, model)
        return r
    if isinstance(obj, KroneckerDelta):
        i, j = obj.args
        return Fraction(1 if asg[i] == asg[j] else 0)
    if isinstance(obj, SymmetricTensor):
        return model.antisym(obj.name, [asg[s] for s in obj.upper.args],
                             [asg[s] for s in obj.lower.args], symmetric=True)
    if isinstance(obj, AntiSymmetricTensor):  # incl. Amplitude
        return model.antisym(obj.name, [asg[s] for s in obj.upper.args],
                             [asg[s] for s in obj.lower.args])
    if isinstance(obj, NonSymmetricTensor):
        return model.nonsym(obj.name, [asg[s] for s in obj.indices.args])
    if isinstance(obj, Index):
        raise NotImplementedError("bare index")
    if isinstance(obj, Symbol):
        return model.symbol(obj.name)
    raise NotImplementedError(f"object {type(obj)}: {obj}")


class SqrtNeeded(Exception):
    pass


def eval_term(term, target_asg, model):
    """value of one product: all indices not in target_asg are summed."""
    idx = [s for s in term_indices(term) if s not in target_asg]
    ranges = [index_range(s, model.orbs) for s in idx]
    total = Fraction(0)
    for combo in itertools.product(*ranges):
        asg = dict(target_asg)
        asg.update(zip(idx, combo))
        total += eval_factor(term, asg, model)
    return total


def evaluate(expr, target_asg, model):
    """value of an (expanded) sympy expression for a target assignment."""
    from sympy import expand
    if hasattr(expr, "sympy"):
        expr = expr.sympy
    expr = S(expr)
    if isinstance(expr, Add):
        return sum((eval_term(t, target_asg, model) for t in expr.args), Fraction(0))
    return eval_term(expr, target_asg, model)


def all_assignments(targets, orbs, limit=None, rng=None):
    ranges = [index_range(s, orbs) for s in targets]
    combos = itertools.product(*ranges)
    if limit is None:
        for c in combos:
            yield dict(zip(targets, c))
        return
    allc = list(combos)
    if len(allc) > limit and rng is not None:
        allc = rng.sample(allc, limit)
    for c in allc[:limit]:
        yield dict(zip(targets, c))


def braket_of(expr):
    """bra-ket symmetry per tensor name as declared on the objects."""
    out = {}
    e = expr.sympy if hasattr(expr, "sympy") else S(expr)
    for t in e.atoms(AntiSymmetricTensor):
        b = int(t.bra_ket_sym)
        if b:
            out[t.name] = b
    return out


def equal_values(e1, e2, targets, model, limit=None, rng=None):
    """(True, None) or (False, witness)"""
    for asg in all_assignments(targets, model.orbs, limit, rng):
        v1, v2 = evaluate(e1, asg, model), evaluate(e2, asg, model)
        if v1 != v2:
            return False, {"assignment": {str(k): list(v) for k, v in asg.items()},
                           "lhs": str(v1), "rhs": str(v2)}
    return True, None
