"""S2 - abstract view of sympy expressions by their *value*.

An abstract expression is `Struct("Expr", val=<Real>, zero=<Bool>)`:
  val   value of the expression under the arbitrary fixed orbital assignment
        sigma and arbitrary fixed tensor values (contracted indices summed)
  zero  the object *is* the singleton S.Zero (structural test `x is S.Zero`)
with the assumed sympy facts (listed in ASSUMED_SYMPY):
  zero => val == 0;  Mul/Add are homomorphisms for val;  0*x is S.Zero;
  a product of non-zero objects is never S.Zero.
"""
import z3
from pyvc import contract as C
from pyvc.values import Struct, Sym, term, wrap, zand, zor, znot, zeq, zite, Unsupported

ASSUMED_SYMPY = [
    "sympy Add/Mul are homomorphisms for the value of an expression (val(a+b)=val a+val b, val(a*b)=val a*val b for factors with disjoint contracted indices)",
    "sympy: 0*x is the singleton S.Zero, a product of objects none of which is S.Zero is not S.Zero; S.Zero has value 0",
    "sympy Add(*[]) is S.Zero with value 0",
]


def real(x):
    if isinstance(x, bool):
        return z3.RealVal(1 if x else 0)
    if isinstance(x, int):
        return z3.RealVal(x)
    t = term(x)
    if z3.is_int(t):
        return z3.ToReal(t)
    if z3.is_bool(t):
        return z3.If(t, z3.RealVal(1), z3.RealVal(0))
    return t


def mk_expr(val, zero=False, **extra):
    return Struct("Expr", val=real(val), zero=zero, **extra)


ZERO = mk_expr(0, True, singleton="Zero")
ONE = mk_expr(1, False, singleton="One")
NEG_ONE = mk_expr(-1, False, singleton="NegativeOne")


def as_expr(v):
    if isinstance(v, Struct) and v.cls == "Expr":
        return v
    if isinstance(v, (int, float)) and not isinstance(v, bool):
        return mk_expr(z3.RealVal(str(v)), v == 0)
    if isinstance(v, Sym) and (z3.is_int(v.t) or z3.is_real(v.t)):
        return mk_expr(v.t, v.t == 0)
    raise Unsupported(f"not an abstract expression: {v!r}")


def expr_arith(ip, opn, a, b):
    if opn == "Pow" and isinstance(a, Struct) and a.cls == "Expr" and \
            (isinstance(b, int) or (isinstance(b, Sym) and z3.is_int(b.t))):
        v, n = a.f["val"], term(b) if not isinstance(b, int) else z3.IntVal(b)
        pow_axioms(ip.vc, v, n)
        return mk_expr(POW(v, n), False)
    if opn == "neg":
        a = as_expr(a)
        return mk_expr(-a.f["val"], a.f["zero"])
    if isinstance(b, Struct) and b.cls == "SumList" or \
            isinstance(a, Struct) and a.cls == "SumList":
        raise Unsupported("arithmetic on a list abstraction")
    a, b = as_expr(a), as_expr(b)
    va, vb = a.f["val"], b.f["val"]
    if opn == "Mult":
        return mk_expr(va * vb, zor(a.f["zero"], b.f["zero"]))
    if opn in ("Add", "Sub"):
        v = va + vb if opn == "Add" else va - vb
        # structurally zero iff (at least) both are; cancellation x - x is
        # also S.Zero: unknown -> fresh flag that implies val == 0
        if a.f["zero"] is True and b.f["zero"] is True:
            return mk_expr(v, True)
        z = ip.vc.fresh_bool("iszero")
        ip.vc.assume(z3.Implies(z, v == 0))
        ip.vc.assume(z3.Implies(term(zand(a.f["zero"], b.f["zero"])), z))
        return mk_expr(v, Sym(z))
    if opn == "Div":
        # symbolic division (sympy does not raise for a denominator that may
        # take the value 0); z3's total division
        return mk_expr(va / vb, a.f["zero"])
    raise Unsupported(f"operator {opn} on abstract expressions")


POW = z3.Function("real_power", z3.RealSort(), z3.IntSort(), z3.RealSort())


def pow_axioms(vc, v, n):
    """definitional unfolding of POW around the exponent n"""
    vc.assume(POW(v, 0) == 1)
    vc.assume(POW(v, 1) == v)
    vc.assume(z3.Implies(n >= 0, POW(v, n + 1) == POW(v, n) * v))
    vc.assume(z3.Implies(n >= 1, POW(v, n) == POW(v, n - 1) * v))
    # powers of one (induction on the exponent)
    vc.assume(z3.Implies(v == 1, z3.And(POW(v, n) == 1, POW(v, n + 1) == 1, POW(v, n - 1) == 1)))


def expr_is(ip, a, b):
    """`a is b` when one side is an abstract expression: only the singleton
    tests `x is S.Zero` are meaningful."""
    for x, y in ((a, b), (b, a)):
        if isinstance(y, Struct) and y.cls == "Expr" and y.f.get("singleton") == "Zero":
            if isinstance(x, Struct) and x.cls == "Expr":
                z = x.f["zero"]
                return z.t if isinstance(z, Sym) else z
            return False
    if a is b:
        return True
    raise Unsupported("identity test between abstract expressions")


C.STRUCT_ARITH["Expr"] = expr_arith
C.STRUCT_IS["Expr"] = expr_is


# --- list of expressions abstracted by the value of their sum ----------------
def new_sumlist(total, nonempty=None):
    return Struct("SumList", total=real(total))


def sumlist_append(ip, obj, args, kwargs):
    e = as_expr(args[0])
    obj.f["total"] = obj.f["total"] + e.f["val"]
    return None


C.STRUCT_METHODS[("SumList", "append")] = sumlist_append


def list_total(v):
    """value of Add(*v) for a concrete-shape list or a SumList."""
    from pyvc.values import PList
    if isinstance(v, Struct) and v.cls == "SumList":
        return v.f["total"]
    if isinstance(v, PList):
        t = z3.RealVal(0)
        for x in v.items:
            t = t + as_expr(x).f["val"]
        return t
    raise Unsupported("list_total")


def model_Add(ip, args, kwargs):
    total = z3.RealVal(0)
    allzero = True
    for a in args:
        if isinstance(a, tuple) and len(a) == 2 and a[0] == "*":
            total = total + list_total(a[1])
            allzero = False
        else:
            e = as_expr(a)
            total = total + e.f["val"]
            allzero = zand(allzero, e.f["zero"])
    if allzero is True:
        return mk_expr(total, True)
    z = ip.vc.fresh_bool("iszero")
    ip.vc.assume(z3.Implies(z, total == 0))
    return mk_expr(total, Sym(z))


def model_Mul(ip, args, kwargs):
    v = z3.RealVal(1)
    zero = False
    for a in args:
        e = as_expr(a)
        v = v * e.f["val"]
        zero = zor(zero, e.f["zero"])
    return mk_expr(v, zero)


C.EXTERNALS["sympy.Add"] = model_Add
C.EXTERNALS["sympy.Mul"] = model_Mul
C.EXTERNALS["sympy.S.Zero"] = ZERO
C.EXTERNALS["sympy.S.One"] = ONE
C.EXTERNALS["sympy.S.NegativeOne"] = NEG_ONE
