"""Executable contracts for C07 on the real code (bounded stand-ins)."""
import random
from fractions import Fraction

from sympy import S, Add, Rational

from adcgen.indices import get_symbols
from adcgen.expr_container import Expr
from adcgen.simplify import simplify
from runtime.tensor_model import Model, orbital_space, evaluate, all_assignments
from runtime.c10 import build_term, random_term, OCC, VIRT

BUDGET_S = {"quick": 90, "thorough": 1500}


def idxmap():
    return {n: get_symbols(n)[0] for n in OCC + VIRT}


def value_cases(tier, seed):
    rng = random.Random(seed)
    # terms that differ by a permutation of TARGET indices must not be merged
    yield {"terms": [[["X", ["i", "j"], 1]], [["X", ["j", "i"], 1]]], "coeffs": [[1, 1], [1, 1]],
           "real": True, "explicit_target": False}
    yield {"terms": [[["X", ["k", "j"], 1], ["f", ["k", "j"], 2]], [["X", ["j", "i"], 1], ["f", ["j", "i"], 2]],
                     [["X", ["i", "j"], 1], ["f", ["i", "j"], 2]]],
           "coeffs": [[2, 1], [2, 2], [1, 2]], "real": False, "explicit_target": True}
    yield {"terms": [[["X", ["i", "a"], 1], ["X", ["j", "b"], 1], ["V", ["k", "l", "a", "b"], 1]],
                     [["X", ["j", "a"], 1], ["X", ["i", "b"], 1], ["V", ["k", "l", "a", "b"], 1]]],
           "coeffs": [[1, 1], [1, 1]], "real": True, "explicit_target": False}
    for _ in range(40 if tier == "quick" else 600):
        # same objects, indices re-wired object by object (same fingerprints
        # are likely, alpha equivalence is not)
        names = rng.sample(OCC, 3) + rng.sample(VIRT, 3)
        base = random_term(rng, names)
        other = []
        for k, nm, e in base:
            occ = [n for n in names[:3]]
            virt = [n for n in names[3:]]
            po = dict(zip(occ, rng.sample(occ, 3)))
            pv = dict(zip(virt, rng.sample(virt, 3)))
            other.append([k, [po.get(n, pv.get(n, n)) for n in nm], e])
        yield {"terms": [base, other], "coeffs": [[1, 1], [rng.choice([1, -1, 2]), 1]],
               "real": True, "explicit_target": False}
    for _ in range(300 if tier == "quick" else 2000):
        names = rng.sample(OCC, 3) + rng.sample(VIRT, 3)
        nt = rng.randint(1, 4)
        base = random_term(rng, names)
        terms = [base]
        for _t in range(nt - 1):
            if rng.random() < 0.5:
                # alpha-renamed copy of an existing term
                src = rng.choice(terms)
                perm_o = dict(zip(names[:3], rng.sample(names[:3], 3)))
                perm_v = dict(zip(names[3:], rng.sample(names[3:], 3)))
                ren = {**perm_o, **perm_v}
                terms.append([[k, [ren.get(n, n) for n in nm], e] for k, nm, e in src])
            else:
                terms.append(random_term(rng, names))
        yield {"terms": terms, "coeffs": [[rng.choice([1, -1, 2, 1]), rng.choice([1, 1, 2])] for _ in terms],
               "real": rng.random() < 0.7, "explicit_target": rng.random() < 0.3}


def value_check(case):
    idx = idxmap()
    total = S.Zero
    for (p, q), t in zip(case["coeffs"], case["terms"]):
        total += Rational(p, q) * build_term(t, idx)
    e = Expr(total, real=case["real"]).expand()
    if e.sympy is S.Zero:
        return True, "vanishes"
    targets = None
    ts = [tuple(t.target) for t in e.terms]
    if len(set(ts)) != 1:
        return True, "terms with different targets"
    targets = list(ts[0])
    if case["explicit_target"]:
        e.set_target_idx(targets)
    # the grouping itself: every term is the key of a group or a member of exactly one group, a
    # member is mapped onto its key by a substitution that renames no target index and merges no
    # indices, and after that substitution key and member differ by a factor only
    from adcgen.simplify import find_compatible_terms
    from sympy import Add
    terms_ = e.terms
    groups = find_compatible_terms(terms_)
    seen = []
    for key_i, members in groups.items():
        seen.append(key_i)
        for mem_i, sub in members.items():
            seen.append(mem_i)
            if mem_i == key_i:
                return False, f"find_compatible_terms maps term {key_i} of {e} onto itself"
            olds = [o for o, _n in sub]
            real_olds = [o for o in olds if o in terms_[mem_i].idx]
            if any(o in targets for o in real_olds if dict(sub)[o] is not o):
                return False, f"find_compatible_terms renames a target index: {sub} for terms {key_i}, {mem_i} of {e}"
            mapped = terms_[mem_i].sympy.subs(sub)
            if mapped is S.Zero or isinstance(terms_[key_i].sympy - mapped, Add):
                return False, (f"find_compatible_terms: term {mem_i} of {e} under {sub} is {mapped}, "
                               f"not a multiple of term {key_i}")
    if sorted(seen) != list(range(len(terms_))):
        return False, f"find_compatible_terms of {e}: terms {sorted(seen)} grouped, expected every term exactly once"
    res = simplify(e.copy())
    # build_term constructs V and f with bra-ket symmetry in either case
    m = Model(orbital_space(1, 1), seed=33, braket={"V": 1, "f": 1, "K": -1})
    for asg in all_assignments(targets, m.orbs):
        v0, v1 = evaluate(e.sympy, asg, m), evaluate(res.sympy, asg, m)
        if v0 != v1:
            return False, f"simplify({e}) = {res}: value {v1} instead of {v0} at {asg}"
    if len(res.terms) > len(e.terms) and res.sympy != 0:
        return False, f"simplify({e}) has more terms: {res}"
    if res.assumptions != e.assumptions:
        return False, f"assumptions changed: {e.assumptions} -> {res.assumptions}"
    return True, ""


def merge_cases(tier, seed):
    rng = random.Random(seed + 9)
    # bra-ket (anti)symmetric tensors in a diagonal block whose bra and ket share the leading
    # index: the renamed copy differs from the term behind the leading index only
    for kind in ("K", "V"):
        for shape in (["i", "j", "i", "k"], ["i", "j", "k", "j"], ["a", "b", "a", "c"]):
            other = [n for n in dict.fromkeys(shape) if shape.count(n) == 1]
            for ps in range(6):
                yield {"term": [[kind, shape, 1], ["X", other + (["a"] if shape[0] == "i" else ["i"]), 1]],
                       "names": ["i", "j", "k", "l", "a", "b", "c", "d"], "pseed": ps, "coeff": [1, 1]}
    # powers of a tensor whose indices occur nowhere else in the term (summed through the power)
    for ps in range(4):
        for term in ([["X", ["i", "j"], 2], ["Y", ["k", "k"], 1]], [["V", ["i", "j", "a", "b"], 2]],
                     [["f", ["i", "a"], 2], ["X", ["j"], 1]], [["X", ["i", "a"], 3], ["X", ["j", "b"], 2]]):
            yield {"term": term, "names": ["i", "j", "k", "l", "a", "b", "c", "d"], "pseed": ps, "coeff": [1, 2]}
    for _ in range(700 if tier == "quick" else 4000):
        names = rng.sample(OCC, 4) + rng.sample(VIRT, 4)
        base = random_term(rng, names[:3] + names[4:7])
        yield {"term": base, "names": names, "pseed": rng.randint(0, 10 ** 6),
               "coeff": rng.choice([[1, 1], [-1, 1], [1, 2], [3, 1]])}


def merge_check(case):
    idx = idxmap()
    rng = random.Random(case["pseed"])
    sym = build_term(case["term"], idx)
    if sym is S.Zero:
        return True, "vanishes"
    e0 = Expr(sym, real=True)
    term = e0.terms[0]
    # summation convention, counted independently on the specification of the term: an index that
    # occurs exactly once (powers count with their exponent) is a target index
    from collections import Counter
    cnt = Counter()
    seen_deltas = set()
    for _kind, names_, exp_ in case["term"]:
        if _kind == "d":
            # powers / repetitions of one Kronecker delta collapse to the delta itself
            if frozenset(names_) in seen_deltas:
                continue
            seen_deltas.add(frozenset(names_))
            exp_ = 1
        for n_ in names_:
            cnt[n_] += abs(exp_)
    present = {s for s in sym.atoms(type(idx["i"]))}
    targets = [idx[n_] for n_, c_ in sorted(cnt.items()) if c_ == 1 and idx[n_] in present]
    contracted = [idx[n_] for n_, c_ in sorted(cnt.items()) if c_ > 1 and idx[n_] in present]
    if set(term.target) != set(targets) and set(present) == {idx[n_] for n_ in cnt}:
        return False, (f"target indices of {term} are {term.target}, the summation convention gives {targets}")
    # random renaming of the contracted indices within their space onto
    # names that are not used as targets
    ren = {}
    for space, pool in (("occ", case["names"][:4]), ("virt", case["names"][4:])):
        old = [s for s in contracted if s.space == space]
        free = [idx[n] for n in pool if idx[n] not in targets]
        new = rng.sample(free, len(old))
        ren.update(dict(zip(old, new)))
    from adcgen.indices import order_substitutions
    renamed = sym.subs(order_substitutions(ren))
    c = Rational(*case["coeff"])
    e = Expr(sym + c * renamed, real=True)
    res = simplify(e)
    n = len(res.terms) if res.sympy != 0 else 0
    expect = 0 if c == -1 else 1
    if renamed is S.Zero:
        return True, "renamed copy vanishes"
    if n > 1:
        return False, (f"alpha equivalent terms were not combined: simplify({e}) = {res} "
                       f"({n} terms)")
    m = Model(orbital_space(1, 1), seed=33, braket={"V": 1, "f": 1, "K": -1})
    for asg in all_assignments(targets, m.orbs, limit=8, rng=rng):
        v0, v1 = evaluate(e.sympy, asg, m), evaluate(res.sympy, asg, m)
        if v0 != v1:
            return False, f"simplify({e}) = {res}: value {v1} instead of {v0}"
    return True, ""


CHECKS = {
    "simplify.value": {
        "function": "adcgen.simplify:find_compatible_terms", "cases": value_cases,
        "check": value_check,
        "bound": "sums of <= 4 terms (<= 3 objects each, incl. alpha-renamed copies) over 3 occ + 3 virt names, real / complex, Einstein or explicit targets: value for all target assignments, term count, assumptions; structure of the grouping returned by find_compatible_terms (partition, substitutions keep target indices, members are multiples of their key)"},
    "simplify.merges": {
        "function": "adcgen.simplify:find_compatible_terms", "cases": merge_cases,
        "check": merge_check,
        "bound": "a term plus a multiple of a randomly alpha-renamed copy (renaming within occ / virt, constructors re-canonicalise): must collapse to at most one term"},
}
