"""Executable contracts for C13 on the real code (bounded stand-ins, replay
search): orbital-energy fraction algebra and Fock diagonalisation."""
import random
from fractions import Fraction

from sympy import Mul, S, Rational, Pow, Add

from adcgen.indices import get_symbols
from adcgen.sympy_objects import (NonSymmetricTensor, AntiSymmetricTensor, SymmetricTensor,
                                  KroneckerDelta)
from adcgen.expr_container import Expr
from adcgen.eri_orbenergy import EriOrbenergy
from adcgen.reduce_expr import factor_eri_parts, factor_denom
from runtime.tensor_model import Model, orbital_space, evaluate, all_assignments

BUDGET_S = {"quick": 90, "thorough": 1500}
OCC, VIRT = ["i", "j", "k", "l"], ["a", "b", "c", "d"]


class EModel(Model):
    """orbital energies: occupied << 0 << virtual so that every canonical
    bracket (sum occ - sum virt) is non zero; D^{+}_{-} = 1/(sum+ - sum-)"""

    def eps(self, o):
        return Fraction((-20 if o[0] == "o" else 20) + 3 * o[1] + (1 if o[2] == "b" else 0))

    def nonsym(self, name, idx):
        if name == "e":
            return self.eps(idx[0])
        return super().nonsym(name, idx)

    def antisym(self, name, upper, lower, symmetric=False):
        if name == "D":
            den = sum(self.eps(o) for o in upper) - sum(self.eps(o) for o in lower)
            return Fraction(1) / den
        if name == "f" and "f" in self.diag:
            return self.eps(upper[0]) if tuple(upper) == tuple(lower) else Fraction(0)
        return super().antisym(name, upper, lower, symmetric)


def e_(s):
    return NonSymmetricTensor("e", (s,))


def build(case):
    idx = {n: get_symbols(n)[0] for n in OCC + VIRT + ["p", "q"]}
    num = S.Zero
    for coeff, n in case["num"]:
        num += Rational(*coeff) * e_(idx[n])
    if not case["num"]:
        num = S.One
    den = S.One
    for names, exp in case["denom"]:
        br = S.Zero
        for n in names:
            br += e_(idx[n]) if n in OCC else -e_(idx[n])
        den *= br ** exp
    rem = S.One
    for kind, names, exp in case["rem"]:
        h = len(names) // 2
        if kind == "V":
            t = AntiSymmetricTensor("V", tuple(idx[x] for x in names[:h]),
                                    tuple(idx[x] for x in names[h:]), 1)
        elif kind == "X":
            t = NonSymmetricTensor("X", tuple(idx[x] for x in names))
        else:
            t = AntiSymmetricTensor("f", (idx[names[0]],), (idx[names[1]],), 1)
        rem *= t ** exp
    pref = Rational(*case.get("pref", [1, 1]))
    return idx, pref * num * rem / den


def gen_cases(tier, seed):
    rng = random.Random(seed)
    # the textbook shapes first
    yield {"num": [[[1, 1], "i"], [[-1, 1], "a"], [[1, 1], "j"]], "denom": [[["i", "a"], 1]],
           "rem": [["V", ["i", "j", "a", "b"], 1]], "target": "b"}
    yield {"num": [], "denom": [], "rem": [["V", ["i", "j", "a", "b"], 1], ["X", ["i", "a"], -1]], "target": "jb"}
    yield {"num": [[[1, 1], "i"], [[-1, 1], "a"]], "denom": [[["i", "j", "a", "b"], 2], [["i", "a"], 1]],
           "rem": [["V", ["i", "j", "a", "b"], 2]], "target": ""}
    for _ in range(200 if tier == "quick" else 4000):
        names = rng.sample(OCC, 2) + rng.sample(VIRT, 2)
        i, j, a, b = names
        nden = rng.randint(0, 2)
        denom = []
        for _d in range(nden):
            br = rng.choice([[i, a], [i, j, a, b], [j, b], [i, j, a], [i, b]])
            denom.append([br, rng.choice([1, 1, 2])])
        num = []
        if rng.random() < 0.75:
            for n in rng.sample(names, rng.randint(1, 4)):
                sign = 1 if n in OCC else -1
                if rng.random() < 0.15:
                    sign = -sign
                num.append([[sign * rng.choice([1, 1, 1, 2]), rng.choice([1, 1, 2])], n])
        rem = [["V", [i, j, a, b], rng.choice([1, 1, 2])]]
        if rng.random() < 0.4:
            rem.append(["X", rng.sample(names, 2), rng.choice([1, 1, -1])])
        tgt = "".join(rng.sample(names, rng.randint(0, 2)))
        yield {"num": num, "denom": denom, "rem": rem, "target": tgt,
               "pref": [rng.choice([1, -1, 3]), rng.choice([1, 2, 4])]}


def same_value(a, b, targets, model):
    for asg in all_assignments(targets, model.orbs):
        va, vb = evaluate(a, asg, model), evaluate(b, asg, model)
        if va != vb:
            return False, f"{va} != {vb} at {dict((str(k), v) for k, v in asg.items())}"
    return True, ""


REFUSALS = ("Inputerror", "NotImplementedError", "RuntimeError")


def attempt(fn):
    """(value, None) or (None, reason) if the library refuses the input with
    one of its documented errors"""
    try:
        return fn(), None
    except Exception as ex:
        if type(ex).__name__ in REFUSALS:
            return None, f"{type(ex).__name__}: {ex}"
        raise


def check(case):
    idx, sym = build(case)
    if sym is S.Zero:
        return True, "vanishes"
    targets = [idx[n] for n in case["target"]]
    e = Expr(sym, real=True, target_idx=targets)
    if len(e.terms) != 1:
        return True, "not a single term"
    term = e.terms[0]
    model = EModel(orbital_space(1, 1), seed=8, braket={"V": 1, "f": 1})
    ref = term.sympy
    # 1) split and rebuild
    try:
        eo = EriOrbenergy(term)
    except Exception as ex:
        if type(ex).__name__ in ("Inputerror", "NotImplementedError"):
            return True, f"refused: {ex}"
        raise
    ok, d = same_value(ref, eo.expr.sympy, targets, model)
    if not ok:
        return False, f"split/rebuild of {ref}: {eo.expr} differs: {d}"
    # 2) canonical signs
    eo2, why = attempt(lambda: EriOrbenergy(term).canonicalize_sign())
    if eo2 is not None:
        ok, d = same_value(ref, eo2.expr.sympy, targets, model)
        if not ok:
            return False, f"canonicalize_sign of {ref}: {eo2.expr} differs: {d}"
    # 3) numerator symmetrisation (value of the contracted term)
    eo3, why = attempt(lambda: EriOrbenergy(term).permute_num())
    if eo3 is not None:
        ok, d = same_value(ref, eo3.expr.sympy, targets, model)
        if not ok:
            return False, f"permute_num of {ref}: {eo3.expr} differs: {d}"
    # 4) cancelling the fraction
    res, why = attempt(lambda: EriOrbenergy(term).cancel_orb_energy_frac())
    if res is not None:
        ok, d = same_value(ref, res.sympy, targets, model)
        if not ok:
            return False, f"cancel_orb_energy_frac of {ref}: {res} differs: {d}"
    # 5) symbolic <-> explicit denominators
    symb, why = attempt(lambda: e.copy().use_symbolic_denominators())
    if symb is None:
        return True, f"symbolic denominators refused: {why}"
    ok, d = same_value(ref, symb.sympy, targets, model)
    if not ok:
        return False, f"use_symbolic_denominators of {ref}: {symb} differs: {d}"
    back = symb.copy().use_explicit_denominators()
    ok, d = same_value(ref, back.sympy, targets, model)
    if not ok:
        return False, f"use_explicit_denominators of {symb}: {back} differs: {d}"
    if tuple(back.provided_target_idx or ()) != tuple(e.provided_target_idx or ()):
        return False, "target indices changed by the denominator round trip"
    return True, ""


def group_cases(tier, seed):
    rng = random.Random(seed + 1)
    gen = gen_cases(tier, seed + 7)
    pool = [c for c, _ in zip(gen, range(60 if tier == "quick" else 400))
            if all(x[2] > 0 for x in c["rem"])]
    # different remainders over denominators of the same shape: the third term can be mapped
    # onto the denominators of both others
    yield {"raw": "three-denominators"}
    for _ in range(25 if tier == "quick" else 300):
        yield {"terms": rng.sample(pool, rng.randint(2, 4)), "target": ""}


def _raw_three_denominators():
    from adcgen.indices import get_symbols
    from adcgen.sympy_objects import NonSymmetricTensor
    i, j, a, b = get_symbols("ijab")
    e = lambda s_: NonSymmetricTensor("e", (s_,))    # noqa: E731
    X = NonSymmetricTensor("X", (i, j, a, b))
    Y = NonSymmetricTensor("Y", (i, j)) * NonSymmetricTensor("Y", (j, i))
    W = NonSymmetricTensor("W", (a, b)) * NonSymmetricTensor("W", (b, a))
    return X / (e(j) - e(a)) + X / (e(i) - e(b)) + Rational(3, 2) * Y * W / (e(i) - e(a))


def group_check(case):
    total = S.Zero
    if case.get("raw"):
        total = _raw_three_denominators()
    for c in case.get("terms", []):
        _, s = build(dict(c, target=""))
        total += s
    e = Expr(total, real=True, target_idx=[]).expand()
    if e.sympy is S.Zero or len(e.terms) < 2:
        return True, "trivial"
    model = EModel(orbital_space(1, 1), seed=8, braket={"V": 1})
    ref = evaluate(e.sympy, {}, model)
    parts = factor_eri_parts(e)
    got = sum((evaluate(p.sympy, {}, model) for p in parts), Fraction(0))
    if got != ref:
        return False, f"factor_eri_parts of {e}: parts sum to {got}, expression is {ref}"
    for p in parts:
        sub = factor_denom(p)
        v = sum((evaluate(q.sympy, {}, model) for q in sub), Fraction(0))
        if v != evaluate(p.sympy, {}, model):
            return False, f"factor_denom of {p}: parts sum to {v}"
    # grouping by denominators alone (terms with different remainders)
    sub = factor_denom(e)
    v = sum((evaluate(q.sympy, {}, model) for q in sub), Fraction(0))
    if v != ref:
        return False, (f"factor_denom of {e}: the {len(sub)} groups sum to {v}, expression is {ref} "
                       f"(groups hold {sum(len(q.terms) for q in sub)} terms, the expression {len(e.terms)})")
    return True, ""


def fock_cases(tier, seed):
    rng = random.Random(seed + 3)
    # chained substitutions of two Fock matrix elements
    yield {"num": [], "denom": [], "rem": [["f", ["j", "k"], 1], ["X", ["l", "c", "k"], 1], ["f", ["j", "l"], 1]],
           "target": "kc"}
    yield {"num": [], "denom": [], "rem": [["f", ["a", "b"], 1], ["X", ["c", "i"], 1], ["f", ["b", "c"], 1]],
           "target": "ai"}
    # general indices: a mixed block f_{i p} is not an off diagonal block (p also runs over the
    # occupied orbitals)
    yield {"num": [], "denom": [], "rem": [["f", ["p", "i"], 1], ["X", ["p"], 1]], "target": "i"}
    yield {"num": [], "denom": [], "rem": [["f", ["a", "p"], 1], ["X", ["p", "i"], 1]], "target": "ai"}
    yield {"num": [], "denom": [], "rem": [["f", ["p", "q"], 1], ["X", ["p", "q"], 1]], "target": ""}
    # powers of one Fock matrix element (real basis: f^i_j f^j_i is (f^i_j)^2)
    for exp in (2, 3):
        yield {"num": [], "denom": [], "rem": [["f", ["i", "j"], exp], ["X", ["j"], 1]], "target": "i"}
        yield {"num": [], "denom": [], "rem": [["f", ["a", "b"], exp], ["X", ["a", "b", "i"], 1]], "target": "i"}
        yield {"num": [], "denom": [], "rem": [["f", ["i", "j"], exp], ["f", ["j", "k"], 1], ["X", ["k", "a"], 1]],
               "target": "ia"}
    for _ in range(40 if tier == "quick" else 500):
        names = rng.sample(OCC, 3) + rng.sample(VIRT, 3)
        f1 = rng.sample(names, 2)
        rem = [["f", f1, rng.choice([1, 1, 1, 2, 3])], ["X", rng.sample(names, rng.randint(2, 3)), 1]]
        if rng.random() < 0.5:
            rem.append(["f", rng.sample(names, 2), rng.choice([1, 1, 2])])
        used = sorted({n for _k, nm, _e in rem for n in nm})
        yield {"num": [], "denom": [], "rem": rem,
               "target": "".join(rng.sample(used, rng.randint(0, 2)))}


def fock_check(case):
    idx, sym = build(case)
    if sym is S.Zero:
        return True, "vanishes"
    targets = [idx[n] for n in case["target"]]
    e = Expr(sym, real=True, target_idx=targets)
    model = EModel(orbital_space(1, 1), seed=8, braket={"f": 1}, diag=("f",))
    res, why = attempt(lambda: e.copy().diagonalize_fock())
    if res is None:
        return True, f"refused: {why}"
    ok, d = same_value(e.sympy, res.sympy, targets, model)
    if not ok:
        return False, f"diagonalize_fock of {e}: {res} differs for a diagonal Fock matrix: {d}"
    if tuple(res.provided_target_idx or ()) != tuple(e.provided_target_idx or ()):
        return False, "diagonalize_fock changed the target indices"
    blk = e.copy().block_diagonalize_fock()
    ok, d = same_value(e.sympy, blk.sympy, targets, model)
    if not ok:
        return False, f"block_diagonalize_fock of {e}: {blk} differs for a block diagonal Fock matrix: {d}"
    return True, ""


CHECKS = {
    "fraction.algebra": {
        "function": "adcgen.eri_orbenergy:EriOrbenergy.cancel_orb_energy_frac.cancel",
        "cases": gen_cases, "check": check,
        "bound": "single terms: numerator of <= 4 orbital energies with rational coefficients, <= 2 denominator brackets with exponents <= 2, V tensor (exponent <= 2) and optional X^(+-1) remainder, 0-2 target indices; 2 occ + 2 virt spin orbitals"},
    "grouping.partition": {
        "function": "adcgen.reduce_expr:factor_denom", "cases": group_cases, "check": group_check,
        "bound": "sums of 2-4 such terms: factor_eri_parts / factor_denom parts sum to the input"},
    "fock.diagonalisation": {
        "function": "adcgen.expr_container:Obj.diagonalize_fock", "cases": fock_cases,
        "check": fock_check,
        "bound": "products of 1-2 Fock matrix elements (exponents 1-3) with a remainder tensor, 0-2 targets, diagonal Fock model"},
}
