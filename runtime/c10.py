"""Executable contracts for C10 on the real code (bounded stand-ins)."""
import itertools
import random
from fractions import Fraction

from sympy import Mul, S, Add, Rational

from adcgen.indices import get_symbols
from adcgen.sympy_objects import (NonSymmetricTensor, AntiSymmetricTensor, KroneckerDelta,
                                  Amplitude, SymmetricTensor)
from adcgen.expr_container import Expr
from adcgen.sort_expr import (by_delta_types, by_delta_indices, by_tensor_block,
                              by_tensor_target_block, by_tensor_target_indices,
                              exploit_perm_sym)
from adcgen.simplify import filter_tensor
from runtime.tensor_model import Model, orbital_space, evaluate, all_assignments

BUDGET_S = {"quick": 100, "thorough": 1500}
OCC, VIRT = ["i", "j", "k", "l"], ["a", "b", "c", "d"]


def build_term(spec, idx):
    fs = []
    for kind, names, exp in spec:
        t = tuple(idx[n] for n in names)
        h = len(t) // 2
        if kind == "V":
            o = AntiSymmetricTensor("V", t[:h], t[h:], 1)
        elif kind == "t":
            o = Amplitude("t1", t[:h], t[h:])
        elif kind == "d":
            o = KroneckerDelta(*t)
        elif kind == "f":
            o = AntiSymmetricTensor("f", t[:1], t[1:], 1)
        elif kind == "K":       # bra-ket antisymmetric
            o = AntiSymmetricTensor("K", t[:h], t[h:], -1)
        elif kind == "A":       # no bra-ket symmetry
            o = AntiSymmetricTensor("A", t[:h], t[h:], 0)
        elif kind == "D":       # symmetric within bra and ket, bra-ket antisymmetric
            o = SymmetricTensor("D", t[:h], t[h:], -1)
        elif kind == "Q":       # symmetric within bra and ket, bra-ket symmetric
            o = SymmetricTensor("Sy", t[:h], t[h:], 1)
        else:
            o = NonSymmetricTensor(kind if kind in ("Y", "Z") else "X", t)
        fs.append(o ** exp)
    return Mul(*fs)


def random_term(rng, names):
    i, j, k, a, b, c = names
    spec = []
    for _ in range(rng.randint(1, 3)):
        kind = rng.choice(["V", "t", "d", "f", "X", "K", "A"])
        if kind == "V":
            spec.append(["V", rng.sample(names, 4), 1])
        elif kind in "KA":
            # diagonal blocks (same spaces above and below) and others
            if rng.random() < 0.5:
                spec.append([kind, rng.sample([i, j, k], 2) if rng.random() < 0.5 else rng.sample([a, b, c], 2), 1])
            elif rng.random() < 0.5:
                spec.append([kind, rng.sample([i, j, k], 2) + rng.sample([i, j, k], 2), 1])
            else:
                spec.append([kind, rng.sample(names, rng.choice([2, 4])), 1])
        elif kind == "t":
            spec.append(["t", rng.sample([a, b, c], 2) + rng.sample([i, j, k], 2), 1])
        elif kind == "d":
            spec.append(["d", rng.sample([i, j, k], 2) if rng.random() < .5 else rng.sample([a, b, c], 2), 1])
        elif kind == "f":
            spec.append(["f", rng.sample(names, 2), rng.choice([1, 1, 2])])
        else:
            spec.append(["X", rng.sample(names, rng.randint(1, 3)), 1])
    return spec


def model(big=False):
    # big: 4 occupied spin orbitals (antisymmetric four index blocks vanish
    # identically with 2)
    return Model(orbital_space(2 if big else 1, 1), seed=21, braket={"V": 1, "f": 1, "K": -1, "D": -1, "Sy": 1})


# --- Term.symmetry -------------------------------------------------------------
def permuted_assignment(asg, perms):
    """assignment under which the ORIGINAL term has the value of the permuted
    term: the symbol s is replaced by sigma(s) = p_n(...p_1(s)), so s takes
    the orbital of sigma(s).  Independent of the library's permute / tensor
    constructors."""
    def sigma(s):
        for x, y in perms:
            s = y if s == x else (x if s == y else s)
        return s
    return {s: asg[sigma(s)] if sigma(s) in asg else asg[s] for s in asg}


def sym_cases(tier, seed):
    rng = random.Random(seed)
    yield {"term": [["V", ["i", "j", "a", "b"], 1], ["t", ["a", "b", "i", "j"], 1]], "mode": "all"}
    # bra-ket (anti)symmetric tensors in a diagonal block, every index order
    import itertools
    for kind in ("K", "V", "A"):
        for perm in itertools.permutations(["i", "j", "k", "l"]):
            if kind != "K" and perm[0] > perm[1]:
                continue
            yield {"term": [[kind, list(perm), 1], ["X", ["i"], 1]], "mode": "all"}
    # the symmetry of a single object (Obj.symmetry) and of terms with powers of
    # tensors: an even power of a bra-ket antisymmetric tensor is bra-ket symmetric
    for kind in ("K", "V", "A", "D", "Q"):
        for exp in (1, 2, 3):
            for names in (["i", "j", "k", "l"], ["i", "j", "a", "b"], ["i", "j"], ["i", "a"]):
                yield {"term": [[kind, names, exp]], "mode": "obj"}
                if exp > 1:
                    # (Term.symmetry() without restriction lists repeated indices with their
                    # multiplicity and enumerates products of up to n-1 of all index pairs: with
                    # seven or more entries of one space it does not return in any useful time,
                    # so terms with powers are analysed through their (contracted) indices)
                    mode = "contracted"
                    yield {"term": [[kind, names, exp]], "mode": mode}
                    yield {"term": [[kind, names, exp], ["X", [names[0]], 1]], "mode": mode}
    for _ in range(30 if tier == "quick" else 400):
        names = rng.sample(OCC, 3) + rng.sample(VIRT, 3)
        t = random_term(rng, names)[:2]
        if len({n for _k, nm, _e in t for n in nm}) > 5:
            continue
        yield {"term": t, "mode": rng.choice(["all", "contracted", "target"])}


def sym_check(case):
    idx = {n: get_symbols(n)[0] for n in OCC + VIRT}
    sym = build_term(case["term"], idx)
    if sym is S.Zero or sym.is_number:
        return True, "trivial"
    e = Expr(sym, real=True)
    term = e.terms[0]
    m = model(big=sum(1 for x in term.idx if x.space == "occ") > 4)
    if case["mode"] == "obj":
        # Obj.symmetry: all indices of the object count as target indices
        rng = random.Random(len(str(case)))
        for obj in term.objects:
            if obj.sympy.is_number:
                continue
            idxs = list(dict.fromkeys(obj.idx))
            for perms, factor in obj.symmetry().items():
                if factor not in (1, -1):
                    return False, f"factor {factor} reported for {perms} of {obj}"
                for asg in all_assignments(idxs, m.orbs, limit=12, rng=rng):
                    v0 = evaluate(obj.sympy, asg, m)
                    v1 = evaluate(obj.sympy, permuted_assignment(asg, perms), m)
                    if v1 != factor * v0:
                        return False, (f"Obj.symmetry of {obj} reports {perms} -> {factor} but the permuted "
                                       f"object has value {v1} vs {factor}*{v0} at {asg}")
        return True, ""
    kw = {"all": {}, "contracted": {"only_contracted": True}, "target": {"only_target": True}}[case["mode"]]
    res = term.symmetry(**kw)
    targets = list(term.target)
    rng = random.Random(len(str(case)))
    items = list(res.items())
    if len(items) > 12:
        items = rng.sample(items, 12)
    for perms, factor in items:
        if factor not in (1, -1):
            return False, f"factor {factor} reported for {perms}"
        # permutations of contracted indices never change the value; for the
        # target indices the permutation acts on the assignment
        if any((x in targets) != (y in targets) for x, y in perms):
            return False, f"symmetry of {term} mixes target and contracted indices: {perms}"
        for asg in all_assignments(targets, m.orbs, limit=10, rng=rng):
            v0 = evaluate(term.sympy, asg, m)
            v1 = evaluate(term.sympy, permuted_assignment(asg, perms), m)
            if v1 != factor * v0:
                return False, (f"symmetry of {term} reports {perms} -> {factor} but the permuted term "
                               f"has value {v1} vs {factor}*{v0} at {asg}")
        # the library's own permuted term has that value as well (constructors)
        permuted = Expr(term.sympy, **term.assumptions).permute(*perms)
        for asg in all_assignments(targets, m.orbs, limit=4, rng=rng):
            if evaluate(permuted.sympy, asg, m) != evaluate(term.sympy, permuted_assignment(asg, perms), m):
                return False, f"permute{perms} of {term} gives {permuted}: wrong value at {asg}"
    return True, ""


# --- sorters ----------------------------------------------------------------------
def sorter_cases(tier, seed):
    rng = random.Random(seed + 2)
    # powers of the tensor the expression is sorted by: one key entry per occurrence
    yield {"terms": [[["V", ["i", "j", "a", "b"], 2], ["X", ["k"], 1]], [["V", ["i", "j", "a", "b"], 1], ["X", ["k"], 1]],
                     [["f", ["j", "a"], 2], ["X", ["i", "i", "k"], 1]], [["f", ["j", "a"], 1], ["f", ["i", "b"], 1]]],
           "coeffs": [1, 2, -1, 1], "targets": []}
    yield {"terms": [[["V", ["i", "j", "a", "b"], 3]], [["f", ["i", "j"], 3], ["V", ["i", "k", "a", "b"], 1]]],
           "coeffs": [1, 1], "targets": []}
    for _ in range(40 if tier == "quick" else 500):
        names = rng.sample(OCC, 3) + rng.sample(VIRT, 3)
        yield {"terms": [random_term(rng, names) for _ in range(rng.randint(1, 4))],
               "coeffs": [rng.choice([1, -1, 2]) for _ in range(4)],
               "targets": rng.sample(names, rng.randint(0, 2))}


def delta_block(o):
    spin = o.spin
    return o.space if all(c == "n" for c in spin) else f"{o.space}_{spin}"


def target_key(t, name, block):
    """documented key: per occurrence of the tensor the space (and spin) /
    the names of the TARGET indices it carries"""
    keys = []
    for o in t.tensors:
        if o.name != name:
            continue
        tg = [s for s in o.idx if s in t.target]
        if not tg:
            keys.append("none")
        elif block:
            k = "".join(s.space[0] for s in tg)
            if any(s.spin for s in tg):
                k += "_" + "".join(s.spin or "n" for s in tg)
            keys.append(k)
        else:
            keys.append("".join(s.name for s in tg))
    return tuple(sorted(keys)) or (f"no_{name}",)


def sorter_check(case):
    idx = {n: get_symbols(n)[0] for n in OCC + VIRT}
    total = S.Zero
    for c, t in zip(case["coeffs"], case["terms"]):
        total += c * build_term(t, idx)
    tg = [idx[n] for n in case.get("targets", [])]
    e = Expr(total, real=True, target_idx=tg).expand()
    if e.sympy is S.Zero or e.sympy.is_number:
        return True, "trivial"
    if any(s not in t.idx for t in e.terms for s in tg):
        e = Expr(total, real=True, target_idx=[]).expand()
        tg = []
    m = model()
    asg0 = {s: [o for o in m.orbs if (o[0] == "o") == (s.space == "occ")][0] for s in tg}
    ref = evaluate(e.sympy, asg0, m)
    sorters = {
        "by_delta_types": (lambda x: by_delta_types(x),
                           lambda t: tuple(sorted(delta_block(d) for d in t.deltas for _ in range(d.exponent))) or ("none",)),
        "by_delta_indices": (lambda x: by_delta_indices(x),
                             lambda t: tuple(sorted("".join(str(s) for s in d.idx) for d in t.deltas for _ in range(d.exponent))) or ("none",)),
        "by_tensor_block[V]": (lambda x: by_tensor_block(x, "V"),
                               lambda t: tuple(sorted(delta_block(o) for o in t.tensors if o.name == "V" for _ in range(o.exponent))) or ("none",)),
        "by_tensor_block[f]": (lambda x: by_tensor_block(x, "f"),
                               lambda t: tuple(sorted(delta_block(o) for o in t.tensors if o.name == "f" for _ in range(o.exponent))) or ("none",)),
        "by_tensor_target_block[X]": (lambda x: by_tensor_target_block(x, "X"), lambda t: target_key(t, "X", True)),
        "by_tensor_target_indices[X]": (lambda x: by_tensor_target_indices(x, "X"), lambda t: target_key(t, "X", False)),
    }
    for name, (fn, keyfn) in sorters.items():
        parts = fn(e.copy())
        tot = Fraction(0)
        nterms = 0
        for key, part in parts.items():
            pe = part if isinstance(part, Expr) else Expr(part)
            tot += evaluate(pe.sympy, asg0, m)
            nterms += len(pe.terms) if pe.sympy != 0 else 0
            if keyfn is not None:
                for t in pe.terms:
                    if keyfn(t) != key:
                        return False, f"{name}: term {t} is in bucket {key} but its key is {keyfn(t)}"
        if tot != ref:
            return False, f"{name}: parts of {e} sum to {tot}, the expression to {ref}"
        if nterms != len(e.terms):
            return False, f"{name}: {nterms} terms in the parts, {len(e.terms)} in the expression"
    # filter_tensor: documented predicate for 'low'
    kept = filter_tensor(e.copy(), ["V"], strict="low")
    exp = Add(*[t.sympy for t in e.terms if any(o.name == "V" for o in t.tensors)])
    if (kept.sympy - exp).expand() != 0:
        return False, f"filter_tensor(['V'], low) of {e}: {kept} instead of {exp}"
    return True, ""


# --- exploit_perm_sym -----------------------------------------------------------------
def eps_cases(tier, seed):
    rng = random.Random(seed + 4)
    yield {"expr": "ph_second_order"}
    bases = [
        [["V", ["i", "k", "a", "c"], 1], ["t", ["b", "c", "j", "k"], 1]],
        # products of one and the same tensor: several permutations map a term
        # onto the same partner (P_ij X = P_ab X, P_ij P_ab X = X)
        [["Y", ["i", "a"], 1], ["Y", ["j", "b"], 1]],
        [["Y", ["i", "a"], 1], ["Z", ["j", "b"], 1]],
        [["f", ["i", "a"], 1], ["f", ["j", "b"], 1]],
        [["t", ["a", "c", "i", "k"], 1], ["t", ["b", "c", "j", "k"], 1]],
        [["Y", ["i", "j"], 1], ["Y", ["a", "b"], 1]],
    ]
    for kind in ("K", "A"):
        yield {"expr": "sum", "terms": [[[kind, ["i", "j", "k", "l"], 1], ["X", ["i"], 1]],
                                        [[kind, ["i", "l", "j", "k"], 1], ["X", ["k"], 1]]], "targets": "ijkl"}
        yield {"expr": "sum", "terms": [[[kind, ["i", "j", "k", "l"], 1], ["X", ["i"], 1]],
                                        [[kind, ["k", "l", "i", "j"], 1], ["X", ["k"], 1]]], "targets": "ijkl"}
    for base in bases[1:]:
        for signs in ([-1, -1], [1, 1], [-1, 1]):
            yield {"expr": "custom", "base": base, "perms": [["i", "j"], ["a", "b"]], "signs": signs}
        yield {"expr": "custom", "base": base, "perms": [["i", "j"]], "signs": [-1]}
    for _ in range(15 if tier == "quick" else 200):
        base = rng.choice(bases)
        yield {"expr": "custom", "base": base,
               "perms": rng.sample([["i", "j"], ["a", "b"]], rng.randint(0, 2)),
               "signs": [rng.choice([1, -1]) for _ in range(2)]}


def eps_check(case):
    idx = {n: get_symbols(n)[0] for n in OCC + VIRT}
    i, j, a, b = idx["i"], idx["j"], idx["a"], idx["b"]
    if case["expr"] == "sum":
        total = sum(build_term(t, idx) for t in case["terms"])
        tg = [idx[n] for n in case["targets"]]
        e = Expr(total, real=True, target_idx=tg).expand()
        if e.sympy is S.Zero:
            return True, "vanishes"
        res = exploit_perm_sym(e.copy(), target_indices=case["targets"])
        return _rebuild_check(e, res, tg)
    if case["expr"] == "ph_second_order":
        base = build_term([["V", ["i", "k", "a", "c"], 1], ["t", ["b", "c", "j", "k"], 1]], idx)
        total = base
        for (x, y), s in (((i, j), -1), ((a, b), -1)):
            total = total + s * total.subs({x: y, y: x}, simultaneous=True)
    else:
        base = build_term(case["base"], idx)
        total = base
        for (x, y), s in zip(case["perms"], case["signs"]):
            X, Y = idx[x], idx[y]
            total = total + s * total.subs({X: Y, Y: X}, simultaneous=True)
    e = Expr(total, real=True, target_idx=[i, j, a, b]).expand()
    if e.sympy is S.Zero:
        return True, "vanishes"
    res = exploit_perm_sym(e.copy(), target_indices="ijab")
    return _rebuild_check(e, res, [i, j, a, b])


def _rebuild_check(e, res, targets):
    m = model(big=sum(1 for x in targets if x.space == "occ") > 2)
    import random as _r
    limit = 120 if len(m.orbs) > 4 else None
    parts = []
    for perms, part in res.items():
        pe = part if isinstance(part, Expr) else Expr(part)
        parts.append((pe.sympy, [((), 1)] + [(tuple(perm), factor) for perm, factor in perms]))
    for asg in all_assignments(targets, m.orbs, limit=limit, rng=_r.Random(5)):
        v0 = evaluate(e.sympy, asg, m)
        # the operators act on the target assignment (independent of permute)
        v1 = sum(factor * evaluate(sym, permuted_assignment(asg, perm), m)
                 for sym, ops in parts for perm, factor in ops)
        if v0 != v1:
            return False, (f"exploit_perm_sym of {e}: applying the reported operators to the parts "
                           f"{ {k: str(v) for k, v in res.items()} } gives {v1}, expression {v0}")
    return True, ""


CHECKS = {
    "symmetry.true": {
        "function": "adcgen.expr_container:Term.symmetry", "cases": sym_cases, "check": sym_check,
        "bound": "products of <= 3 objects over 3 occ + 3 virt names, all / contracted / target restrictions; every reported (permutation, factor) is checked in value"},
    "sorters.lossless_and_keys": {
        "function": "adcgen.sort_expr:by_tensor_block", "cases": sorter_cases, "check": sorter_check,
        "bound": "sums of <= 4 such terms: parts sum to the expression, term counts agree, bucket keys equal an independent key computation; filter_tensor 'low'"},
    "exploit_perm_sym.lossless": {
        "function": "adcgen.sort_expr:exploit_perm_sym", "cases": eps_cases, "check": eps_check,
        "bound": "(anti)symmetrised products of two (different or identical) tensors / amplitudes / Fock elements, targets ijab: applying the returned permutation operators to the returned parts reproduces the expression"},
}
