"""Path context: decision trace, path condition, obligations."""
import time
import z3
from .values import term, znot, Unsupported


class PathEnd(Exception):
    """The current path ends here (infeasible, or cut after inv.keep)."""


class ReturnEx(Exception):
    def __init__(self, value):
        self.value = value


class BreakEx(Exception):
    pass


class ContinueEx(Exception):
    pass


class RaiseEx(Exception):
    """A Python exception raised by the code under verification."""

    def __init__(self, exc, msg=""):
        self.exc = exc     # class name (str)
        self.msg = msg


SOLVER_TIMEOUT_MS = 10000


def _has_quantifier(f):
    seen = set()
    todo = [f]
    while todo:
        t = todo.pop()
        if t.get_id() in seen:
            continue
        seen.add(t.get_id())
        if z3.is_quantifier(t):
            return True
        todo.extend(t.children())
    return False
FEAS_TIMEOUT_MS = 3000


class Obligation:
    def __init__(self, name, result, ms, backend="z3", model=None, smt2=None,
                 kind="vc", info=None):
        self.name = name
        self.result = result     # "unsat" (discharged) | "sat" | "unknown"
        self.ms = ms
        self.backend = backend
        self.model = model
        self.smt2 = smt2
        self.kind = kind         # vc | cover
        self.info = info or {}

    def to_json(self):
        return {"name": self.name, "result": self.result,
                "solver_ms": round(self.ms, 2), "backend": self.backend,
                "kind": self.kind}


class Run:
    """State shared by all paths of one function verification."""

    def __init__(self, fkey, prop):
        self.fkey = fkey
        self.prop = prop
        self.worklist = [[]]
        self.obligations = []
        self.paths = 0
        self.undecided = []
        self.covers = {}
        self.counter = 0
        self.keep_smt2 = 2       # number of sample SMT-LIB dumps kept
        self.max_paths = 50000

    def fresh_id(self):
        self.counter += 1
        return self.counter


class VC:
    def __init__(self, run, decisions):
        self.run = run
        self.decisions = list(decisions)
        self.pos = 0
        self.pc = []
        self.solver = z3.Solver()
        self.solver.set("timeout", SOLVER_TIMEOUT_MS)
        self.nfresh = 0
        self.ghost = {}
        self.notes = []

    # -- fresh symbols ------------------------------------------------------
    def fresh(self, prefix, sort):
        self.nfresh += 1
        return z3.Const(f"{prefix}!{self.nfresh}", sort)

    def fresh_int(self, prefix="n"):
        return self.fresh(prefix, z3.IntSort())

    def fresh_real(self, prefix="r"):
        return self.fresh(prefix, z3.RealSort())

    def fresh_bool(self, prefix="b"):
        return self.fresh(prefix, z3.BoolSort())

    # -- path condition -------------------------------------------------------
    def assume(self, f):
        if f is True:
            return
        if f is False:
            raise PathEnd()
        f = term(f)
        self.pc.append(f)
        self.solver.add(f)
        if self.light is not None and not _has_quantifier(f):
            self.light.add(f)

    def _sat(self, extra):
        self.solver.push()
        self.solver.add(extra)
        r = self.solver.check()
        self.solver.pop()
        return r

    # feasibility queries of the path exploration (decide / concretize / feasible): `unknown`
    # counts as feasible - exploring an infeasible path is harmless, its obligations hold
    # vacuously - so a contract with many quantified assumptions may lower their budget
    feas_timeout_ms = None
    light = None      # second solver holding only the quantifier free part of the path condition

    def use_light_feasibility(self):
        """feasibility queries are answered from the quantifier free part of the path condition
        (an over-approximation of feasibility: sound for path exploration)"""
        self.light = z3.Solver()
        self.light.set("timeout", 2000)
        for f in self.pc:
            if not _has_quantifier(f):
                self.light.add(f)

    def _feas(self, extra=None):
        if self.light is not None:
            if extra is None:
                return self.light.check()
            self.light.push()
            self.light.add(extra)
            r = self.light.check()
            self.light.pop()
            return r
        if self.feas_timeout_ms is not None:
            self.solver.set("timeout", self.feas_timeout_ms)
        try:
            return self._sat(extra) if extra is not None else self.solver.check()
        finally:
            if self.feas_timeout_ms is not None:
                self.solver.set("timeout", SOLVER_TIMEOUT_MS)

    def feasible(self):
        return self._feas() != z3.unsat

    def decide(self, cond):
        """Branch on a (possibly symbolic) boolean; returns a python bool."""
        if isinstance(cond, bool):
            return cond
        c = z3.simplify(term(cond))
        if z3.is_true(c):
            return True
        if z3.is_false(c):
            return False
        if self.pos < len(self.decisions):
            choice = self.decisions[self.pos]
        else:
            can_t = self._feas(c) != z3.unsat
            can_f = self._feas(z3.Not(c)) != z3.unsat
            if can_t and can_f:
                choice = 1
                self.run.worklist.append(self.decisions[:self.pos] + [0])
            elif can_t:
                choice = 1
            elif can_f:
                choice = 0
            else:
                raise PathEnd()
            self.decisions.append(choice)
        self.pos += 1
        self.assume(c if choice else z3.Not(c))
        return bool(choice)

    def choose(self, n, label=""):
        """Non-deterministic choice among n alternatives (all explored)."""
        if n == 1:
            return 0
        if self.pos < len(self.decisions):
            choice = self.decisions[self.pos]
        else:
            choice = 0
            for alt in range(1, n):
                self.run.worklist.append(self.decisions[:self.pos] + [alt])
            self.decisions.append(choice)
        self.pos += 1
        return choice

    def concretize(self, t, domain=None):
        """Case split: returns the concrete python value of the z3 term `t`
        among `domain` (each alternative is a separate path)."""
        from .values import Sym
        if isinstance(t, str):
            return t
        if isinstance(t, Sym) and t.enum is not None:
            code = self.concretize(t.t, list(range(len(t.enum))))
            return t.enum[code]
        t = term(t)
        s = z3.simplify(t)
        if z3.is_string_value(s):
            return s.as_string()
        if z3.is_int_value(s):
            return s.as_long()
        feas = []
        if self.pos < len(self.decisions):
            choice = self.decisions[self.pos]
        else:
            for i, d in enumerate(domain):
                if self._feas(t == term(d)) != z3.unsat:
                    feas.append(i)
            if not feas:
                raise PathEnd()
            choice = feas[0]
            for alt in feas[1:]:
                self.run.worklist.append(self.decisions[:self.pos] + [alt])
            self.decisions.append(choice)
        self.pos += 1
        self.assume(t == term(domain[choice]))
        return domain[choice]

    # -- obligations -------------------------------------------------------------
    def check(self, name, f, info=None):
        """Obligation: pc => f.  Discharged iff pc /\\ not f is unsat."""
        full = f"{self.run.prop}/{self.run.fkey}/{name}"
        if f is True:
            self.run.obligations.append(Obligation(full, "unsat", 0.0,
                                                   backend="trivial"))
            return True
        t0 = time.time()
        neg = znot(f)
        if neg is True:
            # literally false: is the path feasible at all?
            r = self.solver.check()
            neg_t = z3.BoolVal(True)
        else:
            neg_t = term(neg)
            r = self._sat(neg_t)
        backend = "z3"
        if r == z3.unknown:
            r = self._validate_candidate(neg_t)
        if r == z3.unknown:
            r2 = self._cvc5(neg_t)
            if r2 is not None:
                r, backend = r2, "cvc5"
        ms = (time.time() - t0) * 1000
        model = None
        smt2 = None
        if r == z3.sat:
            self.solver.push()
            self.solver.add(neg_t)
            self.solver.check()
            try:
                m = self.solver.model()
                model = {str(d): str(m[d])[:300] for d in m.decls()}
            except z3.Z3Exception:
                model = getattr(self, "_candidate", {})
            smt2 = self.solver.to_smt2()
            self.solver.pop()
        elif self.run.keep_smt2 > 0 and r == z3.unsat:
            self.solver.push()
            self.solver.add(neg_t)
            smt2 = self.solver.to_smt2()
            self.solver.pop()
            self.run.keep_smt2 -= 1
        res = "unsat" if r == z3.unsat else ("sat" if r == z3.sat else "unknown")
        ob = Obligation(full, res, ms, backend=backend, model=model, smt2=smt2, info=info)
        if res == "unknown":
            ob.info["reason"] = self.solver.reason_unknown()
        self.run.obligations.append(ob)
        # continue as if the obligation held (avoid cascades)
        if res != "unsat":
            try:
                self.assume(f)
            except PathEnd:
                raise
            if not self.feasible():
                raise PathEnd()
        else:
            self.assume(f)
        return res == "unsat"

    def _cvc5(self, neg_t):
        """second back end for queries z3 leaves open (strings): the SMT-LIB
        dump of the same query is given to /usr/bin/cvc5 --strings-exp"""
        import subprocess
        import tempfile
        import os
        self.solver.push()
        self.solver.add(neg_t)
        text = self.solver.to_smt2()
        self.solver.pop()
        if "String" not in text and "str." not in text:
            return None
        text = "(set-logic ALL)\n" + text
        fd, path = tempfile.mkstemp(suffix=".smt2")
        try:
            with os.fdopen(fd, "w") as f:
                f.write(text)
            p = subprocess.run(["/usr/bin/cvc5", "--strings-exp", "--tlimit=20000", path],
                               capture_output=True, text=True, timeout=40)
            out = p.stdout.strip().splitlines()
            if out and out[0] == "unsat":
                return z3.unsat
            if out and out[0] == "sat":
                return z3.sat
        except Exception:
            return None
        finally:
            os.unlink(path)
        return None

    def _validate_candidate(self, neg_t):
        """z3 answers `unknown (incomplete theory array)` when lambda arrays
        occur although it has a candidate model.  The candidate is accepted as
        a counter-model only if every assertion evaluates to true under it."""
        self.solver.push()
        self.solver.add(neg_t)
        try:
            if self.solver.check() != z3.unknown:
                return self.solver.check()
            try:
                m = self.solver.model()
            except z3.Z3Exception:
                return z3.unknown
            for a in self.solver.assertions():
                v = m.eval(a, model_completion=True)
                if not z3.is_true(v):
                    return z3.unknown
            self._candidate = {str(d): str(m[d])[:300] for d in m.decls()}
            return z3.sat
        finally:
            self.solver.pop()

    def cover(self, label):
        self.run.covers[label] = self.run.covers.get(label, 0) + 1

    def unsupported(self, msg):
        raise Unsupported(msg)
