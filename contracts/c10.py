"""C10 - lossless decompositions.  Contracts on the sorters of
adcgen.sort_expr (by_delta_types, by_delta_indices, by_tensor_block,
by_tensor_target_block, by_tensor_target_indices): every term of the
expression is added to exactly one bucket, nothing else is added."""
import z3
from pyvc import contract as C
from pyvc.contract import Contract, LoopContract, register, lemma
from pyvc.values import (Struct, Sym, SymSeq, PList, PDict, term, wrap, zand, zor, znot, zeq,
                         mk_enum, Unsupported)
from spec.idx import IdxSort, new_index

ASSUMPTIONS = [
    "Expr += term adds the term's value; Expr(0, **assumptions) is the empty sum (sympy Add homomorphism)",
    "exchange of summation: if every bucket is the sum of the terms whose computed key equals the bucket's key, the buckets sum to the expression (math)",
    "abstract view of a term: Term.deltas / Term.tensors as short lists (0-2 objects) of objects with symbolic name / space / spin / exponent (<= 2) / index tuples; Term.target an arbitrary index set",
    "the computed key is compared with an independent key computation only in the bounded stand-in sorters.keys; Term.symmetry, Permutation/PermutationProduct, exploit_perm_sym and filter_tensor are only covered by bounded stand-ins (symmetry.true, exploit_perm_sym.lossless, filter_tensor.predicate)",
]
TRUSTED = []
TermS = z3.DeclareSort("TermS")
TVAL = z3.Function("term_value", TermS, z3.RealSort())
KeyArrV = z3.ArraySort(z3.IntSort(), z3.RealSort())
KeyArrB = z3.ArraySort(z3.IntSort(), z3.BoolSort())
TermArr = z3.ArraySort(z3.IntSort(), TermS)
KEYOF = z3.Function("computed_key", TermArr, z3.IntSort(), z3.IntSort())
VALSPEC = z3.Function("bucket_values_after", TermArr, z3.IntSort(), KeyArrV)
DOMSPEC = z3.Function("bucket_keys_after", TermArr, z3.IntSort(), KeyArrB)

SPACES2 = ["oo", "ov"]
SPINS2 = ["nn", "ab"]
NAMES = ["V", "X"]


_KEYCODES = {}


def keystr(k):
    """bucket keys (tuples of strings) are coded as integers (injective)"""
    return z3.IntVal(_KEYCODES.setdefault(repr(k), len(_KEYCODES)))


def mk_obj(vc, tag):
    """abstract delta / tensor object with enumerated attributes"""
    sp = mk_enum(vc.fresh_int(tag + "_space"), SPACES2)
    sn = mk_enum(vc.fresh_int(tag + "_spin"), SPINS2)
    nm = mk_enum(vc.fresh_int(tag + "_name"), NAMES)
    for v, dom in ((sp, SPACES2), (sn, SPINS2), (nm, NAMES)):
        if isinstance(v, Sym):
            vc.assume(z3.And(v.t >= 0, v.t < len(dom)))
    exp = 1 + vc.choose(2, "exponent")
    idx = tuple(idx_token(vc, n) for n in ("i", "a"))
    return Struct("SObj", space=sp, spin=sn, name=nm, exponent=exp, idx=idx)


def idx_token(vc, name):
    from spec.idx import idx_space, idx_spin, SPACES
    s = new_index(vc, name)
    vc.assume(idx_space(s.t) == (0 if name in "ijkl" else 1))
    vc.assume(idx_spin(s.t) == 0)
    vc.ghost.setdefault("_tok", {})[s.t.get_id()] = name
    return s


def _name_of(ip, s):
    return ip.vc.ghost.get("_tok", {}).get(s.t.get_id(), "x")


C.SCHEMAS["Index"].attrs["name"] = ("py", _name_of)
C.SCHEMAS["Index"].methods["__str__"] = lambda ip, s, a, k: _name_of(ip, s)
_orig_to_str = None


def term_attr(kind):
    def f(ip, s):
        vc = ip.vc
        n = vc.choose(3, kind)          # 0, 1 or 2 objects
        return PList([mk_obj(vc, f"{kind}{k}") for k in range(n)])
    return f


def term_target(ip, s):
    return Struct("IdxSetView", mem=ip.vc.fresh("target", z3.ArraySort(IdxSort, z3.BoolSort())))


C.STRUCT_CONTAINS["IdxSetView"] = lambda ip, o, x: z3.Select(o.f["mem"], x.t)
C.Schema("TermS", TermS, attrs={
    "deltas": ("py", term_attr("delta")),
    "tensors": ("py", term_attr("tensor")),
    "target": ("py", term_target),
    "assumptions": ("py", lambda ip, s: PDict({})),
})


# --- buckets ------------------------------------------------------------------
def bm_contains(ip, obj, key):
    return z3.Select(obj.f["dom"], keystr(ip.hashable(key)))


def bm_store(ip, obj, key, v):
    k = keystr(ip.hashable(key))
    if isinstance(v, Struct) and v.cls == "BucketRef":
        return              # result of `ret[key] += term` stored back
    val = z3.RealVal(0) if (isinstance(v, int) and v == 0) or \
        (isinstance(v, Struct) and v.cls == "EmptyExpr") else None
    if val is None:
        raise Unsupported("store of a non empty expression into a bucket")
    obj.f["dom"] = z3.Store(obj.f["dom"], k, True)
    obj.f["val"] = z3.Store(obj.f["val"], k, val)


def bm_subscript(ip, obj, key):
    from pyvc.vc import RaiseEx
    k = keystr(ip.hashable(key))
    if not ip.vc.decide(z3.Select(obj.f["dom"], k)):
        raise RaiseEx("KeyError", "bucket")
    return Struct("BucketRef", map=obj, key=k)


def bucket_inplace(ip, opn, cur, rhs):
    if opn == "Add" and isinstance(rhs, Sym) and rhs.schema == "TermS":
        m, k = cur.f["map"], cur.f["key"]
        m.f["val"] = z3.Store(m.f["val"], k, z3.Select(m.f["val"], k) + TVAL(rhs.t))
        m.f["added"] = m.f.get("added", 0) + 1
        return True, cur
    raise Unsupported("in place operation on a bucket")


C.STRUCT_CONTAINS["BucketMap"] = bm_contains
C.STRUCT_STORE["BucketMap"] = bm_store
C.STRUCT_SUBSCRIPT["BucketMap"] = bm_subscript
C.STRUCT_INPLACE["BucketRef"] = bucket_inplace


def _capture(ip, key):
    """ghost: the key the code computes in iteration k *is* KEYOF(k)"""
    k = ip.vc.ghost.get("_sort_k")
    arr = ip.vc.ghost.get("_sort_arr")
    if k is not None and arr is not None:
        ip.vc.assume(KEYOF(arr, k) == keystr(ip.hashable(key)))


def _wrap_capture(fn):
    def g(ip, obj, key, *rest):
        _capture(ip, key)
        return fn(ip, obj, key, *rest)
    return g


for _reg_ in (C.STRUCT_STORE, C.STRUCT_SUBSCRIPT, C.STRUCT_CONTAINS):
    _reg_["BucketMap"] = _wrap_capture(_reg_["BucketMap"])


def to_bucketmap(v):
    if isinstance(v, Struct) and v.cls == "BucketMap":
        return v
    if isinstance(v, PDict) and not v.d:
        return Struct("BucketMap", dom=z3.K(z3.IntSort(), False), val=z3.K(z3.IntSort(), z3.RealVal(0)))
    raise Unsupported("bucket dictionary")


class SortLoop(LoopContract):
    def iter_spec(self, vc, frame, seq):
        return [("runs-over-the-terms-of-the-expression", seq.obj is frame["expr"].f["termseq"])]

    def havoc(self, vc, frame, k, seq):
        frame["ret"] = Struct("BucketMap", dom=vc.fresh("dom", KeyArrB), val=vc.fresh("val", KeyArrV))
        for nm in ("term", "d_blocks", "d_idx", "t_blocks", "key", "target", "delta", "tensor",
                   "obj", "spin", "block"):
            frame.locals.pop(nm, None)
        vc.ghost["_sort_k"] = term(k)

    def invariant(self, vc, frame, k, seq):
        arr = frame["expr"].f["termseq"].arrs[0]
        kk = term(k)
        ret = to_bucketmap(frame["ret"])
        frame["ret"] = ret
        vc.assume(VALSPEC(arr, 0) == z3.K(z3.IntSort(), z3.RealVal(0)))
        vc.assume(DOMSPEC(arr, 0) == z3.K(z3.IntSort(), False))
        key = KEYOF(arr, kk)
        vc.assume(z3.Implies(kk >= 0, z3.And(
            VALSPEC(arr, kk + 1) == z3.Store(VALSPEC(arr, kk), key,
                                             z3.If(DOMSPEC(arr, kk)[key], VALSPEC(arr, kk)[key], 0) + TVAL(arr[kk])),
            DOMSPEC(arr, kk + 1) == z3.Store(DOMSPEC(arr, kk), key, True))))
        return [("buckets-hold-exactly-the-processed-terms-each-in-one-bucket",
                 z3.And(ret.f["val"] == VALSPEC(arr, kk), ret.f["dom"] == DOMSPEC(arr, kk)))]


class _Sorter(Contract):
    props = ["C10"]
    loops = {}
    needs_name = False

    def setup(self, vc):
        n = vc.fresh_int("nterms")
        vc.assume(n >= 0)
        terms = SymSeq(Sym(n), [vc.fresh("terms", TermArr)], ("sym", TermS, "TermS"), mutable=False)
        expr = Struct("ExprArg", termseq=terms)
        C.STRUCT_ATTR[("ExprArg", "terms")] = lambda ip, o: o.f["termseq"]
        C.STRUCT_METHODS[("ExprArg", "expand")] = lambda ip, o, a, k: o
        C.STRUCT_ISINSTANCE["ExprArg"] = lambda ip, v, cls: True
        C.CLASS_MODELS["adcgen.expr_container:Expr"] = lambda ip, a, k: Struct("EmptyExpr") \
            if a[0] == 0 else (_ for _ in ()).throw(Unsupported("Expr(...)"))
        a = {"expr": expr}
        if self.needs_name:
            a["t_name"] = "V"
        # ghost: the key the code computes in iteration k *is* KEYOF(k)
        vc.ghost["_sort_arr"] = terms.arrs[0]
        return a

    def raises(self, vc, a):
        return []

    def post(self, vc, a, result):
        seq = a["expr"].f["termseq"]
        arr, n = seq.arrs[0], term(seq.len)
        ret = to_bucketmap(result)
        return [("every-term-is-in-exactly-one-bucket-and-nothing-else",
                 z3.And(ret.f["val"] == VALSPEC(arr, n), ret.f["dom"] == DOMSPEC(arr, n)))]


def _reg(name, needs_name):
    cls = type("Sorter_" + name, (_Sorter,), {
        "key": f"adcgen.sort_expr:{name}", "needs_name": needs_name, "loops": {0: SortLoop()}})
    register(cls)


_reg("by_delta_types", False)
_reg("by_delta_indices", False)
_reg("by_tensor_block", True)
_reg("by_tensor_target_block", True)
_reg("by_tensor_target_indices", True)


@lemma("C10", "buckets-sum-to-expression")
def buckets_sum():
    """one step of the exchange-of-summation argument: adding the term to the
    bucket of its key raises the sum over all buckets by the term's value -
    stated for two arbitrary keys (the touched one and any other)"""
    v = z3.Const("v", KeyArrV)
    k1, k2 = z3.Int("k1"), z3.Int("k2")
    t = z3.Real("t")
    v2 = z3.Store(v, k1, v[k1] + t)
    return [("only-the-bucket-of-the-key-changes", z3.Implies(k1 != k2, v2[k2] == v[k2])),
            ("it-changes-by-the-term", v2[k1] == v[k1] + t)]


# --- Obj.symmetry -------------------------------------------------------------------
# The symmetry of a single object is the symmetry of the one-term expression made of
# the WHOLE object (base and exponent: an even power of a bra-ket antisymmetric tensor
# is bra-ket symmetric) in which the selected indices are the target indices.
@register
class ObjSymmetry(Contract):
    key = "adcgen.expr_container:Obj.symmetry"
    props = ["C10"]
    loops = {}

    def setup(self, vc):
        oc = vc.choose(2, "only_contracted")
        ot = vc.choose(2, "only_target")
        kind = vc.choose(3, "object")    # tensor with indices / number / NonSymmetricTensor
        whole = Struct("SympyTok", what="object-with-exponent", number=kind == 1, nonsym=kind == 2)
        base = Struct("SympyTok", what="base", number=kind == 1, nonsym=kind == 2)
        C.STRUCT_ATTR[("SympyTok", "is_number")] = lambda ip, o: o.f["number"]
        C.STRUCT_ISINSTANCE["SympyTok"] = lambda ip, v, cls: v.f["nonsym"]
        term_ = Struct("TermOfObj", contracted=Struct("IdxSel", which="contracted indices of the term"),
                       target=Struct("IdxSel", which="target indices of the term"))
        C.STRUCT_ATTR[("TermOfObj", "contracted")] = lambda ip, o: o.f["contracted"]
        C.STRUCT_ATTR[("TermOfObj", "target")] = lambda ip, o: o.f["target"]
        me = Struct("ObjArg", sympy=whole, base=base, term=term_,
                    idx=Struct("IdxSel", which="indices of the object"))
        for f in ("sympy", "base", "term", "idx"):
            C.STRUCT_ATTR[("ObjArg", f)] = (lambda f: lambda ip, o: o.f[f])(f)
        # a fresh dict on every access, like Container.assumptions
        C.STRUCT_ATTR[("ObjArg", "assumptions")] = lambda ip, o: PDict({"real": vc.ghost["_real"],
                                                                         "sym_tensors": "SYM", "antisym_tensors": "ANTI"})
        vc.ghost["_real"] = bool(vc.choose(2, "real"))

        def expr_model(ip, a, k):
            if len(a) != 1:
                raise Unsupported("Expr(...) with other than one positional argument")
            return Struct("ProbeExpr", of=a[0], kw=dict(k))
        C.CLASS_MODELS["adcgen.expr_container:Expr"] = expr_model
        C.STRUCT_ATTR[("ProbeExpr", "terms")] = lambda ip, o: PList([Struct("ProbeTerm", of=o.f["of"], kw=o.f["kw"])])
        C.STRUCT_METHODS[("ProbeTerm", "symmetry")] = lambda ip, o, a, k: Struct(
            "SymmetryOf", of=o.f["of"], kw=o.f["kw"], args=tuple(a), flags=dict(k))
        return {"self": me, "only_contracted": bool(oc), "only_target": bool(ot)}

    def raises(self, vc, a):
        return [("Inputerror", a["only_contracted"] and a["only_target"])]

    def post(self, vc, a, result):
        me = a["self"].f
        if me["sympy"].f["number"] or me["sympy"].f["nonsym"]:
            return [("numbers-and-non-symmetric-tensors-have-no-symmetry",
                     isinstance(result, PDict) and len(result.d) == 0)]
        sel = me["term"].f["contracted"] if a["only_contracted"] else \
            me["term"].f["target"] if a["only_target"] else me["idx"]
        ok = isinstance(result, Struct) and result.cls == "SymmetryOf"
        return [("symmetry-of-the-whole-object-including-its-exponent", ok and result.f["of"] is me["sympy"]),
                ("the-selected-indices-are-the-target-indices-of-the-probe",
                 ok and result.f["kw"].get("target_idx") is sel),
                ("the-probe-keeps-the-assumptions-of-the-object",
                 ok and {k: v for k, v in result.f["kw"].items() if k != "target_idx"}
                 == {"real": vc.ghost["_real"], "sym_tensors": "SYM", "antisym_tensors": "ANTI"}),
                ("only-the-target-indices-of-the-probe-are-permuted",
                 ok and result.f["args"] == () and result.f["flags"] == {"only_target": True})]
