"""S3 - second quantised operators and the Fermi vacuum."""
import z3
from pyvc import contract as C
from pyvc.contract import Schema
from pyvc.values import Sym, SymSeq, term, wrap
from spec.idx import IdxSort, idx_space, idx_spin, orb, orb_spin, valid_index, same_orbital

OpSort = z3.DeclareSort("Op")
op_class = z3.Function("op_class", OpSort, z3.IntSort())   # code into OP_CLASSES
OP_CLASSES = ["F", "Fd"]
F_CODE, FD_CODE = 0, 1
op_idx = z3.Function("op_idx", OpSort, IdxSort)

C.SUBCLASS.update({
    "F": ("Annihilator", "FermionicOperator", "SqOperator", "Expr", "Basic"),
    "Fd": ("Creator", "FermionicOperator", "SqOperator", "Expr", "Basic"),
})


def _args(ip, s):
    return (Sym(op_idx(s.t), "Index"),)


def _state(ip, s):
    return Sym(op_idx(s.t), "Index")


OP = Schema(
    "FermionicOperator", OpSort,
    attrs={
        "class": ("enum", op_class, OP_CLASSES),
        "args": ("py", _args),
        "state": ("py", _state),
        "is_commutative": ("py", lambda ip, s: False),
    },
)


def valid_op(t):
    return z3.And(z3.Or(op_class(t) == F_CODE, op_class(t) == FD_CODE),
                  valid_index(op_idx(t)))


def pair_vev(p, q):
    """<Phi| p q |Phi> for two operators (z3 terms of sort Op) under sigma:
    annihilator-creator: delta * [virtual]; creator-annihilator: delta * [occupied]
    (anticommutation relations in a determinant)."""
    ip_, iq = op_idx(p), op_idx(q)
    F, Fd = F_CODE, FD_CODE
    return z3.If(
        z3.And(op_class(p) == F, op_class(q) == Fd, same_orbital(ip_, iq), orb(ip_) >= 0),
        z3.RealVal(1),
        z3.If(z3.And(op_class(p) == Fd, op_class(q) == F, same_orbital(ip_, iq), orb(ip_) < 0),
              z3.RealVal(1), z3.RealVal(0)))


OpArr = z3.ArraySort(z3.IntSort(), OpSort)
# vev(n, ops): vacuum expectation value of the operator string ops[0..n-1]
vev = z3.Function("vev", z3.IntSort(), OpArr, z3.RealSort())


def new_opseq(vc, prefix="ops"):
    n = vc.fresh_int(prefix + "_len")
    arr = vc.fresh(prefix, OpArr)
    vc.assume(n >= 0)
    return SymSeq(Sym(n), [arr], ("sym", OpSort, "FermionicOperator"))


OP.invariant = valid_op
