"""C17 - generated contraction code.  Contracts on the text templates of
adcgen.generate_code.generate_code: format_einsum_contraction,
format_libtensor_contraction, format_perm_symmetry (holes are opaque strings:
the emitted text must be the canonical call text with every hole in its
place)."""
import itertools
import z3
from pyvc import contract as C
from pyvc.contract import Contract, register
from pyvc.values import Struct, Sym, PList, term, wrap, zand, zor, znot, zeq, Unsupported

ASSUMPTIONS = [
    "einsum / libtensor semantics of the canonical call texts: einsum(\"i1,i2,...->t\", T1, T2, ...) sums the product over all indices not in t; contract(c1|c2, A, B) sums the product over c1, c2; dot_product sums over all indices; '*' is the (outer) product",
    "tensor names, index strings and prefactor texts are opaque holes (arbitrary strings); str.join is injective on separator free parts",
    "concrete-shape proof: 0-3 tensors, 0-2 scalar factors, 0-2 contracted indices, 0-2 permutation operators with 1-2 transpositions",
    "generate_code (assembly of inner / outer contractions), format_contraction (index strings, name translation, partial trace refusal), format_prefactor and the number formatters are only covered by the bounded stand-in generated_code.execute",
]
TRUSTED = ["einsum / libtensor semantics of the canonical call texts"]
GC = "adcgen.generate_code.generate_code:"


def holes(vc, prefix, n):
    return [Sym(z3.String(f"{prefix}{k}")) for k in range(n)]


def cat(*parts):
    ts = [z3.StringVal(p) if isinstance(p, str) else term(p) for p in parts if not (isinstance(p, str) and p == "")]
    if not ts:
        return z3.StringVal("")
    return ts[0] if len(ts) == 1 else z3.Concat(*ts)


def joined(sep, parts):
    out = []
    for n, p in enumerate(parts):
        if n:
            out.append(sep)
        out.append(p)
    return cat(*out)


def as_term(v):
    return z3.StringVal(v) if isinstance(v, str) else term(v)


@register
class FormatEinsum(Contract):
    key = GC + "format_einsum_contraction"
    props = ["C17"]
    SHAPES = [(t, f) for t in range(0, 4) for f in range(0, 3)]
    split_first_choice = len(SHAPES)

    def setup(self, vc):
        nt, nf = self.SHAPES[vc.choose(len(self.SHAPES), "shape")]
        tensors, idx = holes(vc, "tensor", nt), holes(vc, "idx", nt)
        factors = holes(vc, "factor", nf)
        target = Sym(z3.String("target"))
        return {"tensors": PList(tensors), "factors": PList(factors), "indices": PList(idx),
                "target": target}

    def post(self, vc, a, result):
        tensors, factors = a["tensors"].items, a["factors"].items
        idx, target = a["indices"].items, a["target"]
        comps = [f for f in factors]
        if len(tensors) == 1:
            bare = idx[0].t == target.t
            call = cat('einsum("', idx[0], "->", target, '", ', tensors[0], ")")
            last = z3.If(bare, tensors[0].t, call)
            comps_t = [as_term(c) for c in comps] + [last]
        elif tensors:
            call = cat('einsum("', joined(",", idx), "->", target, '", ', joined(", ", tensors), ")")
            comps_t = [as_term(c) for c in comps] + [call]
        else:
            comps_t = [as_term(c) for c in comps]
        spec = joined(" * ", [Sym(t) for t in comps_t])
        return [("text-is-factors-times-the-canonical-einsum-call", as_term(result) == spec)]


def idx_obj(vc, k):
    s = Struct("IndexTok", name=Sym(z3.String(f"contracted{k}")))
    return s


@register
class FormatLibtensor(Contract):
    key = GC + "format_libtensor_contraction"
    props = ["C17"]
    SHAPES = [(t, f, c, tg) for t in range(0, 4) for f in range(0, 2) for c in range(0, 3)
              for tg in (False, True)]
    split_first_choice = len(SHAPES)

    def setup(self, vc):
        nt, nf, nc, has_target = self.SHAPES[vc.choose(len(self.SHAPES), "shape")]
        return {"tensors": PList(holes(vc, "tensor", nt)), "factors": PList(holes(vc, "factor", nf)),
                "target": Sym(z3.String("target")) if has_target else "",
                "contracted": tuple(idx_obj(vc, k) for k in range(nc))}

    def pre(self, vc, a):
        tg = a["target"]
        return [("target-string-nonempty", z3.Length(tg.t) > 0)] if isinstance(tg, Sym) else []

    def raises(self, vc, a):
        nt, nc = len(a["tensors"].items), len(a["contracted"])
        has_t = isinstance(a["target"], Sym)
        return [("AssertionError", nt == 1 and nc > 0),
                ("NotImplementedError", nt > 1 and nc == 0 and not has_t)]

    def post(self, vc, a, result):
        tensors, factors = a["tensors"].items, a["factors"].items
        contracted = [c.f["name"] for c in a["contracted"]]
        has_t = isinstance(a["target"], Sym)
        comps = list(factors)
        if len(tensors) == 1:
            comps.append(tensors[0])
        elif len(tensors) > 1:
            if contracted and has_t:
                comps.append(Sym(cat("contract(", joined("|", contracted), ", ", joined(", ", tensors), ")")))
            elif has_t:
                comps.extend(tensors)
            else:
                comps.append(Sym(cat("dot_product(", joined(", ", tensors), ")")))
        return [("text-is-factors-times-the-canonical-libtensor-call",
                 as_term(result) == joined(" * ", comps))]


@register
class FormatPermSymmetry(Contract):
    key = GC + "format_perm_symmetry"
    props = ["C17"]
    SHAPES = [[], [1], [2], [1, 1], [2, 1]]

    def setup(self, vc):
        shape = self.SHAPES[vc.choose(len(self.SHAPES), "shape")]
        ps = []
        for n, k in enumerate(shape):
            perms = tuple(Struct("PermTok", _str=Sym(z3.String(f"P{n}_{m}"))) for m in range(k))
            factor = [1, -1][vc.choose(2, "factor")]
            ps.append((perms, factor))
        return {"perm_symmetry": tuple(ps)}

    def post(self, vc, a, result):
        ps = a["perm_symmetry"]
        if not ps:
            return [("identity-only", result == "1")]
        parts = ["1"]
        for perms, factor in ps:
            parts.append(Sym(cat("+ " if factor == 1 else "- ", *[p.f["_str"] for p in perms])))
        spec = cat("(", joined(" ", parts), ")")
        return [("text-is-one-plus-signed-permutation-operators", as_term(result) == spec)]
